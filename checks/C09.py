"""C09 Scaled Fourier transforms are exact inverse pairs obeying Parseval.

E1 x E2: for every length N in the bound (odd and even), every spacing in the alphabet
and both access paths (aotools.fouriertransform.X and the re-exported aotools.X) the
complete operator matrices of ft/ift/ft2/ift2/rft/irft/rft2/irft2 are extracted from
all unit inputs e_k and i*e_k, and the identities are verified on the matrices, which
decides them for every input of that length by linearity.
"""
import itertools
import numpy

from mc import Out, Case
from mc import linear
from mc.refmodels import dft

PROPERTY = "C09"
LEVEL = "exploration"
TECHNIQUE = ("bounded exhaustive enumeration (all lengths N<=bound x spacings x access paths) "
             "with basis exhaustion of each linear transform (full operator matrices)")
RULE = ("cases = product(kind in {1d,2d,real1d,real2d,gauss}, N in 1..bound, delta in alphabet, "
        "access path in {module, package}); each case extracts the whole operator from all unit "
        "vectors; a case is non-trivial when N >= 2 (N = 1 has no shift arithmetic)")
ASSUMPTIONS = [
    "values outside the (N, delta, batch-shape) alphabet are not covered; identities are decided "
    "for all inputs of an enumerated length by linearity, which is itself tested on the basis",
    "2-D transforms are explored on square grids only (single spacing, delta_f = 1/(N delta))",
    "tolerance 1e-10 relative to the operator scale (measured residuals are <= 1e-15)",
]
TOL = 1e-10
DELTAS = [1.0, 0.5, 3.0]
BATCHES = [(1,), (2,), (2, 3)]


def BOUNDS(tier):
    return {"N_1d": list(N1(tier)), "N_2d": list(N2(tier)), "deltas": DELTAS,
            "batch_shapes": [()] + BATCHES, "paths": ["module", "package"]}


def N1(tier):
    return range(1, 13) if tier == "quick" else range(1, 131)


def N2(tier):
    return range(1, 8) if tier == "quick" else range(1, 25)


def cases(tier):
    for path in ("module", "package"):
        for d in DELTAS:
            for N in N1(tier):
                yield Case("1d:N=%d:d=%g:%s" % (N, d, path),
                           {"kind": "1d", "N": N, "delta": d, "path": path}, N >= 2)
                yield Case("real1d:N=%d:d=%g:%s" % (N, d, path),
                           {"kind": "real1d", "N": N, "delta": d, "path": path}, N >= 2)
            for N in N2(tier):
                yield Case("2d:N=%d:d=%g:%s" % (N, d, path),
                           {"kind": "2d", "N": N, "delta": d, "path": path}, N >= 2)
                yield Case("real2d:N=%d:d=%g:%s" % (N, d, path),
                           {"kind": "real2d", "N": N, "delta": d, "path": path}, N >= 2)
        yield Case("storage:%s" % path, {"kind": "storage", "path": path})
        # size classes beyond the exhaustive range (FFT back ends switch algorithm with size and with large prime
        # factors): full 1-D operators, and for 2-D the transforms of all unit impulses in three rows
        for N in ((64, 65, 129, 130, 257) if tier == "quick" else (64, 65, 129, 130, 257, 521, 1024, 1025)):
            if N not in N1(tier):
                yield Case("1d:N=%d:d=0.5:%s" % (N, path), {"kind": "1d", "N": N, "delta": 0.5, "path": path})
        for N in ((2047, 2048, 2049, 4097) if tier == "quick" else (2047, 2048, 2049, 4097, 8192, 8193, 65537)):
            yield Case("1dhuge:N=%d:%s" % (N, path), {"kind": "1dhuge", "N": N, "delta": 0.5, "path": path})
        yield Case("homogeneity:%s" % path, {"kind": "homogeneity", "path": path})
        for N in ((33, 64, 130) if tier == "quick" else (33, 64, 65, 130, 257)):
            yield Case("2dbig:N=%d:%s" % (N, path), {"kind": "2dbig", "N": N, "delta": 0.5, "path": path})
        for N in ((32, 33) if tier == "quick" else (32, 33, 64, 65, 127, 128)):
            yield Case("gauss:N=%d:%s" % (N, path), {"kind": "gauss", "N": N, "path": path})


def _ns(path):
    import aotools
    import aotools.fouriertransform as m
    return m if path == "module" else aotools


def _maxabs(a):
    a = numpy.asarray(a)
    return float(numpy.max(numpy.abs(a))) if a.size else 0.0


def evaluate(p):
    o = Out()
    ns = _ns(p["path"])
    kind = p["kind"]
    if kind == "gauss":
        return _gauss(o, ns, p["N"])
    if kind == "storage":
        return _storage(o, ns)
    if kind == "1dhuge":
        return _huge1d(o, ns, p["N"], p["delta"])
    if kind == "homogeneity":
        return _homogeneity(o, ns)
    N, d = p["N"], p["delta"]
    df = 1.0 / (N * d)
    if kind == "1d":
        shape = (N,)
        fwd, inv = (lambda x: ns.ft(x, d)), (lambda X: ns.ift(X, df))
        Fref, Iref = dft.centred_dft(N, d), dft.centred_idft(N, df)
        scale_f, scale_i, pars = d, df, d / df
    elif kind == "2d":
        shape = (N, N)
        fwd, inv = (lambda x: ns.ft2(x, d)), (lambda X: ns.ift2(X, df))
        Fref, Iref = dft.kron2(dft.centred_dft(N, d)), dft.kron2(dft.centred_idft(N, df))
        scale_f, scale_i, pars = d * d, df * df, (d / df) ** 2
    elif kind == "real1d":
        return _real(o, ns, N, d, df, 1)
    elif kind == "2dbig":
        return _big2d(o, ns, N, d, df)
    else:
        return _real(o, ns, N, d, df, 2)
    n = int(numpy.prod(shape))
    F, c1 = linear.operator(fwd, shape, out_shape=shape)
    G, c2 = linear.operator(inv, shape, out_shape=shape)
    Fi, c3 = linear.operator_imag(fwd, shape)
    Gi, c4 = linear.operator_imag(inv, shape)
    o.stat("lib_calls", c1 + c2 + c3 + c4)
    I = numpy.eye(n)
    o.close("complex_linear", max(_maxabs(Fi - 1j * F) / scale_f, _maxabs(Gi - 1j * G) / scale_i), TOL)
    e1, k1 = linear.superposition_error(fwd, shape, F)
    e2, k2 = linear.superposition_error(inv, shape, G)
    o.stat("lib_calls", k1 + k2)
    o.close("superposition", max(e1 / scale_f, e2 / scale_i) / (4.0 * n), TOL)
    o.close("inverse_ift_ft", _maxabs(G @ F - I), TOL)
    o.close("inverse_ft_ift", _maxabs(F @ G - I), TOL)
    # Parseval for every input (polarisation): F^H F delta_f^dim = delta^dim I
    o.close("parseval", _maxabs(F.conj().T @ F / pars - I), TOL)
    # origin at the centre sample: equality with the centred DFT matrix
    o.close("centred_forward", _maxabs(F - Fref) / scale_f, TOL)
    o.close("centred_inverse", _maxabs(G - Iref) / scale_i, TOL)
    # shift theorem on the extracted operator (columns are the transforms of shifted deltas)
    # leading batch dimensions: per-item equality
    base = (numpy.arange(1, n + 1) % 4 - 1.5) + 1j * ((numpy.arange(n) * 5) % 3 - 1)
    worst = 0.0
    for b in BATCHES:
        nb = int(numpy.prod(b))
        st = numpy.array([numpy.roll(base, 2 * i + 1) * (i + 1) for i in range(nb)]).reshape(b + shape)
        for f in (fwd, inv):
            Y = numpy.asarray(f(st.copy()))
            o.stat("lib_calls", 1 + nb)
            if Y.shape != st.shape:
                o.check("batch_per_item", False, sub="batch=%s" % (b,), detail="shape %s" % (Y.shape,))
                continue
            for idx in itertools.product(*[range(k) for k in b]):
                y1 = numpy.asarray(f(st[idx].copy()))
                worst = max(worst, _maxabs(Y[idx] - y1) / max(_maxabs(y1), 1e-300))
    o.close("batch_per_item", worst, TOL)
    o.outcome(numpy.round(F / scale_f, 6))
    return o


def _huge1d(o, ns, N, d):
    """1-D transforms of several thousand samples: unit impulses at 9 positions, stored in a complex and in a real
    dtype, against the column of the centred DFT written out directly; a dense real-dtype input against the same
    values in a complex dtype; round trip and Parseval on the dense input"""
    df = 1.0 / (N * d)
    c = N // 2
    m = numpy.arange(N) - c
    worst = {"centred_forward": 0.0, "centred_inverse": 0.0, "real_dtype_same_transform": 0.0}
    for k in (0, 1, 2, c - 1, c, c + 1, N // 3, N - 2, N - 1):
        colf = d * numpy.exp(-2j * numpy.pi * m * (k - c) / float(N))
        coli = df * numpy.exp(2j * numpy.pi * m * (k - c) / float(N))
        for dt in (complex, float):
            e = numpy.zeros(N, dtype=dt)
            e[k] = 1.0
            worst["centred_forward"] = max(worst["centred_forward"], _maxabs(numpy.asarray(ns.ft(e.copy(), d)) - colf) / d)
            worst["centred_inverse"] = max(worst["centred_inverse"], _maxabs(numpy.asarray(ns.ift(e.copy(), df)) - coli) / df)
            o.stat("lib_calls", 2)
    idx = numpy.arange(N)
    xr = ((idx * 7) % 11 - 5.0) + 0.25 * ((idx * 3) % 5)
    for f, sc in ((lambda x: ns.ft(x, d), d), (lambda x: ns.ift(x, df), df)):
        yr = numpy.asarray(f(xr.copy()))
        yc = numpy.asarray(f(xr.astype(complex)))
        worst["real_dtype_same_transform"] = max(worst["real_dtype_same_transform"], _maxabs(yr - yc) / max(_maxabs(yc), 1e-300))
    xc = xr + 1j * ((idx * 5) % 7 - 3.0)
    X = numpy.asarray(ns.ft(xc.copy(), d))
    back = numpy.asarray(ns.ift(X, df))
    o.stat("lib_calls", 6)
    for k_, v in worst.items():
        o.close(k_, v, TOL)
    o.close("inverse_ift_ft", _maxabs(back - xc) / _maxabs(xc), TOL)
    o.close("parseval", abs(numpy.sum(numpy.abs(X) ** 2) * df / (numpy.sum(numpy.abs(xc) ** 2) * d) - 1.0), TOL)
    return o


def _homogeneity(o, ns):
    """ft(s x) = s ft(x) for amplitudes from 1e-200 to 1e200 (a wavefront in metres, a flux in photons): the
    comparison is relative to the scaled result, so an absolute threshold anywhere inside shows"""
    for N in (8, 9, 64):
        idx = numpy.arange(N)
        x1 = ((idx * 7) % 11 - 5.0) + 1j * ((idx * 5) % 7 - 3.25)
        x2 = numpy.add.outer(x1, 0.5j * x1[::-1]) + 0.125 * numpy.multiply.outer(idx, idx % 3)
        fns = [("ft", ns.ft, x1), ("ift", ns.ift, x1), ("ft2", ns.ft2, x2), ("ift2", ns.ift2, x2),
               ("rft", ns.rft, x1.real.copy()), ("rft2", ns.rft2, x2.real.copy())]
        for name, f, x in fns:
            base = numpy.asarray(f(x.copy(), 0.5))
            for s_ in (1e-200, 1e-30, 1e-12, 1e-7, 1e7, 1e30, 1e200):
                got = numpy.asarray(f(x * s_, 0.5))
                o.stat("lib_calls", 1)
                if got.shape != base.shape or got.dtype.kind != base.dtype.kind:
                    o.check("homogeneous_over_amplitude", False, sub="%s:N=%d:s=%g" % (name, N, s_),
                            detail="shape/dtype %s %s vs %s %s" % (got.shape, got.dtype, base.shape, base.dtype))
                    continue
                o.close("homogeneous_over_amplitude", _maxabs(got / s_ - base) / _maxabs(base), TOL, sub="%s:N=%d:s=%g" % (name, N, s_))
    return o


def _big2d(o, ns, N, d, df):
    """2-D transforms of size N: the images of all unit impulses in the first, the centre and the last row (real and
    imaginary unit), against the outer product of the centred 1-D DFT columns; inverse on the same; one dense field
    by superposition of those"""
    F1, G1 = dft.centred_dft(N, d), dft.centred_idft(N, df)
    worst_f = worst_i = worst_rt = 0.0
    rows = (0, N // 2, N - 1)
    acc_in = numpy.zeros((N, N), dtype=complex)
    acc_out = numpy.zeros((N, N), dtype=complex)
    for i in rows:
        for j in range(N):
            e = numpy.zeros((N, N), dtype=complex)
            e[i, j] = 1.0 if (i + j) % 2 else 1j
            Y = numpy.asarray(ns.ft2(e.copy(), d))
            want = e[i, j] * numpy.outer(F1[:, i], F1[:, j])
            worst_f = max(worst_f, _maxabs(Y - want) / (d * d))
            Z = numpy.asarray(ns.ift2(e.copy(), df))
            worst_i = max(worst_i, _maxabs(Z - e[i, j] * numpy.outer(G1[:, i], G1[:, j])) / (df * df))
            back = numpy.asarray(ns.ift2(Y, df))
            worst_rt = max(worst_rt, _maxabs(back - e))
            c = (1 + (i * 3 + j * 7) % 5) * (1 - 2 * ((i + j) % 3 == 0))
            acc_in += c * e
            acc_out += c * want
            o.stat("lib_calls", 3)
    o.close("centred_forward", worst_f, TOL)
    o.close("centred_inverse", worst_i, TOL)
    o.close("inverse_ift_ft", worst_rt, TOL)
    Y = numpy.asarray(ns.ft2(acc_in.copy(), d))
    o.stat("lib_calls", 1)
    o.close("superposition", _maxabs(Y - acc_out) / (d * d) / (4.0 * 3 * N), TOL)
    o.close("parseval", abs(numpy.sum(numpy.abs(Y) ** 2) * df * df / (numpy.sum(numpy.abs(acc_in) ** 2) * d * d) - 1.0), TOL)
    return o


def _layout(M, dc):
    """index of frequency k in a half-spectrum stored as a cyclic rotation with DC at dc"""
    return [(dc + k) % M for k in range(M)]


def _real(o, ns, N, d, df, dim):
    """real-input variants: irft(rft(x)) = x and half-spectrum Parseval, all real unit inputs"""
    M = N // 2 + 1
    if dim == 1:
        shape, hshape = (N,), (M,)
        fwd, inv = (lambda x: ns.rft(x, d)), (lambda X: ns.irft(X, df))
        pars = d / df
    else:
        shape, hshape = (N, N), (N, M)
        fwd, inv = (lambda x: ns.rft2(x, d)), (lambda X: ns.irft2(X, df))
        pars = (d / df) ** 2
    n = int(numpy.prod(shape))
    try:
        T, c = linear.operator(fwd, shape, dtype=float, out_shape=hshape)
    except ValueError as e:
        o.check("real_half_spectrum_shape", False, detail=str(e))
        return o
    o.stat("lib_calls", c)
    o.check("real_half_spectrum_shape", True)
    # round trip on every real unit input (and therefore, by linearity, on every input)
    worst, bad_shape = 0.0, None
    for k in range(n):
        x = linear.unit(shape, k, 1.0, float)
        y = numpy.asarray(inv(fwd(x.copy())))
        o.stat("lib_calls", 2)
        if y.shape != x.shape:
            bad_shape = y.shape
            break
        worst = max(worst, _maxabs(y - x))
    if bad_shape is not None:
        o.check("real_inverse_pair", False, detail="irft(rft(x)) has shape %s for input shape %s"
                % (bad_shape, shape))
    else:
        o.close("real_inverse_pair", worst, TOL)
    # leading batch dimensions: every item of a stack is transformed on its own (forward and inverse)
    basev = ((numpy.arange(n) * 7) % 5 - 1.5).reshape(shape)
    worst_b = 0.0
    for b in BATCHES:
        nb = int(numpy.prod(b))
        st = numpy.array([numpy.roll(basev, 2 * i + 1) * (i + 1) for i in range(nb)]).reshape(b + shape)
        Y = numpy.asarray(fwd(st.copy()))
        o.stat("lib_calls", 1 + nb)
        if Y.shape != b + hshape:
            o.check("real_batch_per_item", False, sub="forward:batch=%s" % (b,), detail="shape %s" % (Y.shape,))
            continue
        for idx in itertools.product(*[range(k) for k in b]):
            y1 = numpy.asarray(fwd(st[idx].copy()))
            worst_b = max(worst_b, _maxabs(Y[idx] - y1) / max(_maxabs(y1), 1e-300))
        if N % 2 == 0 or dim == 2:          # the inverse of an odd 1-d length is the recorded open finding
            Z = numpy.asarray(inv(Y.copy()))
            o.stat("lib_calls", 1 + nb)
            if Z.shape != st.shape:
                o.check("real_batch_per_item", False, sub="inverse:batch=%s" % (b,), detail="shape %s" % (Z.shape,))
                continue
            worst_b = max(worst_b, _maxabs(Z - st) / max(_maxabs(st), 1e-300))
    o.close("real_batch_per_item", worst_b, TOL)
    # superposition
    e, k = linear.superposition_error(fwd, shape, T, dtype=float)
    o.stat("lib_calls", k)
    o.close("real_superposition", e / (d ** dim) / (4.0 * n), TOL)
    # Parseval with Hermitian weights; the storage layout (cyclic rotation of the rfft order)
    # is discovered from the response to a constant, so the clause does not prescribe it
    const = numpy.asarray(fwd(numpy.ones(shape))).reshape(hshape)
    o.stat("lib_calls", 1)
    pos = numpy.unravel_index(int(numpy.argmax(numpy.abs(const))), hshape)
    w1 = numpy.full(M, 2.0)
    w1[0] = 1.0
    if N % 2 == 0:
        w1[M - 1] = 1.0
    wl = numpy.empty(M)
    wl[_layout(M, pos[-1])] = w1
    if dim == 1:
        W = wl
    else:
        W = numpy.tile(wl, (N, 1))
    W = W.reshape(-1)
    G = numpy.real(T.conj().T @ (W[:, None] * T)) / pars
    o.close("real_parseval", _maxabs(G - numpy.eye(n)), TOL)
    return o


def _gauss(o, ns, N):
    """a centred Gaussian maps to the analytic Gaussian (continuous-FT approximation)"""
    d = 0.25
    c = N // 2
    x = (numpy.arange(N) - c) * d
    s = 0.6
    g = numpy.exp(-x ** 2 / (2 * s * s))
    df = 1.0 / (N * d)
    f = (numpy.arange(N) - c) * df
    ana = s * numpy.sqrt(2 * numpy.pi) * numpy.exp(-2 * (numpy.pi * s * f) ** 2)
    G = numpy.asarray(ns.ft(g.astype(complex), d))
    o.stat("lib_calls", 1)
    o.close("gaussian_1d", _maxabs(G - ana) / ana.max(), 1e-8)
    # shifted by k samples -> linear phase exp(-2 pi i f k d)
    for k in (1, -3):
        Gk = numpy.asarray(ns.ft(numpy.roll(g, k).astype(complex), d))
        o.stat("lib_calls", 1)
        o.close("shift_phase_1d", _maxabs(Gk - ana * numpy.exp(-2j * numpy.pi * f * k * d)) / ana.max(),
                1e-8, sub="k=%d" % k)
    g2 = numpy.outer(g, g)
    G2 = numpy.asarray(ns.ft2(g2.astype(complex), d))
    o.stat("lib_calls", 1)
    o.close("gaussian_2d", _maxabs(G2 - numpy.outer(ana, ana)) / ana.max() ** 2, 1e-8)
    back = numpy.asarray(ns.ift2(numpy.outer(ana, ana).astype(complex), df))
    o.stat("lib_calls", 1)
    o.close("gaussian_2d_inverse", _maxabs(back - g2), 1e-8)
    return o

ENGINES = ["E1-product-enumeration", "E2-basis-exhaustion"]
LEVEL_TEXT = ("Every length N in the bound (1..12 quick / 1..33 thorough in 1-D, 1..7 / 1..12 in 2-D), "
              "three spacings, four batch shapes and both access paths are enumerated completely; for each "
              "the full operator matrix of every transform is extracted from all unit inputs, so inverse-pair, "
              "Parseval and centring hold for all inputs of those lengths, not for sampled ones.")
LEVEL_NOTE = ("Trusted: numpy matrix arithmetic and the reference centred-DFT matrix (mc/refmodels/dft.py). "
              "Not covered: lengths beyond the bound, non-square 2-D grids, spacings outside the alphabet.")


def _storage(o, ns):
    """the transforms are functions of the VALUES of their input: other memory layouts (Fortran order, strided
    and transposed views, read-only) and dtypes (float32 / complex64 to single precision, integers) of the
    same data give the same spectrum"""
    from mc import variants
    i, j = numpy.indices((6, 6))
    re2 = ((3 * i * i + 5 * j + 2 * i * j) % 13 - 4).astype(float)
    x1 = re2[1].copy()
    st = numpy.array([re2, re2.T + 1.0])
    for name, f, data in (("ft:1d", lambda a: ns.ft(a, 0.5), x1), ("ift:1d", lambda a: ns.ift(a, 0.5), x1),
                          ("ft:rows", lambda a: ns.ft(a, 0.5), re2), ("ft2", lambda a: ns.ft2(a, 0.5), re2),
                          ("ift2", lambda a: ns.ift2(a, 0.5), re2), ("ft2:stack", lambda a: ns.ft2(a, 0.5), st),
                          ("rft", lambda a: ns.rft(a, 0.5), x1), ("rft2", lambda a: ns.rft2(a, 0.5), re2),
                          ("rft2:stack", lambda a: ns.rft2(a, 0.5), st)):
        n = variants.check_storage(o, "transform_independent_of_storage", f, data, 1e-12, sub=name,
                                   kinds=("float32", "int64", "int32"))
        o.stat("lib_calls", n)
    # two leading batch axes (a frame cut into sub-apertures, a cube of cubes), in every memory order of those axes
    st4 = numpy.array([[re2, re2.T + 1.0, re2 * 2.0], [re2[::-1] - 1.0, re2 + 0.5 * re2.T, re2.T * 3.0]])
    cut = (numpy.arange(144.0).reshape(12, 12) % 7 - 3.0).reshape(2, 6, 2, 6).swapaxes(1, 2)       # non-contiguous as is
    for name, f, data in (("ft2:4d", lambda a: ns.ft2(a, 0.5), st4), ("ift2:4d", lambda a: ns.ift2(a, 0.5), st4),
                          ("rft2:4d", lambda a: ns.rft2(a, 0.5), st4), ("ft:4d", lambda a: ns.ft(a, 0.5), st4),
                          ("ift:4d", lambda a: ns.ift(a, 0.5), st4), ("rft:4d", lambda a: ns.rft(a, 0.5), st4)):
        n = variants.check_storage(o, "transform_independent_of_storage", f, data, 1e-12, sub=name, kinds=("float32",))
        o.stat("lib_calls", n)
        got = numpy.asarray(f(cut))
        want = numpy.asarray(f(numpy.ascontiguousarray(cut)))
        o.close("transform_independent_of_storage", _maxabs(got - want) / max(_maxabs(want), 1e-300) if got.shape == want.shape else float("inf"),
                1e-12, sub=name + ":frame_cut_into_subapertures_view")
        per = numpy.array([[numpy.asarray(f(st4[a_, b_].copy())) for b_ in range(3)] for a_ in range(2)])
        full = numpy.asarray(f(st4.copy()))
        o.close("batch_per_item", _maxabs(full - per) / max(_maxabs(per), 1e-300) if full.shape == per.shape else float("inf"), 1e-12, sub=name)
        o.stat("lib_calls", 9)
    cx = re2 + 1j * re2.T
    for name, f in (("ft2:complex", lambda a: ns.ft2(a, 0.5)), ("ift2:complex", lambda a: ns.ift2(a, 0.5))):
        n = variants.check_storage(o, "transform_independent_of_storage", f, cx, 1e-12, sub=name, kinds=("float32",))
        o.stat("lib_calls", n)
    return o
