"""C09 Scaled Fourier transforms are exact inverse pairs obeying Parseval.

E1 x E2: for every length N in the bound (odd and even), every spacing in the alphabet
and both access paths (aotools.fouriertransform.X and the re-exported aotools.X) the
complete operator matrices of ft/ift/ft2/ift2/rft/irft/rft2/irft2 are extracted from
all unit inputs e_k and i*e_k, and the identities are verified on the matrices, which
decides them for every input of that length by linearity.  The storage order of the
half-spectra of the real-input variants is not prescribed: Hermitian weights and the frequency
of every stored entry are derived from the library's own operator.  Spot cases: larger sizes
(impulse probes), non-square grids, amplitudes, storage layouts / dtypes, call histories on one
array, keyword calls and spacing types.
"""
import itertools
import numpy

from mc import Out, Case
from mc import linear
from mc.refmodels import dft

PROPERTY = "C09"
LEVEL = "exploration"
TECHNIQUE = ("bounded exhaustive enumeration (all lengths N<=bound x spacings x access paths) "
             "with basis exhaustion of each linear transform (full operator matrices)")
RULE = ("cases = product(kind in {1d,2d,real1d,real2d,gauss}, N in 1..bound, delta in alphabet, "
        "access path in {module, package}); each case extracts the whole operator from all unit "
        "vectors; a case is non-trivial when N >= 2 (N = 1 has no shift arithmetic)")
ASSUMPTIONS = [
    "values outside the (N, delta, batch-shape) alphabet are not covered; identities are decided "
    "for all inputs of an enumerated length by linearity, which is itself tested on the basis",
    "2-D transforms: full operators on square grids (single spacing, delta_f = 1/(N delta)) and on the non-square "
    "grids (Ny, Nx) in {1..5}^2 for ft2/ift2; on a non-square grid the statement does not say which N enters "
    "delta_f = 1/(N delta), so ift2 is required to invert ft2 for one of 1/(Nx delta), 1/(Ny delta), "
    "1/(sqrt(Nx Ny) delta) and to be proportional to the inverse for the first; a library that rejects non-square "
    "grids is not judged there (non_square_not_claimed). rft2/irft2 are explored on square grids only",
    "tolerance 1e-10 relative to the operator scale; measured residuals of the unchanged library are <= 4e-15 on "
    "every matrix clause and <= 1e-14 at N = 65537 (reference phases are reduced modulo N in integers), so the "
    "margin is >= 4 orders of magnitude; Gaussian clauses 1e-8 (2.2e-10 measured = the Gaussian's value at the "
    "grid edge, intrinsic to any implementation)",
    "half-spectra: the storage ORDER of a half-spectrum is not prescribed: Hermitian weights (1 when the conjugate "
    "partner of an entry is itself stored, 2 otherwise) and the frequency of every entry are derived from the "
    "extracted operator; the halved axis may be either axis in 2-D. 'Half-spectrum' is read as: every stored entry "
    "is one entry of the centred spectrum that ft / ft2 give for the same input (clause real_centred_forward)",
    "documented parameter names (data, delta, delta_f) are part of the exported interface; integer and numpy-scalar "
    "spacings are spacings; unsigned-integer arrays are real inputs. Boolean arrays and empty batch axes are only "
    "observed (notes), not judged",
]
TOL = 1e-10
DELTAS = [1.0, 0.5, 3.0]
BATCHES = [(1,), (2,), (2, 3)]
NONSQUARE = [(a, b) for a in range(1, 6) for b in range(1, 6) if a != b]


def _sizes(tier):
    q = tier == "quick"
    return {
        "1d_spot": (64, 65, 129, 130, 257) if q else (64, 65, 129, 130, 257, 521, 1024, 1025),
        "1dhuge": (2047, 2048, 2049, 4097) if q else (2047, 2048, 2049, 4097, 8192, 8193, 65537),
        "2dbig": (33, 64, 130) if q else (33, 64, 65, 130, 257),
        "gauss": (32, 33) if q else (32, 33, 64, 65, 127, 128),
        "real1dhuge": (64, 65, 130, 257, 2048, 2049, 4096) if q else (64, 65, 130, 257, 2048, 2049, 4096, 4097, 8192, 65536, 65537),
        "real2dbig": (32, 33, 64, 130) if q else (32, 33, 64, 65, 130, 257),
    }


def BOUNDS(tier):
    b = {"N_1d": list(N1(tier)), "N_2d": list(N2(tier)), "deltas": DELTAS,
         "batch_shapes": [()] + BATCHES, "paths": ["module", "package"],
         "non_square_shapes_ft2_ift2": "all (Ny, Nx) in {1..5}^2 with Ny != Nx, three spacings",
         "spacing_types": ["int 2", "numpy.int64(3)", "numpy.float32(0.5)", "numpy.float64(1e-6)", "0-d array 0.25", "1e5"],
         "amplitudes": [1e-200, 1e-30, 1e-12, 1e-7, 1e7, 1e30, 1e200]}
    b.update({"N_" + k: list(v) for k, v in _sizes(tier).items()})
    b["largest_N"] = {"1d_full_operator": max(_sizes(tier)["1d_spot"]), "1d_probes": max(_sizes(tier)["1dhuge"]),
                      "2d_full_operator": max(N2(tier)), "2d_probes": max(_sizes(tier)["2dbig"]),
                      "real1d_full_operator": max(N1(tier)), "real1d_probes": max(_sizes(tier)["real1dhuge"]),
                      "real2d_full_operator": max(N2(tier)), "real2d_probes": max(_sizes(tier)["real2dbig"])}
    return b


def N1(tier):
    return range(1, 13) if tier == "quick" else range(1, 131)


def N2(tier):
    return range(1, 8) if tier == "quick" else range(1, 25)


def cases(tier):
    sz = _sizes(tier)
    for path in ("module", "package"):
        for d in DELTAS:
            for N in N1(tier):
                yield Case("1d:N=%d:d=%g:%s" % (N, d, path),
                           {"kind": "1d", "N": N, "delta": d, "path": path}, N >= 2)
                yield Case("real1d:N=%d:d=%g:%s" % (N, d, path),
                           {"kind": "real1d", "N": N, "delta": d, "path": path}, N >= 2)
            for N in N2(tier):
                yield Case("2d:N=%d:d=%g:%s" % (N, d, path),
                           {"kind": "2d", "N": N, "delta": d, "path": path}, N >= 2)
                yield Case("real2d:N=%d:d=%g:%s" % (N, d, path),
                           {"kind": "real2d", "N": N, "delta": d, "path": path}, N >= 2)
            # non-square grids: the two axes have their own length, parity and centre sample
            for Ny, Nx in NONSQUARE:
                yield Case("2dns:Ny=%d:Nx=%d:d=%g:%s" % (Ny, Nx, d, path),
                           {"kind": "2dns", "Ny": Ny, "Nx": Nx, "delta": d, "path": path})
        yield Case("storage:%s" % path, {"kind": "storage", "path": path})
        yield Case("history:%s" % path, {"kind": "history", "path": path})
        yield Case("calling:%s" % path, {"kind": "calling", "path": path})
        # size classes beyond the exhaustive range (FFT back ends switch algorithm with size and with large prime
        # factors): full 1-D operators, and for 2-D the transforms of all unit impulses in three rows
        for N in sz["1d_spot"]:
            if N not in N1(tier):
                yield Case("1d:N=%d:d=0.5:%s" % (N, path), {"kind": "1d", "N": N, "delta": 0.5, "path": path})
        for N in sz["1dhuge"]:
            yield Case("1dhuge:N=%d:%s" % (N, path), {"kind": "1dhuge", "N": N, "delta": 0.5, "path": path})
        yield Case("homogeneity:%s" % path, {"kind": "homogeneity", "path": path})
        for N in sz["2dbig"]:
            yield Case("2dbig:N=%d:%s" % (N, path), {"kind": "2dbig", "N": N, "delta": 0.5, "path": path})
        for N in sz["gauss"]:
            yield Case("gauss:N=%d:%s" % (N, path), {"kind": "gauss", "N": N, "path": path})
        # real-input variants at the sizes of real grids (probes instead of full operators)
        for N in sz["real1dhuge"]:
            yield Case("real1dhuge:N=%d:%s" % (N, path), {"kind": "real1dhuge", "N": N, "delta": 0.5, "path": path})
        for N in sz["real2dbig"]:
            yield Case("real2dbig:N=%d:%s" % (N, path), {"kind": "real2dbig", "N": N, "delta": 0.5, "path": path})


def _ns(path):
    import aotools
    import aotools.fouriertransform as m
    return m if path == "module" else aotools


def _maxabs(a):
    a = numpy.asarray(a)
    return float(numpy.max(numpy.abs(a))) if a.size else 0.0


def evaluate(p):
    o = Out()
    ns = _ns(p["path"])
    kind = p["kind"]
    if kind == "gauss":
        return _gauss(o, ns, p["N"])
    if kind == "storage":
        return _storage(o, ns)
    if kind == "1dhuge":
        return _huge1d(o, ns, p["N"], p["delta"])
    if kind == "homogeneity":
        return _homogeneity(o, ns)
    if kind == "history":
        return _history(o, ns)
    if kind == "calling":
        return _calling(o, ns)
    if kind == "2dns":
        return _nonsquare(o, ns, p["Ny"], p["Nx"], p["delta"])
    if kind == "real1dhuge":
        return _realbig(o, ns, p["N"], p["delta"], 1)
    if kind == "real2dbig":
        return _realbig(o, ns, p["N"], p["delta"], 2)
    N, d = p["N"], p["delta"]
    df = 1.0 / (N * d)
    if kind == "1d":
        shape = (N,)
        fwd, inv = (lambda x: ns.ft(x, d)), (lambda X: ns.ift(X, df))
        Fref, Iref = dft.centred_dft(N, d), dft.centred_idft(N, df)
        scale_f, scale_i, pars = d, df, d / df
    elif kind == "2d":
        shape = (N, N)
        fwd, inv = (lambda x: ns.ft2(x, d)), (lambda X: ns.ift2(X, df))
        Fref, Iref = dft.kron2(dft.centred_dft(N, d)), dft.kron2(dft.centred_idft(N, df))
        scale_f, scale_i, pars = d * d, df * df, (d / df) ** 2
    elif kind == "real1d":
        return _real(o, ns, N, d, df, 1)
    elif kind == "2dbig":
        return _big2d(o, ns, N, d, df)
    else:
        return _real(o, ns, N, d, df, 2)
    n = int(numpy.prod(shape))
    F, c1 = linear.operator(fwd, shape, out_shape=shape)
    G, c2 = linear.operator(inv, shape, out_shape=shape)
    Fi, c3 = linear.operator_imag(fwd, shape)
    Gi, c4 = linear.operator_imag(inv, shape)
    o.stat("lib_calls", c1 + c2 + c3 + c4)
    I = numpy.eye(n)
    o.close("complex_linear", max(_maxabs(Fi - 1j * F) / scale_f, _maxabs(Gi - 1j * G) / scale_i), TOL)
    e1, k1 = linear.superposition_error(fwd, shape, F)
    e2, k2 = linear.superposition_error(inv, shape, G)
    o.stat("lib_calls", k1 + k2)
    o.close("superposition", max(e1 / scale_f, e2 / scale_i) / (4.0 * n), TOL)
    o.close("inverse_ift_ft", _maxabs(G @ F - I), TOL)
    o.close("inverse_ft_ift", _maxabs(F @ G - I), TOL)
    # Parseval for every input (polarisation): F^H F delta_f^dim = delta^dim I
    o.close("parseval", _maxabs(F.conj().T @ F / pars - I), TOL)
    # origin at the centre sample: equality with the centred DFT matrix
    o.close("centred_forward", _maxabs(F - Fref) / scale_f, TOL)
    o.close("centred_inverse", _maxabs(G - Iref) / scale_i, TOL)
    # shift theorem on the extracted operator (columns are the transforms of shifted deltas)
    # leading batch dimensions: per-item equality
    base = (numpy.arange(1, n + 1) % 4 - 1.5) + 1j * ((numpy.arange(n) * 5) % 3 - 1)
    worst = 0.0
    for b in BATCHES:
        nb = int(numpy.prod(b))
        st = numpy.array([numpy.roll(base, 2 * i + 1) * (i + 1) for i in range(nb)]).reshape(b + shape)
        for f in (fwd, inv):
            Y = numpy.asarray(f(st.copy()))
            o.stat("lib_calls", 1 + nb)
            if Y.shape != st.shape:
                o.check("batch_per_item", False, sub="batch=%s" % (b,), detail="shape %s" % (Y.shape,))
                continue
            for idx in itertools.product(*[range(k) for k in b]):
                y1 = numpy.asarray(f(st[idx].copy()))
                worst = max(worst, _maxabs(Y[idx] - y1) / max(_maxabs(y1), 1e-300))
    o.close("batch_per_item", worst, TOL)
    o.outcome(numpy.round(F / scale_f, 6))
    return o


def _huge1d(o, ns, N, d):
    """1-D transforms of several thousand samples: unit impulses at 9 positions, stored in a complex and in a real
    dtype, against the column of the centred DFT written out directly; a dense real-dtype input against the same
    values in a complex dtype; round trip and Parseval on the dense input"""
    df = 1.0 / (N * d)
    c = N // 2
    m = numpy.arange(N, dtype=numpy.int64) - c
    worst = {"centred_forward": 0.0, "centred_inverse": 0.0, "real_dtype_same_transform": 0.0}
    for k in (0, 1, 2, c - 1, c, c + 1, N // 3, N - 2, N - 1):
        # phases reduced modulo N in integers (dft.phase): the reference is good to ~1e-16 at every N, so the
        # measured residual (<= 1e-14 at N = 65537) is the library's and TOL keeps 4 orders of margin
        colf = d * dft.phase(N, m * (k - c), -1)
        coli = df * dft.phase(N, m * (k - c), +1)
        for dt in (complex, float):
            e = numpy.zeros(N, dtype=dt)
            e[k] = 1.0
            worst["centred_forward"] = max(worst["centred_forward"], _maxabs(numpy.asarray(ns.ft(e.copy(), d)) - colf) / d)
            worst["centred_inverse"] = max(worst["centred_inverse"], _maxabs(numpy.asarray(ns.ift(e.copy(), df)) - coli) / df)
            o.stat("lib_calls", 2)
    idx = numpy.arange(N)
    xr = ((idx * 7) % 11 - 5.0) + 0.25 * ((idx * 3) % 5)
    for f, sc in ((lambda x: ns.ft(x, d), d), (lambda x: ns.ift(x, df), df)):
        yr = numpy.asarray(f(xr.copy()))
        yc = numpy.asarray(f(xr.astype(complex)))
        worst["real_dtype_same_transform"] = max(worst["real_dtype_same_transform"], _maxabs(yr - yc) / max(_maxabs(yc), 1e-300))
    xc = xr + 1j * ((idx * 5) % 7 - 3.0)
    X = numpy.asarray(ns.ft(xc.copy(), d))
    back = numpy.asarray(ns.ift(X, df))
    o.stat("lib_calls", 6)
    for k_, v in worst.items():
        o.close(k_, v, TOL)
    o.close("inverse_ift_ft", _maxabs(back - xc) / _maxabs(xc), TOL)
    o.close("parseval", abs(numpy.sum(numpy.abs(X) ** 2) * df / (numpy.sum(numpy.abs(xc) ** 2) * d) - 1.0), TOL)
    return o


def _homogeneity(o, ns):
    """ft(s x) = s ft(x) for amplitudes from 1e-200 to 1e200 (a wavefront in metres, a flux in photons): the
    comparison is relative to the scaled result, so an absolute threshold anywhere inside shows.  All eight
    transforms; the inverse real-input variants get arbitrary complex half-spectra (their result is a linear
    function of whatever they are given).  Largest intermediate ~1e209, smallest ~1e-203: no overflow or underflow
    in an implementation that scales before or after the FFT.  Values are compared, not dtypes."""
    for N in (8, 9, 64):
        M = N // 2 + 1
        idx = numpy.arange(N)
        x1 = ((idx * 7) % 11 - 5.0) + 1j * ((idx * 5) % 7 - 3.25)
        x2 = numpy.add.outer(x1, 0.5j * x1[::-1]) + 0.125 * numpy.multiply.outer(idx, idx % 3)
        fns = [("ft", ns.ft, x1), ("ift", ns.ift, x1), ("ft2", ns.ft2, x2), ("ift2", ns.ift2, x2),
               ("rft", ns.rft, x1.real.copy()), ("rft2", ns.rft2, x2.real.copy()),
               ("irft", ns.irft, x1[:M].copy()), ("irft2", ns.irft2, x2[:, :M].copy())]
        for name, f, x in fns:
            base = numpy.asarray(f(x.copy(), 0.5))
            for s_ in (1e-200, 1e-30, 1e-12, 1e-7, 1e7, 1e30, 1e200):
                got = numpy.asarray(f(x * s_, 0.5))
                o.stat("lib_calls", 1)
                if got.shape != base.shape:
                    o.check("homogeneous_over_amplitude", False, sub="%s:N=%d:s=%g" % (name, N, s_),
                            detail="shape %s vs %s" % (got.shape, base.shape))
                    continue
                o.close("homogeneous_over_amplitude", _maxabs(got / s_ - base) / _maxabs(base), TOL, sub="%s:N=%d:s=%g" % (name, N, s_))
    return o


def _big2d(o, ns, N, d, df):
    """2-D transforms of size N: the images of all unit impulses in the first, the centre and the last row (real and
    imaginary unit), against the outer product of the centred 1-D DFT columns; inverse on the same; one dense field
    by superposition of those"""
    F1, G1 = dft.centred_dft(N, d), dft.centred_idft(N, df)
    worst_f = worst_i = worst_rt = 0.0
    rows = (0, N // 2, N - 1)
    acc_in = numpy.zeros((N, N), dtype=complex)
    acc_out = numpy.zeros((N, N), dtype=complex)
    for i in rows:
        for j in range(N):
            e = numpy.zeros((N, N), dtype=complex)
            e[i, j] = 1.0 if (i + j) % 2 else 1j
            Y = numpy.asarray(ns.ft2(e.copy(), d))
            want = e[i, j] * numpy.outer(F1[:, i], F1[:, j])
            worst_f = max(worst_f, _maxabs(Y - want) / (d * d))
            Z = numpy.asarray(ns.ift2(e.copy(), df))
            worst_i = max(worst_i, _maxabs(Z - e[i, j] * numpy.outer(G1[:, i], G1[:, j])) / (df * df))
            back = numpy.asarray(ns.ift2(Y, df))
            worst_rt = max(worst_rt, _maxabs(back - e))
            c = (1 + (i * 3 + j * 7) % 5) * (1 - 2 * ((i + j) % 3 == 0))
            acc_in += c * e
            acc_out += c * want
            o.stat("lib_calls", 3)
    o.close("centred_forward", worst_f, TOL)
    o.close("centred_inverse", worst_i, TOL)
    o.close("inverse_ift_ft", worst_rt, TOL)
    Y = numpy.asarray(ns.ft2(acc_in.copy(), d))
    o.stat("lib_calls", 1)
    o.close("superposition", _maxabs(Y - acc_out) / (d * d) / (4.0 * 3 * N), TOL)
    o.close("parseval", abs(numpy.sum(numpy.abs(Y) ** 2) * df * df / (numpy.sum(numpy.abs(acc_in) ** 2) * d * d) - 1.0), TOL)
    return o


def _partner_weights(T):
    """Hermitian weights of the entries of a half-spectrum, derived from the extracted operator T (row j = the
    linear functional that gives stored entry j of a real input) without any assumption on the storage order:
    the conjugate of entry j is the entry of the opposite frequency; if that is itself stored (as entry j, for the
    self-conjugate DC / Nyquist entries, or as another entry, as in the DC and Nyquist columns of a 2-D
    half-spectrum) the entry counts once in the energy sum, otherwise twice.
    |conj(T_j) - T_j'|^2 = |T_j|^2 + |T_j'|^2 - 2 Re sum_k T_jk T_j'k.  Distinct rows of a DFT are orthogonal
    (relative distance sqrt 2), equal ones agree to ~1e-8 (cancellation in the squared distance): the threshold
    1e-4 is a classification, not a tolerance."""
    nrm = numpy.real(numpy.sum(T * T.conj(), axis=1))
    d2 = nrm[:, None] + nrm[None, :] - 2.0 * numpy.real(T @ T.T)
    rel = numpy.sqrt(numpy.maximum(d2, 0.0).min(axis=1) / numpy.maximum(nrm, 1e-300))
    return numpy.where(rel < 1e-4, 1.0, 2.0)


def _row_match_error(T, Fref):
    """max over the rows of T of the distance to the best matching row of Fref (largest correlation); the
    conjugate of a row of the centred DFT is again one of its rows, so 'up to conjugation' is included"""
    best = numpy.argmax(numpy.real(T @ Fref.conj().T), axis=1)
    return _maxabs(T - Fref[best])


def _half_shapes(N, dim):
    M = N // 2 + 1
    return [(M,)] if dim == 1 else [(N, M), (M, N)]


def _real(o, ns, N, d, df, dim):
    """real-input variants: irft(rft(x)) = x and half-spectrum Parseval, all real unit inputs"""
    import traceback
    if dim == 1:
        shape = (N,)
        fwd, inv = (lambda x: ns.rft(x, d)), (lambda X: ns.irft(X, df))
        pars = d / df
    else:
        shape = (N, N)
        fwd, inv = (lambda x: ns.rft2(x, d)), (lambda X: ns.irft2(X, df))
        pars = (d / df) ** 2
    n = int(numpy.prod(shape))
    # N//2 + 1 entries along one axis (which axis is halved, and in which order the entries are stored, is not
    # prescribed by the statement: discovered here)
    hshape = tuple(numpy.asarray(fwd(linear.unit(shape, 0, 1.0, float))).shape)
    o.stat("lib_calls", 1)
    if hshape not in _half_shapes(N, dim):
        o.check("real_half_spectrum_shape", False, detail="output shape %s for input shape %s" % (hshape, shape))
        return o
    try:
        T, c = linear.operator(fwd, shape, dtype=float, out_shape=hshape)
    except ValueError as e:
        o.check("real_half_spectrum_shape", False, detail=str(e))
        return o
    o.stat("lib_calls", c)
    o.check("real_half_spectrum_shape", True)
    # leading batch dimensions: every item of a stack is transformed on its own (forward and inverse)
    basev = ((numpy.arange(n) * 7) % 5 - 1.5).reshape(shape)
    worst_b = 0.0
    for b in BATCHES:
        nb = int(numpy.prod(b))
        st = numpy.array([numpy.roll(basev, 2 * i + 1) * (i + 1) for i in range(nb)]).reshape(b + shape)
        Y = numpy.asarray(fwd(st.copy()))
        o.stat("lib_calls", 1 + nb)
        if Y.shape != b + hshape:
            o.check("real_batch_per_item", False, sub="forward:batch=%s" % (b,), detail="shape %s" % (Y.shape,))
            continue
        for idx in itertools.product(*[range(k) for k in b]):
            y1 = numpy.asarray(fwd(st[idx].copy()))
            worst_b = max(worst_b, _maxabs(Y[idx] - y1) / max(_maxabs(y1), 1e-300))
        if N % 2 == 0 or dim == 2:          # the inverse of an odd 1-d length is the recorded open finding
            Z = numpy.asarray(inv(Y.copy()))
            o.stat("lib_calls", 1 + nb)
            if Z.shape != st.shape:
                o.check("real_batch_per_item", False, sub="inverse:batch=%s" % (b,), detail="shape %s" % (Z.shape,))
                continue
            worst_b = max(worst_b, _maxabs(Z - st) / max(_maxabs(st), 1e-300))
    o.close("real_batch_per_item", worst_b, TOL)
    # superposition
    e, k = linear.superposition_error(fwd, shape, T, dtype=float)
    o.stat("lib_calls", k)
    o.close("real_superposition", e / (d ** dim) / (4.0 * n), TOL)
    # Parseval with Hermitian weights derived from the operator itself (no storage order assumed)
    W = _partner_weights(T)
    G = numpy.real(T.conj().T @ (W[:, None] * T)) / pars
    o.close("real_parseval", _maxabs(G - numpy.eye(n)), TOL)
    # every stored entry is one entry of the centred spectrum (origin at the centre sample), whatever the order
    F1 = dft.centred_dft(N, d)
    o.close("real_centred_forward", _row_match_error(T, F1 if dim == 1 else dft.kron2(F1)) / d ** dim, TOL)
    # round trip on every real unit input (and therefore, by linearity, on every input).  Last, and with an
    # exception recorded under the id the runner would give it, so that the clauses above are judged for every N
    # (irft raises for the half-spectrum of a single sample: part of the recorded open finding)
    worst, bad_shape = 0.0, None
    try:
        for k in range(n):
            x = linear.unit(shape, k, 1.0, float)
            y = numpy.asarray(inv(fwd(x.copy())))
            o.stat("lib_calls", 2)
            if y.shape != x.shape:
                bad_shape = y.shape
                break
            worst = max(worst, _maxabs(y - x))
    except Exception:
        o.check("no_exception", False, detail=traceback.format_exc()[-1500:])
        return o
    if bad_shape is not None:
        o.check("real_inverse_pair", False, detail="irft(rft(x)) has shape %s for input shape %s"
                % (bad_shape, shape))
    else:
        o.close("real_inverse_pair", worst, TOL)
    return o


def _realbig(o, ns, N, d, dim):
    """real-input variants at grid sizes in use (N = 32 .. 65537): the frequency held by every entry of the
    half-spectrum is READ from the responses to the impulses next to the centre sample (no storage order assumed),
    then the responses to impulses elsewhere, a sparse superposition, weighted Parseval on a dense input and the
    round trip are judged.  The 1-D round trip at odd N is the recorded open finding and is not repeated here."""
    df = 1.0 / (N * d)
    c = N // 2
    if dim == 1:
        shape = (N,)
        fwd, inv = (lambda x: ns.rft(x, d)), (lambda X: ns.irft(X, df))
        units = [(c + 1,)]
        probes = [(0,), (1,), (c - 1,), (c,), (c + 1,), (N // 3,), (N - 2,), (N - 1,)]
    else:
        shape = (N, N)
        fwd, inv = (lambda x: ns.rft2(x, d)), (lambda X: ns.irft2(X, df))
        units = [(c + 1, c), (c, c + 1)]
        probes = [(0, 0), (0, N - 1), (N - 1, 0), (c, c), (c + 1, c), (c, c + 1), (c - 1, c + 2), (N // 3, N - 1),
                  (N - 1, N - 1)]
    sc = d ** dim

    def imp(pos):
        e = numpy.zeros(shape)
        e[pos] = 1.0
        return e

    freqs = []
    hshape = None
    for u in units:
        r = numpy.asarray(fwd(imp(u))) / sc
        o.stat("lib_calls", 1)
        if hshape is None:
            hshape = tuple(r.shape)
            if hshape not in _half_shapes(N, dim):
                o.check("real_half_spectrum_shape", False, detail="output shape %s for input shape %s" % (hshape, shape))
                return o
        elif tuple(r.shape) != hshape:
            o.check("real_half_spectrum_shape", False, detail="output shapes %s and %s" % (hshape, r.shape))
            return o
        # one sample off the centre: the entry of frequency f is exp(-2 pi i f / N); adjacent frequencies are
        # 2 pi / N >= 9.6e-5 rad apart, rounding errors ~1e-16
        freqs.append(numpy.rint(-numpy.angle(r) * N / (2 * numpy.pi)).astype(numpy.int64) % N)
    o.check("real_half_spectrum_shape", True)

    def expected(pos):
        prod = sum(f * (q - c) for f, q in zip(freqs, pos))
        return sc * dft.phase(N, prod, -1)

    worst = 0.0
    acc_in = numpy.zeros(shape)
    acc_out = numpy.zeros(hshape, dtype=complex)
    tot = 0.0
    for i, pos in enumerate(probes):
        Y = numpy.asarray(fwd(imp(pos)))
        o.stat("lib_calls", 1)
        if Y.shape != hshape:
            o.check("real_half_spectrum_shape", False, sub="impulse=%s" % (pos,), detail="shape %s" % (Y.shape,))
            return o
        want = expected(pos)
        worst = max(worst, _maxabs(Y - want) / sc)
        a = (1 + (3 * i) % 5) * (1 - 2 * (i % 3 == 0))
        acc_in[pos] += a
        acc_out += a * want
        tot += abs(a)
    o.close("real_centred_forward", worst, TOL)
    Y = numpy.asarray(fwd(acc_in.copy()))
    o.stat("lib_calls", 1)
    o.close("real_superposition", _maxabs(Y - acc_out) / sc / tot, TOL)
    # Hermitian weights: an entry whose opposite frequency is stored too counts once, otherwise twice
    key = freqs[0] if dim == 1 else freqs[0] * N + freqs[1]
    opp = (-freqs[0]) % N if dim == 1 else ((-freqs[0]) % N) * N + (-freqs[1]) % N
    W = numpy.where(numpy.isin(opp, key), 1.0, 2.0)
    idx = numpy.arange(int(numpy.prod(shape)))
    x = (((idx * 7) % 11 - 5.0) + 0.25 * ((idx * 3) % 5)).reshape(shape)
    X = numpy.asarray(fwd(x.copy()))
    o.stat("lib_calls", 1)
    if X.shape != hshape:
        o.check("real_half_spectrum_shape", False, sub="dense", detail="shape %s" % (X.shape,))
        return o
    o.close("real_parseval", abs(numpy.sum(W * numpy.abs(X) ** 2) * df ** dim / (numpy.sum(x ** 2) * sc) - 1.0), TOL)
    if dim == 2 or N % 2 == 0:
        worst_rt = 0.0
        for xin in [x, acc_in] + [imp(pos) for pos in probes[:4]]:
            back = numpy.asarray(inv(fwd(xin.copy())))
            o.stat("lib_calls", 2)
            if back.shape != xin.shape:
                o.check("real_inverse_pair", False, detail="irft(rft(x)) has shape %s for input shape %s" % (back.shape, xin.shape))
                return o
            worst_rt = max(worst_rt, _maxabs(back - xin) / _maxabs(xin))
        o.close("real_inverse_pair", worst_rt, TOL)
    return o


def _nonsquare(o, ns, Ny, Nx, d):
    """ft2 / ift2 on a grid whose axes differ in length (and parity, and centre sample): full operators.
    Forward: each axis is centred on ITS centre sample and Parseval holds with delta_f = 1/(N delta) per axis.
    Inverse: the statement's delta_f = 1/(N delta) does not say which N; ift2 must invert ft2 for one of the three
    readings, and be proportional to the inverse for 1/(Nx delta)."""
    shape = (Ny, Nx)
    n = Ny * Nx
    dfx, dfy = 1.0 / (Nx * d), 1.0 / (Ny * d)
    fwd = lambda x: ns.ft2(x, d)
    try:
        ok = (numpy.asarray(fwd(linear.unit(shape, 0))).shape == shape
              and numpy.asarray(ns.ift2(linear.unit(shape, 0), dfx)).shape == shape)
    except Exception:
        ok = False
    o.stat("lib_calls", 2)
    if not ok:
        # a library that serves square grids only (raises, or returns another shape) is not judged here
        o.stat("non_square_not_claimed", 1)
        return o
    F, c1 = linear.operator(fwd, shape, out_shape=shape)
    Fi, c2 = linear.operator_imag(fwd, shape)
    o.stat("lib_calls", c1 + c2)
    I = numpy.eye(n)
    o.close("complex_linear", _maxabs(Fi - 1j * F) / (d * d), TOL)
    e1, k1 = linear.superposition_error(fwd, shape, F)
    o.stat("lib_calls", k1)
    o.close("superposition", e1 / (d * d) / (4.0 * n), TOL)
    o.close("centred_forward", _maxabs(F - dft.kron2(dft.centred_dft(Ny, d), dft.centred_dft(Nx, d))) / (d * d), TOL)
    o.close("parseval", _maxabs(F.conj().T @ F / (d ** 4 * n) - I), TOL)
    errs, Gs = [], []
    for df in (dfx, dfy, 1.0 / (numpy.sqrt(float(n)) * d)):
        G, c3 = linear.operator(lambda X: ns.ift2(X, df), shape, out_shape=shape)
        o.stat("lib_calls", c3)
        Gs.append(G)
        errs.append(_maxabs(G @ F - I))
    best = int(numpy.argmin(errs))
    o.note("non_square_delta_f_reading", ["1/(Nx delta)", "1/(Ny delta)", "1/(sqrt(Nx Ny) delta)"][best])
    o.close("inverse_ift_ft", errs[best], TOL)
    o.close("inverse_ft_ift", _maxabs(F @ Gs[best] - I), TOL)
    o.close("centred_inverse", _maxabs(Gs[best] - dft.kron2(dft.centred_idft(Ny, dfy), dft.centred_idft(Nx, dfx))) / (dfx * dfy), TOL)
    P = Gs[0] @ F
    cst = numpy.trace(P) / n
    o.close("inverse_ift_ft", _maxabs(P / cst - I) if abs(cst) > 1e-300 else float("inf"), TOL, sub="up_to_scale")
    # a stack of non-square frames: per-item equality (library against library)
    base = ((numpy.arange(1, n + 1) % 4 - 1.5) + 1j * ((numpy.arange(n) * 5) % 3 - 1)).reshape(shape)
    st = numpy.array([numpy.roll(base, 2 * i + 1) * (i + 1) for i in range(3)])
    worst = 0.0
    for f in (fwd, lambda X: ns.ift2(X, dfx)):
        Y = numpy.asarray(f(st.copy()))
        o.stat("lib_calls", 4)
        if Y.shape != st.shape:
            o.check("batch_per_item", False, sub="batch=(3,)", detail="shape %s" % (Y.shape,))
            continue
        for i in range(3):
            y1 = numpy.asarray(f(st[i].copy()))
            worst = max(worst, _maxabs(Y[i] - y1) / max(_maxabs(y1), 1e-300))
    o.close("batch_per_item", worst, TOL)
    return o


def _fixtures():
    i, j = numpy.indices((6, 6))
    re2 = ((3 * i * i + 5 * j + 2 * i * j) % 13 - 4).astype(float)
    cx2 = re2 + 1j * re2.T[::-1]
    return re2, cx2


def _history(o, ns):
    """call histories on ONE caller-owned array (mc.variants.check_reuse): the transform leaves its argument as it
    was, a second call and a call after the caller's in-place edit answer for the current values, a held result is
    not overwritten by later calls.  All eight transforms, single frames and stacks."""
    from mc import variants
    re2, cx2 = _fixtures()
    items = [("ft", lambda a: ns.ft(a, 0.5), cx2[1].copy()), ("ift", lambda a: ns.ift(a, 0.5), cx2[2].copy()),
             ("ft:real", lambda a: ns.ft(a, 0.5), re2[1].copy()), ("ft:rows", lambda a: ns.ft(a, 0.5), cx2),
             ("ft2", lambda a: ns.ft2(a, 0.5), cx2), ("ift2", lambda a: ns.ift2(a, 0.5), cx2),
             ("ft2:real", lambda a: ns.ft2(a, 0.5), re2), ("ft2:stack", lambda a: ns.ft2(a, 0.5), numpy.array([cx2, cx2.T + 1.0])),
             ("ift2:stack", lambda a: ns.ift2(a, 0.5), numpy.array([cx2, cx2.T + 1.0])),
             ("rft", lambda a: ns.rft(a, 0.5), re2[1].copy()), ("rft2", lambda a: ns.rft2(a, 0.5), re2),
             ("rft2:stack", lambda a: ns.rft2(a, 0.5), numpy.array([re2, re2.T + 1.0])),
             ("irft", lambda a: ns.irft(a, 0.5), cx2[1, :4].copy()), ("irft:rows", lambda a: ns.irft(a, 0.5), cx2[:, :4].copy()),
             ("irft2", lambda a: ns.irft2(a, 0.5), cx2[:, :4].copy()),
             ("irft2:stack", lambda a: ns.irft2(a, 0.5), numpy.array([cx2[:, :4], cx2.T[:, :4] + 1.0]))]
    for name, f, data in items:
        o.stat("lib_calls", variants.check_reuse(o, "history", f, data, 1e-12, sub=name))
    return o


def _calling(o, ns):
    """the exported interface: documented keyword names, and spacings that are not Python floats (int, numpy
    scalars, 0-d array, physical magnitudes).  Oracle: the library's own positional call with delta = 0.5 and the
    exact scaling law  f(x, delta) = (delta / 0.5)**dim * f(x, 0.5)."""
    re2, cx2 = _fixtures()
    N, M = 6, 4
    fns = [("ft", ns.ft, "delta", cx2[1].copy(), 1), ("ift", ns.ift, "delta_f", cx2[2].copy(), 1),
           ("ft2", ns.ft2, "delta", cx2, 2), ("ift2", ns.ift2, "delta_f", cx2, 2),
           ("rft", ns.rft, "delta", re2[1].copy(), 1), ("irft", ns.irft, "delta_f", cx2[1, :M].copy(), 1),
           ("rft2", ns.rft2, "delta", re2, 2), ("irft2", ns.irft2, "delta_f", cx2[:, :M].copy(), 2)]
    spacings = [("int:2", 2, 1e-12), ("numpy.int64:3", numpy.int64(3), 1e-12),
                # a float32 spacing may legitimately make the scale factor single precision
                ("numpy.float32:0.5", numpy.float32(0.5), 1e-6), ("numpy.float64:1e-6", numpy.float64(1e-6), 1e-12),
                ("0-d array:0.25", numpy.array(0.25), 1e-12), ("float:1e5", 1e5, 1e-12)]
    for name, f, kw, x, dim in fns:
        base = numpy.asarray(f(x.copy(), 0.5))
        o.stat("lib_calls", 1)
        try:
            got = numpy.asarray(f(**{"data": x.copy(), kw: 0.5}))
            o.close("keyword_call_same_result", _maxabs(got - base) / _maxabs(base) if got.shape == base.shape else float("inf"),
                    1e-12, sub=name)
        except Exception as e:
            o.check("keyword_call_same_result", False, sub=name, detail="%s: %s" % (type(e).__name__, str(e)[:200]))
        o.stat("lib_calls", 1)
        for sname, sp, tol in spacings:
            try:
                got = numpy.asarray(f(x.copy(), sp))
            except Exception as e:
                o.check("spacing_type_same_result", False, sub="%s:%s" % (name, sname), detail="%s: %s" % (type(e).__name__, str(e)[:200]))
                continue
            finally:
                o.stat("lib_calls", 1)
            want = base * (float(sp) / 0.5) ** dim
            o.close("spacing_type_same_result", _maxabs(got - want) / _maxabs(want) if got.shape == want.shape else float("inf"),
                    tol, sub="%s:%s" % (name, sname))
    # round trips at a physical pixel size (1 um pixels, delta_f = 1/(N delta) ~ 1.7e5 per metre)
    d = 1e-6
    df = 1.0 / (N * d)
    for name, fw, iv, x in (("1d", ns.ft, ns.ift, cx2[1].copy()), ("2d", ns.ft2, ns.ift2, cx2),
                            ("real1d", ns.rft, ns.irft, re2[1].copy()), ("real2d", ns.rft2, ns.irft2, re2)):
        for dd, ddf, sname in ((d, df, "float"), (numpy.float64(d), numpy.float64(df), "numpy.float64")):
            back = numpy.asarray(iv(fw(x.copy(), dd), ddf))
            o.stat("lib_calls", 2)
            o.close("inverse_at_physical_spacing", _maxabs(back - x) / _maxabs(x) if back.shape == x.shape else float("inf"),
                    TOL, sub="%s:%s" % (name, sname))
    # observed only: batch axes of length 0 (inside "all batch shapes" read literally, but a per-item formulation
    # that cannot handle them is not a broken transform)
    empties = {}
    for name, f, kw, x, dim in fns:
        e = numpy.zeros((0,) + x.shape, dtype=x.dtype)
        try:
            empties[name] = list(numpy.asarray(f(e, 0.5)).shape)
        except Exception as ex:
            empties[name] = type(ex).__name__
        o.stat("lib_calls", 1)
    o.note("empty_batch_axis_result_shapes", empties)
    return o


def _gauss(o, ns, N):
    """a centred Gaussian maps to the analytic Gaussian (continuous-FT approximation)"""
    d = 0.25
    c = N // 2
    x = (numpy.arange(N) - c) * d
    s = 0.6
    g = numpy.exp(-x ** 2 / (2 * s * s))
    df = 1.0 / (N * d)
    f = (numpy.arange(N) - c) * df
    ana = s * numpy.sqrt(2 * numpy.pi) * numpy.exp(-2 * (numpy.pi * s * f) ** 2)
    G = numpy.asarray(ns.ft(g.astype(complex), d))
    o.stat("lib_calls", 1)
    o.close("gaussian_1d", _maxabs(G - ana) / ana.max(), 1e-8)
    # shifted by k samples -> linear phase exp(-2 pi i f k d)
    for k in (1, -3):
        Gk = numpy.asarray(ns.ft(numpy.roll(g, k).astype(complex), d))
        o.stat("lib_calls", 1)
        o.close("shift_phase_1d", _maxabs(Gk - ana * numpy.exp(-2j * numpy.pi * f * k * d)) / ana.max(),
                1e-8, sub="k=%d" % k)
    g2 = numpy.outer(g, g)
    G2 = numpy.asarray(ns.ft2(g2.astype(complex), d))
    o.stat("lib_calls", 1)
    o.close("gaussian_2d", _maxabs(G2 - numpy.outer(ana, ana)) / ana.max() ** 2, 1e-8)
    back = numpy.asarray(ns.ift2(numpy.outer(ana, ana).astype(complex), df))
    o.stat("lib_calls", 1)
    o.close("gaussian_2d_inverse", _maxabs(back - g2), 1e-8)
    return o

ENGINES = ["E1-product-enumeration", "E2-basis-exhaustion"]
LEVEL_TEXT = ("Every length N in the bound (1..12 quick / 1..130 thorough in 1-D, 1..7 / 1..24 in 2-D, plus every "
              "non-square grid (Ny, Nx) in {1..5}^2 for ft2/ift2), three spacings, four batch shapes and both access "
              "paths are enumerated completely; for each the full operator matrix of every transform is extracted "
              "from all unit inputs, so inverse-pair, Parseval and centring hold for all inputs of those lengths, "
              "not for sampled ones. Larger sizes (full 1-D operators to 257 / 1025, impulse probes to 4097 / 65537 "
              "in 1-D and 130 / 257 in 2-D, complex and real-input variants), amplitudes 1e-200..1e200, storage "
              "layouts and dtypes, call histories on one array, keyword calls and spacing types are fixed spot cases.")
LEVEL_NOTE = ("Trusted: numpy matrix arithmetic and the reference centred-DFT matrix (mc/refmodels/dft.py). "
              "Not covered: lengths beyond the bound, non-square grids beyond 5 x 5 and for rft2/irft2, spacings "
              "outside the alphabet. The storage order of half-spectra is not prescribed (weights and frequencies "
              "are derived from the library's own operator).")


def _storage(o, ns):
    """the transforms are functions of the VALUES of their input: other memory layouts (Fortran order, strided
    and transposed views, read-only) and dtypes (float32 / complex64 to single precision, integers) of the
    same data give the same spectrum"""
    from mc import variants
    i, j = numpy.indices((6, 6))
    re2 = ((3 * i * i + 5 * j + 2 * i * j) % 13 - 4).astype(float)
    x1 = re2[1].copy()
    st = numpy.array([re2, re2.T + 1.0])
    single = 0.0
    for name, f, data in (("ft:1d", lambda a: ns.ft(a, 0.5), x1), ("ift:1d", lambda a: ns.ift(a, 0.5), x1),
                          ("ft:rows", lambda a: ns.ft(a, 0.5), re2), ("ft2", lambda a: ns.ft2(a, 0.5), re2),
                          ("ift2", lambda a: ns.ift2(a, 0.5), re2), ("ft2:stack", lambda a: ns.ft2(a, 0.5), st),
                          ("rft", lambda a: ns.rft(a, 0.5), x1), ("rft2", lambda a: ns.rft2(a, 0.5), re2),
                          ("rft2:stack", lambda a: ns.rft2(a, 0.5), st)):
        n = variants.check_storage(o, "transform_independent_of_storage", f, data, 1e-12, sub=name,
                                   kinds=("float32", "int64", "int32"))
        o.stat("lib_calls", n)
        single = max(single, _single_precision_error(f, data))
    # two leading batch axes (a frame cut into sub-apertures, a cube of cubes), in every memory order of those axes
    st4 = numpy.array([[re2, re2.T + 1.0, re2 * 2.0], [re2[::-1] - 1.0, re2 + 0.5 * re2.T, re2.T * 3.0]])
    cut = (numpy.arange(144.0).reshape(12, 12) % 7 - 3.0).reshape(2, 6, 2, 6).swapaxes(1, 2)       # non-contiguous as is
    for name, f, data in (("ft2:4d", lambda a: ns.ft2(a, 0.5), st4), ("ift2:4d", lambda a: ns.ift2(a, 0.5), st4),
                          ("rft2:4d", lambda a: ns.rft2(a, 0.5), st4), ("ft:4d", lambda a: ns.ft(a, 0.5), st4),
                          ("ift:4d", lambda a: ns.ift(a, 0.5), st4), ("rft:4d", lambda a: ns.rft(a, 0.5), st4)):
        n = variants.check_storage(o, "transform_independent_of_storage", f, data, 1e-12, sub=name, kinds=("float32",))
        o.stat("lib_calls", n)
        got = numpy.asarray(f(cut))
        want = numpy.asarray(f(numpy.ascontiguousarray(cut)))
        o.close("transform_independent_of_storage", _maxabs(got - want) / max(_maxabs(want), 1e-300) if got.shape == want.shape else float("inf"),
                1e-12, sub=name + ":frame_cut_into_subapertures_view")
        per = numpy.array([[numpy.asarray(f(st4[a_, b_].copy())) for b_ in range(3)] for a_ in range(2)])
        full = numpy.asarray(f(st4.copy()))
        o.close("batch_per_item", _maxabs(full - per) / max(_maxabs(per), 1e-300) if full.shape == per.shape else float("inf"), 1e-12, sub=name)
        o.stat("lib_calls", 9)
    cx = re2 + 1j * re2.T
    for name, f in (("ft2:complex", lambda a: ns.ft2(a, 0.5)), ("ift2:complex", lambda a: ns.ift2(a, 0.5))):
        n = variants.check_storage(o, "transform_independent_of_storage", f, cx, 1e-12, sub=name, kinds=("float32",))
        o.stat("lib_calls", n)
        single = max(single, _single_precision_error(f, cx))
    # half-spectra handed to the inverse real-input variants: read-only, strided, Fortran-ordered, complex64, and
    # the first N//2 + 1 columns of a full spectrum taken as a view (how a caller cuts a half-spectrum out)
    cx1 = cx[1].copy()
    wide = numpy.array([cx, cx.T + 1.0])
    for name, f, full in (("irft", lambda a: ns.irft(a, 0.5), cx1), ("irft:rows", lambda a: ns.irft(a, 0.5), cx),
                          ("irft2", lambda a: ns.irft2(a, 0.5), cx), ("irft2:stack", lambda a: ns.irft2(a, 0.5), wide)):
        view = full[..., :4]
        data = numpy.ascontiguousarray(view)
        n = variants.check_storage(o, "transform_independent_of_storage", f, data, 1e-12, sub=name, kinds=("float32",))
        o.stat("lib_calls", n + 2)
        got, want = numpy.asarray(f(view)), numpy.asarray(f(data.copy()))
        o.close("transform_independent_of_storage", _maxabs(got - want) / max(_maxabs(want), 1e-300) if got.shape == want.shape else float("inf"),
                1e-12, sub=name + ":leading_columns_view")
        single = max(single, _single_precision_error(f, data))
    # unsigned data (camera frames, pupil masks as uint8 / uint16): same values, same spectrum
    un2 = ((3 * i * i + 5 * j + 2 * i * j) % 13).astype(float)
    for name, f, data in (("ft:unsigned", lambda a: ns.ft(a, 0.5), un2[1].copy()), ("ift:unsigned", lambda a: ns.ift(a, 0.5), un2[1].copy()),
                          ("ft2:unsigned", lambda a: ns.ft2(a, 0.5), un2), ("ift2:unsigned", lambda a: ns.ift2(a, 0.5), un2),
                          ("rft:unsigned", lambda a: ns.rft(a, 0.5), un2[1].copy()), ("rft2:unsigned", lambda a: ns.rft2(a, 0.5), un2),
                          ("ft2:unsigned:stack", lambda a: ns.ft2(a, 0.5), numpy.array([un2, un2.T]))):
        n = variants.check_storage(o, "transform_independent_of_storage", f, data, 1e-12, sub=name, kinds=("uint8", "uint16"),
                                   with_layouts=False)
        o.stat("lib_calls", n)
    # observed only: the largest error of a single-precision variant (judged above against 1e-5, where the report
    # shows no measure), and boolean masks (not 'real/complex inputs' in the strict sense)
    o.note("single_precision_variant_worst_error", single)
    mask = (un2 % 3 == 0)
    obs = {}
    for name, f in (("ft", lambda a: ns.ft(a, 0.5)), ("ft2", lambda a: ns.ft2(a, 0.5)), ("rft2", lambda a: ns.rft2(a, 0.5))):
        try:
            obs[name] = _maxabs(numpy.asarray(f(mask.copy())) - numpy.asarray(f(mask.astype(float))))
        except Exception as e:
            obs[name] = type(e).__name__
        o.stat("lib_calls", 2)
    o.note("boolean_mask_difference_from_float_mask", obs)
    return o


def _single_precision_error(f, data):
    try:
        lo = data.astype(numpy.complex64 if numpy.iscomplexobj(data) else numpy.float32)
        a, b = numpy.asarray(f(lo)), numpy.asarray(f(data.copy()))
        return _maxabs(a - b) / max(1.0, _maxabs(b)) if a.shape == b.shape else float("inf")
    except Exception:
        return float("inf")
