"""C18 Profile compression conserves the turbulence it compresses.

E1 x E5: every profile of a bounded lattice (layer counts, regular and irregular height
ladders including the rounding-sensitive ones and one with repeated heights, all strength
sequences over a small alphabet that contains zero, wind patterns) x every target count
1 <= L < N is pushed through the three compression methods.  For optimal grouping the only
environment input - what the draw primitives of NumPy's global generator answer in the random
restarts - is owned by the check: EVERY draw primitive of the global generator is intercepted,
and for whichever primitive the library turns out to call (choice / permutation / shuffle /
randint) EVERY answer it may give is enumerated, request by request, as a tree (R = 0, 1, 2
restarts), i.e. all states of the global generator as far as the algorithm can see them.  How
the library draws is not prescribed: a request that cannot be enumerated, or a route to the
generator that is not intercepted, only withdraws the claim of exhaustiveness (statistic
og_answer_tree_not_claimed, seeds swept instead); the stated clauses are judged on every run.
"""
import fractions
import inspect
import itertools
import math
import sys

import numpy

from mc import Out, Case
from mc.env import rng_state_digest
from mc.refmodels import profiles as ref
from mc import variants

PROPERTY = "C18"
LEVEL = "model_checking"
ENGINES = ["E1-product-enumeration", "E5-environment-answers"]
TECHNIQUE = ("bounded exhaustive enumeration of profiles x target layer counts; for optimal grouping, exhaustive "
             "enumeration of every answer sequence of the intercepted draw primitives of NumPy's global generator "
             "(environment-answer tree, discovered request by request from what the library actually asks), "
             "each run compared with a brute-force reference model; storage / layer-order / caller-reuse variants "
             "of the inputs judged by the same stated clauses")
RULE = ("case = (profile family, N); inside a case every strength/wind pattern, every L in 1..N-1 and (optimal "
        "grouping) every answer sequence of the draw primitives for R in {0,1,2} is executed; non-trivial = L >= 2 "
        "and N >= 3 (counted per executed run)")
ASSUMPTIONS = [
    "the random restarts of optimal grouping observe the global generator only through its draw primitives "
    "(numpy.random.choice / permutation / shuffle / randint ..., also when imported by name or reached as methods of "
    "the global RandomState); every valid answer of a primitive is taken to be reachable from some generator state. "
    "Checked on every run, never assumed: a request that is not enumerable (continuous draw, weights, too many "
    "answers), a generator state that moves although no request was passed through, or a tree above the budget "
    "is recorded as og_answer_tree_not_claimed and replaced by a sweep over seeds of the real generator",
    "profiles: N <= 8 (quick) / 12 (thorough) layers, strengths from {0,1,2,5}e-15 patterns (never all zero), "
    "heights from the listed ladders; GCTM only on profiles whose L equal-thickness slabs are all non-empty (as the "
    "property states) for every way of rounding a layer that sits within 1e-9 slab widths of a slab edge, with "
    "non-zero strengths and metre-scale heights",
    "'equal split' = any of the three readings of the documented starting grouping: linspace(0, N, L+1, dtype=int)"
    "[1:-1] as last-index-of-group or as first-index-of-next-group, or group sizes differing by at most one "
    "(array_split); the cost bound is the largest of the three",
    "GCTM accuracy clause is a 5 % bound on the scaled moment residual vector (relative to the moment vector; the "
    "optimiser's accuracy is not sharper; the unchanged library measures <= 1 % on every case of the lattice), "
    "loosened to 10 x what an independent bounded least-squares fit reaches from the same start when that is larger; "
    "for L <= 4 on the few-layer lattice profiles that reach 0.5 .. 2 scaling heights also 1 % on the total Cn2 and "
    "10 % on each single moment (library: <= 0.12 % and <= 1.7 %; on the 100-layer exponential profiles the library "
    "itself reaches 0.45 % / 8.6 %, so there the two figures are only recorded)",
    "a layer is a (height, strength) pair of numbers: a NaN/inf height of an output layer counts as a missing layer "
    "even when its strength is zero (clause el_heights_finite; the moment sums themselves skip zero-strength layers)",
]
LEVEL_TEXT = ("All profiles of the lattice and all target counts are enumerated; for optimal grouping the tree of "
              "every possible answer sequence of the draw primitives the library calls (R <= 2 restarts) is explored "
              "completely for N <= 7 (quick) / 8 (thorough) - the statistics og_answer_trees_complete / "
              "og_answer_tree_not_claimed say for how many (profile, R) pairs - so the verdict does not depend on the "
              "state of the global generator; each result is compared with a brute-force optimum over all contiguous "
              "groupings.")
LEVEL_NOTE = ("Trusted: the reference model mc/refmodels/profiles.py (brute force), numpy. Not covered: N above the "
              "bound, strengths outside the alphabet, exhaustive answers for R > 2 (R = 3 only with seeds), optimal "
              "grouping on height inputs that are not non-decreasing, GCTM with strengths far from cn2_scaling or "
              "heights above 2 h_scaling (the unchanged library loses up to 14 % of the total Cn2 there: reported, "
              "not asserted).")


# 5 % of the norm of the scaled moment vector.  Measured on the unchanged library: <= 0.0022 on the lattice
# (L <= 6), <= 0.0099 on the exponential profiles at default scaling, <= 0.0070 with the other scalings, so the
# margin is a factor 5 or more; the figure moves with the path L-BFGS-B happens to take (finite-difference
# gradient), which is why it is not tighter.
GCTM_TOL = 5e-2
GCTM_M0_TOL = 1e-2       # library: <= 1.2e-3 where asserted (lattice profiles)
GCTM_EACH_TOL = 1e-1     # library: <= 1.7e-2 where asserted (lattice profiles)
MAX_BRANCH = 5040        # answers of one request (7!)
MAX_REQUESTS = 40        # enumerated requests in one library call
SWEEP_SEEDS = 8


def _ladders(N):
    """name -> heights"""
    out = {}
    for h0, hmax in ((0., 15000.), (0., 10000.), (0., 25000.), (100., 20000.), (0., 1.), (500., 18500.),
                     (0., 7000.), (0., 21000.), (0., 30000.)):
        out["lin:%g-%g" % (h0, hmax)] = numpy.linspace(h0, hmax, N)
    out["clustered"] = numpy.array(([0., 50., 100., 150., 9000., 9100., 15000., 15050., 15100., 20000., 20001., 20002.])[:N])
    out["gaps"] = numpy.cumsum(numpy.array([0., 10., 4000., 20., 7000., 5., 3000., 1., 900., 2500., 10., 60.])[:N])
    out["geometric"] = 100. * 1.7 ** numpy.arange(N)
    # repeated heights (ground layer + dome seeing both at 0 m, two instruments reporting the same altitude)
    out["dupground"] = numpy.array(([0., 0., 50., 4000., 4000., 9000., 12000., 12000., 15000., 18000., 18000., 20000.])[:N])
    return out


OG_LADDERS = ("lin:0-15000", "clustered", "gaps", "geometric", "dupground")

# high-contrast profiles on which the local search of optimal grouping has local minima that are
# worse than the equal split (found once by an offline search; they only enlarge the alphabet)
FIXED = {
    "contrast7a": ([500., 8500., 9500., 12500., 13000., 17000., 19500.],
                   [1e-15, 3e-13, 2e-15, 2e-15, 1e-15, 3e-13, 1e-15]),
    "contrast7b": (list(numpy.linspace(0, 20000., 7)), [2e-15, 2e-15, 1e-13, 1e-15, 1e-15, 2e-15, 3e-13]),
    "contrast8": (list(numpy.linspace(0, 20000., 8)), [2e-15, 1e-13, 2e-15, 5e-15, 1e-13, 1e-15, 1e-15, 2e-15]),
    "contrast9a": (list(numpy.linspace(0, 20000., 9)), [5e-15, 1e-15, 5e-15, 1e-15, 1e-15, 5e-15, 5e-15, 1e-13, 5e-15]),
    "contrast9b": (list(numpy.linspace(0, 20000., 9)), [5e-15, 1e-13, 2e-15, 1e-15, 1e-15, 2e-15, 2e-15, 5e-15, 3e-13]),
    "contrast10": (list(numpy.linspace(0, 20000., 10)),
                   [5e-15, 2e-15, 3e-13, 1e-15, 2e-15, 1e-13, 3e-13, 1e-15, 3e-13, 1e-13]),
}


def _strength_patterns(N, tier):
    vals = (1e-15, 2e-15, 5e-15)
    if N <= (4 if tier == "quick" else 5):
        return [numpy.array(s) for s in itertools.product(vals, repeat=N)]
    pats = [numpy.full(N, 1e-15), numpy.array([vals[i % 3] for i in range(N)]),
            numpy.array([vals[(2 * i + 1) % 3] for i in range(N)]),
            numpy.array([5e-15] + [1e-15] * (N - 1)), numpy.array([1e-15] * (N - 1) + [5e-15]),
            numpy.array([vals[(i * i) % 3] for i in range(N)])]
    return pats


def _zero_patterns(N, tier, full):
    """strength sequences with zero-strength layers (SCIDAR-type profiles are full of them), never all zero.
    full: for the small N every sequence over {0,1,2,5}e-15 that contains a zero; else a fixed handful that
    produces populated all-zero slabs / groups at the bottom, in the middle and at the top"""
    vals = (0., 1e-15, 2e-15, 5e-15)
    if full and N <= (4 if tier == "quick" else 5):
        return [numpy.array(s) for s in itertools.product(vals, repeat=N) if 0. in s and any(s)]
    base = [numpy.array(([1e-13, 0., 0., 2e-14, 0., 0., 0., 5e-15, 0., 0., 1e-15, 0.])[:N]),
            numpy.array([0.] * (N - 1) + [5e-15]), numpy.array([2e-15] + [0.] * (N - 1)),
            numpy.array([0. if i % 2 == 0 else 2e-15 for i in range(N)]),
            numpy.array([2e-15, 5e-15][:max(N - 1, 1)] + [0.] * max(N - 3, 0) + [1e-15])[:N]]
    out = []
    for b in base:
        if len(b) == N and b.any() and not b.all() and not any(numpy.array_equal(b, x) for x in out):
            out.append(b)
    return out


def _Ns(tier):
    return range(2, 9) if tier == "quick" else range(2, 13)


def _og_top(tier):
    return 7 if tier == "quick" else 8


def _tree_budget(tier):
    # runs per (profile, R); the unchanged library needs 601 (quick: N=6, R=2) / 14521 (thorough: N=7, R=2)
    return 2500 if tier == "quick" else 40000


def BOUNDS(tier):
    return {"N": list(_Ns(tier)), "ladders": sorted(_ladders(4)), "strength_alphabet": [0.0, 1e-15, 2e-15, 5e-15],
            "optimal_grouping": {"R": [0, 1, 2], "complete_answer_tree_up_to_N": _og_top(tier),
                                 "R2_up_to_N": 6 if tier == "quick" else 7, "ladders": list(OG_LADDERS),
                                 "answers_per_request_at_most": MAX_BRANCH, "runs_per_tree_at_most": _tree_budget(tier),
                                 "real_generator_seeds": [0, 1], "R3_with_seeds_only": True},
            "GCTM": {"L_lattice_at_most": 5 if tier == "quick" else 6, "L_exponential_profiles": [2, 3, 5, 6, 8]},
            "largest_profile": 4097, "long_profiles": list(_long_Ns(tier)),
            "storage_variants": ["int64/int32 heights and winds", "float32", "strided columns of one table",
                                 "read-only"],
            "layer_orders": ["ascending", "descending", "one fixed shuffle"]}


def _long_Ns(tier):
    return (65, 257, 513, 4097) if tier == "quick" else (65, 130, 257, 513, 770, 1030, 4097)


def cases(tier):
    for N in _Ns(tier):
        for name in sorted(_ladders(N)):
            yield Case("el:N=%d:%s" % (N, name), {"kind": "el", "N": N, "ladder": name, "tier": tier}, N >= 3)
            yield Case("gctm:N=%d:%s" % (N, name), {"kind": "gctm", "N": N, "ladder": name, "tier": tier}, N >= 3)
        if N <= _og_top(tier):
            for name in OG_LADDERS:
                for L in range(1, N):
                    yield Case("og:N=%d:%s:L=%d" % (N, name, L),
                               {"kind": "og", "N": N, "ladder": name, "tier": tier, "L": L}, N >= 3 and L >= 2)
    # realistic many-layer profiles (exponentially decaying strength, with and without a jet-stream bump)
    for scale_h in (1500., 2500., 4000.):
        yield Case("gctm:exp:H=%g" % scale_h, {"kind": "gctm_exp", "H": scale_h, "tier": tier}, True)
    # profiles of several tens to several thousand layers (a pre-binning or blocked implementation starts there)
    for N in _long_Ns(tier):
        yield Case("long:N=%d" % N, {"kind": "long", "N": N, "og": N <= (513 if tier == "quick" else 1030)}, True)
    for name in sorted(FIXED):
        N = len(FIXED[name][0])
        for L in range(1, min(N, 5 if tier == "quick" else 6)):
            yield Case("og:fixed:%s:L=%d" % (name, L),
                       {"kind": "og", "N": N, "ladder": "fixed:" + name, "tier": tier, "L": L}, L >= 2)
    # the same values held differently by the caller
    for meth in ("el", "og", "gctm"):
        yield Case("storage:%s" % meth, {"kind": "storage", "method": meth, "tier": tier}, True)
        yield Case("reuse:%s" % meth, {"kind": "reuse", "method": meth, "tier": tier}, True)
    yield Case("order", {"kind": "order", "tier": tier}, True)
    yield Case("conventions", {"kind": "conventions", "tier": tier}, True)


def evaluate(p):
    kind = p["kind"]
    if kind == "el":
        return _equivalent_layers(p)
    if kind == "gctm":
        return _gctm(p)
    if kind == "gctm_exp":
        return _gctm_exp(p)
    if kind == "long":
        return _long(p)
    if kind == "storage":
        return _storage(p)
    if kind == "reuse":
        return _reuse(p)
    if kind == "order":
        return _order(p)
    if kind == "conventions":
        return _conventions(p)
    return _optimal_grouping(p)


# ------------------------------------------------------------------------------------------------------------
# judges: the stated clauses on one result (used for every way the inputs are presented)
# ------------------------------------------------------------------------------------------------------------

def _f64(x):
    return numpy.asarray(x, dtype=float)


def _judge_el(o, sub, h, cn2, w, L, res, rt=1.0):
    """equivalent layers.  h, cn2, w: the VALUES handed to the library (float64 copies); rt scales the rounding
    tolerances (1 for float64 storage).  Tolerances: the library measures <= 5e-16 on totals and <= 2e-15 on the
    moments; a cumulative-sum implementation would reach N*eps = 4.5e-13 at N = 4097 on the moments."""
    h, cn2 = _f64(h), _f64(cn2)
    hL, cL = _f64(res[0]), _f64(res[1])
    sp = "" if rt == 1.0 else "_single_precision"       # (own clause names: own tolerances in the evidence)
    o.check("el_exactly_L_layers", hL.shape == (L,) and cL.shape == (L,), sub=sub, detail=[hL.shape, cL.shape])
    if hL.shape != (L,) or cL.shape != (L,):
        return
    o.check("el_strengths_non_negative", bool(numpy.all(cL >= 0)), sub=sub)
    tot = float(cn2.sum())
    o.close("el_total_cn2_conserved" + sp, abs(cL.sum() - tot) / tot, 1e-12 * rt, sub=sub,
            detail={"in": tot, "out": float(cL.sum()), "h": h, "L": L})
    # a zero-strength output layer carries no turbulence: its height / wind does not enter the moments
    pos = cL > 0
    m_in = float((cn2 * h ** (5. / 3)).sum())
    with numpy.errstate(invalid="ignore"):
        m_out = float((cL[pos] * hL[pos] ** (5. / 3)).sum())
    scale = max(m_in, tot * max(h.max(), 1e-30) ** (5. / 3) * 1e-30)
    o.close("el_height_moment_conserved" + sp, abs(m_out - m_in) / scale if scale > 0 else abs(m_out - m_in),
            1e-10 * rt, sub=sub, detail={"in": m_in, "out": m_out, "h_out": hL, "cn2_out": cL})
    o.check("el_heights_finite", bool(numpy.all(numpy.isfinite(hL))), sub=sub, detail=hL)
    if w is not None:
        w = _f64(w)
        wL = _f64(res[2])
        o.check("el_exactly_L_layers", wL.shape == (L,), sub=sub + ":wind")
        if wL.shape == (L,):
            v_in = float((cn2 * w ** (5. / 3)).sum())
            with numpy.errstate(invalid="ignore"):
                v_out = float((cL[pos] * wL[pos] ** (5. / 3)).sum())
            o.close("el_wind_moment_conserved" + sp, abs(v_out - v_in) / v_in, 1e-10 * rt, sub=sub)
            if not numpy.all(numpy.isfinite(wL)):
                o.stat("el_non_finite_wind_of_zero_strength_layer_seen", 1)


def _equal_split_cost(h, cn2, N, L):
    """the largest cost among the readings of 'the equal split' (see ASSUMPTIONS)"""
    lin = [int(x) for x in numpy.linspace(0, N, L + 1, dtype=int)[1:-1]]
    sizes = [N // L + (1 if i < N % L else 0) for i in range(L)]
    cands = [tuple(lin), tuple(x - 1 for x in lin), tuple(int(x) - 1 for x in numpy.cumsum(sizes)[:-1])]
    costs = []
    for s in cands:
        if len(set(s)) == len(s) and all(0 <= x <= N - 2 for x in s):
            costs.append(ref.cost_of_splits(h, cn2, s))
    return max(costs) if costs else None


def _judge_og(o, sub, h, cn2, L, hL, cL, best=None, eq=None, rt=1.0, outcome=None):
    """optimal grouping: the stated clauses; with best/eq (brute force, small N) also the cost clauses"""
    h, cn2 = _f64(h), _f64(cn2)
    hL, cL = _f64(hL), _f64(cL)
    o.check("og_exactly_L_layers", hL.shape == (L,) and cL.shape == (L,), sub=sub,
            detail={"heights": hL, "cn2": cL, "L": L})
    if hL.shape != (L,) or cL.shape != (L,):
        return
    tot = float(cn2.sum())
    o.close("og_total_cn2_conserved" + ("" if rt == 1.0 else "_single_precision"), abs(cL.sum() - tot) / tot,
            1e-12 * rt, sub=sub)
    o.check("og_strengths_non_negative", bool(numpy.all(cL >= 0)), sub=sub)
    o.check("og_heights_are_input_heights", bool(numpy.all(numpy.isin(hL, h))), sub=sub, detail=hL)
    strictly = bool(numpy.all(numpy.diff(h) > 0))        # repeated input heights may be returned repeatedly
    d = numpy.diff(hL)
    o.check("og_heights_increasing", bool(numpy.all(d > 0) if strictly else numpy.all(d >= 0)) if L > 1 else True,
            sub=sub, detail=hL)
    if best is None:
        return
    # every input layer in exactly one group: the output must be explained by a contiguous partition
    cost = ref.cost_of_output(h, cn2, hL, cL)
    o.check("og_output_is_a_contiguous_grouping", cost is not None, sub=sub, detail={"heights": hL, "cn2": cL})
    if cost is not None:
        scale = max(eq, best, 1e-300)
        ct = 1e-9 * min(rt, 1e3)       # costs are recomputed here in double precision from the returned grouping
        o.check("og_cost_not_worse_than_equal_split", cost <= eq + ct * scale, sub=sub,
                measure=(cost - eq) / scale, tol=ct, detail={"cost": cost, "equal_split": eq, "optimum": best})
        o.check("og_cost_not_below_brute_force_optimum", cost >= best - ct * scale, sub=sub,
                detail={"cost": cost, "optimum": best})
        if outcome is not None:
            o.outcome(outcome + [round(cost / scale, 9)])


def _independent_fit_residual(h, cn2, L, hs, cs):
    """what a bounded least-squares fit of the scaled moments reaches from the equivalent-layers start
    (only consulted when the library's residual exceeds GCTM_TOL); None if it cannot be computed"""
    try:
        from scipy.optimize import least_squares
        mom0 = ref.moments(h / hs, cn2 / cs, L)
        g = ref.equivalent_layers(h, cn2, L)
        x0 = numpy.maximum(numpy.hstack([g[0] / hs, g[1] / cs]), 1e-12)
        r = least_squares(lambda x: ref.moments(x[:L], x[L:], L) - mom0, x0, bounds=(0., numpy.inf))
        return float(numpy.linalg.norm(r.fun) / numpy.linalg.norm(mom0))
    except Exception:
        return None


def _judge_gctm(o, sub, h, cn2, L, hL, cL, hs=10000., cs=100e-15, clause="gctm_moments_reproduced", single=True):
    """moment-conserving method.  'to optimiser accuracy': the optimiser works on the scaled moments (heights /
    h_scaling, strengths / cn2_scaling), so its accuracy is an absolute one in those units: the residual vector
    is compared with the norm of the moment vector."""
    h, cn2 = _f64(h), _f64(cn2)
    hL, cL = _f64(hL), _f64(cL)
    ok_shape = hL.shape == (L,) and cL.shape == (L,)
    o.check("gctm_exactly_L_layers", ok_shape, sub=sub)
    if not ok_shape:
        o.close(clause, float("inf"), GCTM_TOL, sub=sub)
        return
    o.check("gctm_strengths_non_negative", bool(numpy.all(cL >= 0)) and bool(numpy.all(numpy.isfinite(hL))), sub=sub,
            detail={"cn2": cL, "h": hL})
    mom0 = ref.moments(h / hs, cn2 / cs, L)
    mom = ref.moments(hL / hs, cL / cs, L)
    resid = float(numpy.linalg.norm(mom - mom0) / numpy.linalg.norm(mom0))
    tol = GCTM_TOL
    if not resid <= tol:
        indep = _independent_fit_residual(h, cn2, L, hs, cs)
        if indep is not None and 10. * indep > tol:
            tol = 10. * indep
            o.stat("gctm_tolerance_taken_from_independent_fit", 1)
    o.close(clause, resid, tol, sub=sub, detail={"mom_in": mom0, "mom_out": mom})
    rel = numpy.abs(mom - mom0) / numpy.maximum(numpy.abs(mom0), 1e-300)
    o.note("gctm_worst_per_moment_relative_residual_seen",
           max(float(rel.max()), o.notes.get("gctm_worst_per_moment_relative_residual_seen", 0.0)))
    if single and L <= 4 and 0.5 <= h.max() / hs <= 2.0:
        # every moment is of order one in these units, so each one is visible to the optimiser
        o.close("gctm_total_cn2_reproduced", float(rel[0]), GCTM_M0_TOL, sub=sub)
        o.close("gctm_each_moment_reproduced", float(rel.max()), GCTM_EACH_TOL, sub=sub, detail={"relative": rel})
    else:
        o.note("gctm_worst_total_cn2_residual_outside_asserted_range",
               max(float(rel[0]), o.notes.get("gctm_worst_total_cn2_residual_outside_asserted_range", 0.0)))


def _slabs_clearly_nonempty(h, L):
    """every one of the L equal-thickness slabs holds a layer, whichever way an implementation rounds a layer
    that sits (within 1e-9 slab widths) on a slab edge.  Exact rational arithmetic on the float values."""
    hq = [fractions.Fraction(float(x)) for x in h]
    lo, hi = min(hq), max(hq)
    if hi == lo:
        return L == 1
    eps = fractions.Fraction(1, 10 ** 9)
    filled = set()
    for x in hq:
        if x == hi:
            filled.add(L - 1)
            continue
        if x == lo:
            filled.add(0)
            continue
        t = (x - lo) * L / (hi - lo)
        k = t.numerator // t.denominator
        fr = t - k
        if fr < eps or 1 - fr < eps:
            continue
        filled.add(int(k))
    return len(filled) == L


# ------------------------------------------------------------------------------------------------------------
# equivalent layers
# ------------------------------------------------------------------------------------------------------------

def _winds(N):
    # the last one is an integer-typed array (whole m/s): the effective wind of a slab is not an integer
    return [numpy.linspace(5., 30., N), numpy.array([10. + 7. * ((3 * i) % 5) for i in range(N)]),
            numpy.array([4 + (5 * i) % 9 for i in range(N)], dtype=numpy.int64)]


def _equivalent_layers(p):
    from aotools.turbulence import profile_compression as pc
    o = Out()
    N = p["N"]
    h = _ladders(N)[p["ladder"]]
    pats = [("%d" % i, c) for i, c in enumerate(_strength_patterns(N, p["tier"]))]
    pats += [("z%d" % i, c) for i, c in enumerate(_zero_patterns(N, p["tier"], True))]
    for pi, cn2 in pats:
        for L in range(1, N):
            for wi, w in enumerate([None] + _winds(N)):
                sub = "p=%s:L=%d:w=%s" % (pi, L, "none" if w is None else wi)
                res = pc.equivalent_layers(h.copy(), cn2.copy(), L) if w is None else \
                    pc.equivalent_layers(h.copy(), cn2.copy(), L, w.copy())
                o.stat("lib_calls", 1)
                if L >= 2 and N >= 3:
                    o.stat("nontrivial", 1)
                _judge_el(o, sub, h, cn2, w, L, res)
                try:
                    o.outcome([_f64(res[0]), _f64(res[1])])
                except Exception:
                    pass
    return o


# ------------------------------------------------------------------------------------------------------------
# moment-conserving method
# ------------------------------------------------------------------------------------------------------------

def _gctm(p):
    from aotools.turbulence import profile_compression as pc
    o = Out()
    N = p["N"]
    h = _ladders(N)[p["ladder"]]
    pats = _strength_patterns(N, p["tier"])
    if len(pats) > 12:
        pats = pats[::max(1, len(pats) // 12)]
    Ltop = 5 if p["tier"] == "quick" else 6
    for pi, cn2 in enumerate(pats):
        # strengths of the order the default cn2_scaling (1e-13) is documented for
        cn2 = cn2 * 100.
        for L in range(1, min(N, Ltop + 1)):
            sub = "p=%d:L=%d" % (pi, L)
            if h.max() <= 10.:      # default scaling (10 km) assumes metre-scale heights
                o.stat("gctm_outside_domain_scale", 1)
                continue
            if not _slabs_clearly_nonempty(h, L):
                o.stat("gctm_outside_domain_empty_slab_or_layer_on_slab_edge", 1)
                continue
            hL, cL = pc.GCTM(h.copy(), cn2.copy(), L)
            o.stat("lib_calls", 1)
            _judge_gctm(o, sub, h, cn2, L, hL, cL)
            # the documented starting point (equivalent layers): observation only, the statement does not say
            # where the fit starts
            try:
                hs, cs = 10000., 100e-15
                mom0 = ref.moments(h / hs, cn2 / cs, L)
                g = ref.equivalent_layers(h, cn2, L)
                obj0 = float(((ref.moments(g[0] / hs, g[1] / cs, L) - mom0) ** 2).sum())
                obj = float(((ref.moments(_f64(hL) / hs, _f64(cL) / cs, L) - mom0) ** 2).sum())
                if obj > obj0 * (1 + 1e-9) + 1e-18:
                    o.stat("gctm_objective_above_equivalent_layers_start_seen", 1)
            except Exception:
                pass
            if L >= 2:
                o.stat("nontrivial", 1)
    return o


# ------------------------------------------------------------------------------------------------------------
# the draw primitives of NumPy's global generator, owned by the check
# ------------------------------------------------------------------------------------------------------------

_INDEX_CACHE = {}


def _index_tuples(n, k, replace):
    key = (n, k, replace)
    if key not in _INDEX_CACHE:
        _INDEX_CACHE[key] = list(itertools.product(range(n), repeat=k)) if replace else \
            list(itertools.permutations(range(n), k))
    return _INDEX_CACHE[key]


def _count(n, k, replace):
    return n ** k if replace else (math.perm(n, k) if k <= n else 0)


def _label(values):
    vals = [int(v) if float(v) == int(v) else float(v) for v in values]
    if not vals:
        return "-"
    if all(isinstance(v, int) and 0 <= v <= 9 for v in vals):
        return "".join(map(str, vals))
    return ",".join(map(str, vals))


def _size_to_k(size):
    """None (one scalar), an int or a 1-tuple; anything else is not enumerated"""
    if size is None:
        return None
    if isinstance(size, (int, numpy.integer)) and not isinstance(size, bool):
        return int(size)
    if isinstance(size, (tuple, list)) and len(size) == 1 and isinstance(size[0], (int, numpy.integer)):
        return int(size[0])
    raise ValueError("size not enumerated")


def _enum_choice(a, size=None, replace=True, p=None):
    if p is not None:
        return None
    if isinstance(a, (int, numpy.integer)) and not isinstance(a, bool):
        if (a <= 0 and size is None) or a > 10 ** 6:
            return None
        pop = numpy.arange(max(int(a), 0))
    else:
        pop = numpy.asarray(a)
        if pop.ndim != 1:
            return None
    n = len(pop)
    k = _size_to_k(size)
    if k is None:
        if n == 0 or n > MAX_BRANCH:
            return None
        return n, (lambda j: (pop[j], _label([pop[j]]) if pop.dtype.kind in "iuf" else str(j)))
    if k < 0 or (k > 0 and n == 0) or (not replace and k > n):
        return None                                 # numpy raises: let it
    cnt = _count(n, k, bool(replace))
    if cnt > MAX_BRANCH:
        return None
    idx = _index_tuples(n, k, bool(replace))

    def get(j):
        ii = numpy.array(idx[j], dtype=numpy.intp)
        ans = pop[ii]
        return ans, (_label(ans) if pop.dtype.kind in "iuf" else _label(ii))
    return cnt, get


def _enum_permutation(x):
    if isinstance(x, (int, numpy.integer)) and not isinstance(x, bool):
        pop = numpy.arange(int(x))
    else:
        pop = numpy.asarray(x)
        if pop.ndim < 1:
            return None
    n = len(pop)
    if n > 7:
        return None
    idx = _index_tuples(n, n, False)
    return len(idx), (lambda j: (pop[numpy.array(idx[j], dtype=numpy.intp)].copy(), "P" + _label(idx[j])))


def _enum_shuffle(x):
    n = len(x)
    if n > 7:
        return None
    idx = _index_tuples(n, n, False)

    def get(j):
        if isinstance(x, numpy.ndarray):
            x[...] = x[numpy.array(idx[j], dtype=numpy.intp)].copy()
        else:
            x[:] = [x[i] for i in idx[j]]
        return None, "S" + _label(idx[j])
    return len(idx), get


def _enum_randint(low, high=None, size=None, dtype=int):
    for v in (low, high):
        if v is not None and not (isinstance(v, (int, numpy.integer)) and not isinstance(v, bool)):
            return None
    lo, hi = (0, int(low)) if high is None else (int(low), int(high))
    n = hi - lo
    if n <= 0 or n > MAX_BRANCH:
        return None
    k = _size_to_k(size)
    if k is None:
        return n, (lambda j: (int(lo + j) if dtype is int else numpy.dtype(dtype).type(lo + j), "I" + _label([lo + j])))
    if k < 0:
        return None
    cnt = _count(n, k, True)
    if cnt > MAX_BRANCH:
        return None
    idx = _index_tuples(n, k, True)
    return cnt, (lambda j: (numpy.array([lo + i for i in idx[j]], dtype=dtype), "I" + _label([lo + i for i in idx[j]])))


def _enum_random_integers(low, high=None, size=None):
    if high is None:
        low, high = 1, low
    return _enum_randint(low, int(high) + 1, size)


_ENUMERATORS = {"choice": _enum_choice, "permutation": _enum_permutation, "shuffle": _enum_shuffle,
                "randint": _enum_randint, "random_integers": _enum_random_integers}
_STATE_API = ("seed", "get_state", "set_state", "get_bit_generator", "set_bit_generator")


class _RandProxy(numpy.random.RandomState):
    """stands in for numpy.random.mtrand._rand (still a RandomState for isinstance tests): draw methods go to the
    oracle, everything else to the real global object"""

    def __getattribute__(self, name):
        d = object.__getattribute__(self, "__dict__")
        if name in ("__dict__", "__class__"):
            return object.__getattribute__(self, name)
        if name in d["fakes"]:
            return d["fakes"][name]
        return getattr(d["real"], name)


def _make_proxy(real, fakes):
    try:
        px = _RandProxy(0)
        object.__getattribute__(px, "__dict__").update({"real": real, "fakes": fakes})
        return px
    except Exception:
        return None


class _Draws(object):
    """Owns every draw primitive of NumPy's global generator between begin() and end(): the module-level functions
    of numpy.random (= the bound methods of the global RandomState), the same objects imported by name into the
    library's modules, and the methods of numpy.random.mtrand._rand.  An enumerable request is answered with
    answer number script[i] (0 beyond the script) and logged; any other request is passed to the real primitive
    and counted."""

    def __init__(self, modules=()):
        import numpy.random.mtrand as mt
        self.mt = mt
        self.rand = mt._rand
        self.orig = {}
        for name in dir(numpy.random):
            if name.startswith("_") or name in _STATE_API:
                continue
            f = getattr(numpy.random, name, None)
            if callable(f) and getattr(f, "__self__", None) is self.rand:
                self.orig[name] = f
        self.fakes = dict((name, self._make(name)) for name in self.orig)
        by_id = dict((id(f), name) for name, f in self.orig.items())
        self.sites = []
        seen = set()
        for ns in [numpy.random, mt] + list(modules):
            if ns is None or id(ns) in seen:
                continue
            seen.add(id(ns))
            try:
                items = list(vars(ns).items())
            except TypeError:
                continue
            for attr, val in items:
                name = by_id.get(id(val))
                if name is not None and val is self.orig[name]:
                    self.sites.append((ns, attr, val, self.fakes[name]))
        self.proxy = _make_proxy(self.rand, self.fakes)
        self.active = False
        self._reset(())

    def _reset(self, script):
        self.script = tuple(script)
        self.trace = []          # number of answers of every enumerable request, in call order
        self.chosen = []         # the answer number given to each
        self.labels = []
        self.primitives = []
        self.passed_through = []
        self.inconsistent = False

    def _make(self, name):
        def fake(*a, **k):
            return self._request(name, a, k)
        fake.__name__ = name
        return fake

    def _request(self, name, a, k):
        spec = None
        enum = _ENUMERATORS.get(name)
        if enum is not None:
            try:
                spec = enum(*a, **k)
            except Exception:
                spec = None
        if spec is None:
            self.passed_through.append(name)
            return self.orig[name](*a, **k)
        n, get = spec
        i = len(self.trace)
        if i >= MAX_REQUESTS:
            self.passed_through.append("more_than_%d_requests_in_one_call" % MAX_REQUESTS)
            return self.orig[name](*a, **k)
        # beyond the script the answers rotate (a rejection loop that waits for a new value terminates)
        j = self.script[i] if i < len(self.script) else i % n
        if j >= n:
            self.inconsistent = True
            j = j % n
        try:
            ans, label = get(j)
        except Exception:                    # the check's own answer construction failed: not the library's fault
            self.passed_through.append(name + "_answer_not_constructible")
            return self.orig[name](*a, **k)
        self.chosen.append(j)
        self.trace.append(n)
        self.labels.append(label)
        self.primitives.append(name)
        return ans

    def begin(self, script=()):
        self._reset(script)
        for ns, attr, val, fake in self.sites:
            setattr(ns, attr, fake)
        if self.proxy is not None:
            try:
                self.mt._rand = self.proxy
            except Exception:
                pass
        self.active = True

    def end(self):
        if self.active:
            for ns, attr, val, fake in self.sites:
                setattr(ns, attr, val)
            try:
                self.mt._rand = self.rand
            except Exception:
                pass
            self.active = False


class _NoDraws(object):
    """interception could not be set up on this NumPy: every run uses the real generator, nothing is claimed"""
    trace = labels = primitives = chosen = ()
    passed_through = ("interception_unavailable",)
    inconsistent = False

    def begin(self, script=()):
        pass

    def end(self):
        pass


def _siblings(path, start, trace):
    """the scripts that differ from the executed path in one request at or after `start` (and end there): together
    with the recursion over their own runs this visits every leaf of the answer tree exactly once"""
    for i in range(start, len(trace)):
        for j in range(trace[i]):
            if j != path[i]:
                yield path[:i] + (j,)


def _library_modules():
    return [m for n, m in list(sys.modules.items()) if m is not None and (n == "aotools" or n.startswith("aotools."))]


# ------------------------------------------------------------------------------------------------------------
# optimal grouping
# ------------------------------------------------------------------------------------------------------------

def _optimal_grouping(p):
    from aotools.turbulence import profile_compression as pc
    o = Out()
    N, L, tier = p["N"], p["L"], p["tier"]
    if p["ladder"].startswith("fixed:"):
        hh, pp = FIXED[p["ladder"][6:]]
        h = numpy.array(hh, float)
        pats = [("0", numpy.array(pp, float)), ("1", numpy.array(pp[::-1], float))]
    else:
        h = _ladders(N)[p["ladder"]]
        pl = _strength_patterns(N, tier)
        if len(pl) > 9:
            pl = pl[::max(1, len(pl) // 9)]
        pats = [("%d" % i, c) for i, c in enumerate(pl)]
        pats += [("z%d" % i, c) for i, c in enumerate(_zero_patterns(N, tier, False))]
    r2_top = 6 if tier == "quick" else 7
    budget = _tree_budget(tier)
    try:
        env = _Draws(_library_modules())
    except Exception:
        env = _NoDraws()
    states = 0
    for pi, cn2 in pats:
        best = ref.brute_force_optimum(h, cn2, L)
        eq = _equal_split_cost(h, cn2, N, L)
        for R in (0, 1, 2):
            if R == 2 and N > r2_top:
                continue
            stack = [iter([()])]           # generators of scripts still to run (depth first, lazily expanded)
            runs = 0
            reasons = set()
            drew = False
            while stack:
                script = next(stack[-1], None)
                if script is None:
                    stack.pop()
                    continue
                if runs >= budget:
                    reasons.add("tree_above_budget")
                    o.stat("caps_hit", 1)
                    break
                numpy.random.seed(20260927)            # whatever is passed through is at least reproducible
                before = rng_state_digest()
                env.begin(script)
                try:
                    hL, cL = pc.optimal_grouping(R, L, h.copy(), cn2.copy())
                finally:
                    env.end()
                runs += 1
                trace, labels = list(env.trace), list(env.labels)
                if env.passed_through:
                    reasons.add("request_not_enumerated:" + ",".join(sorted(set(env.passed_through))))
                elif rng_state_digest() != before:
                    reasons.add("generator_state_moved_by_a_route_not_intercepted")
                if env.inconsistent:
                    reasons.add("requests_differ_between_runs_with_the_same_answers")
                drew = drew or bool(trace) or bool(env.passed_through)
                for name in set(env.primitives):
                    o.stat("og_requests_" + name, list(env.primitives).count(name))
                sub = "p=%s:R=%d:ans=%s" % (pi, R, "/".join(labels) or "-")
                o.stat("lib_calls", 1)
                o.stat("transitions", max(len(trace), 1))
                if L >= 2 and N >= 3:
                    o.stat("nontrivial", 1)
                _judge_og(o, sub, h, cn2, L, hL, cL, best=best, eq=eq, outcome=[pi, R])
                if len(trace) > len(script):
                    stack.append(_siblings(tuple(env.chosen), len(script), trace))
            states += runs
            if R == 0:
                continue
            if reasons:
                o.stat("og_answer_tree_not_claimed", 1)
                for r in sorted(reasons):
                    o.stat("og_not_claimed:" + r.split(":")[0], 1)
                o.note("og_answer_tree_not_claimed_because", sorted(reasons))
            else:
                o.stat("og_answer_trees_complete", 1)
                if not drew:
                    o.stat("og_no_draw_request_seen_although_R>0", 1)
            # the real generator (no interception at all): two seeds always, a sweep where the tree is not claimed
            for s in range(SWEEP_SEEDS if reasons else 2):
                numpy.random.seed(s)
                hL, cL = pc.optimal_grouping(R, L, h.copy(), cn2.copy())
                o.stat("lib_calls", 1)
                _judge_og(o, "p=%s:R=%d:seed=%d" % (pi, R, s), h, cn2, L, hL, cL, best=best, eq=eq)
    o.stat("states", max(states, 1))
    o.stat("traces_validated_against_impl", o.stats.get("lib_calls", 0))
    return o


# ------------------------------------------------------------------------------------------------------------
# long profiles, realistic profiles
# ------------------------------------------------------------------------------------------------------------

def _long(p):
    """N-layer profile (exponential decay plus a strong layer at the very top, so that losing the last few layers
    is visible): equivalent layers for several L (also L = N/2 and N-1 up to N = 257), optimal grouping (one
    restart) for L = 3"""
    from aotools.turbulence import profile_compression as pc
    o = Out()
    N = p["N"]
    h = numpy.linspace(0., 20000., N)
    cn2 = 1e-13 * numpy.exp(-h / 2500.) + 3e-15 * numpy.exp(-((h - 19800.) / 300.) ** 2)
    w = 5. + 25. * numpy.exp(-((h - 11000.) / 3000.) ** 2)
    Ls = [1, 2, 3, 7, 33]
    if N <= 257:
        Ls += [N // 2, N - 1]
    if N >= 4097:
        Ls += [N // 2]
    for L in Ls:
        res = pc.equivalent_layers(h.copy(), cn2.copy(), L, w.copy())
        o.stat("lib_calls", 1)
        _judge_el(o, "L=%d" % L, h, cn2, w, L, res)
    if p["og"]:
        L = 3
        numpy.random.seed(L)
        ho, co = pc.optimal_grouping(1, L, h.copy(), cn2.copy())
        o.stat("lib_calls", 1)
        _judge_og(o, None, h, cn2, L, ho, co)
    return o


def _gctm_exp(p):
    """all three methods on 100-layer profiles whose strength decays exponentially with height (the top slabs are
    orders of magnitude weaker than the ground): L layers, non-negative strengths, totals, moments"""
    from aotools.turbulence import profile_compression as pc
    o = Out()
    h = numpy.linspace(0., 20000., 100)
    for bump in (0.0, 0.3):
        cn2 = 1e-13 * numpy.exp(-h / p["H"]) + bump * 1e-14 * numpy.exp(-((h - 11000.) / 1200.) ** 2)
        for L in (2, 3, 5, 6, 8):
            sub = "bump=%g:L=%d" % (bump, L)
            hL, cL = pc.GCTM(h.copy(), cn2.copy(), L)
            o.stat("lib_calls", 3)
            if not numpy.all(_f64(hL) >= 0):
                o.stat("gctm_negative_output_height_seen", 1)      # not excluded by the statement
            _judge_gctm(o, sub, h, cn2, L, hL, cL, single=False)
            if L in (2, 3, 5) and bump == 0.0:
                # the optional scalings are a numerical device: with any sensible choice the returned layers
                # reproduce the moments of the input profile (in whatever units they are measured)
                for hs, cs in ((2e4, 1e-13), (1.5e4, 5e-14), (1e4, 1e-14), (1e4, 1e-12), (3e4, 3e-13)):   # (scaled heights <= 2: larger ones make the high moments ill-conditioned for any optimiser)
                    for form in ("kw", "pos"):
                        if form == "kw":
                            hS, cS = pc.GCTM(h.copy(), cn2.copy(), L, h_scaling=hs, cn2_scaling=cs)
                        else:
                            hS, cS = pc.GCTM(h.copy(), cn2.copy(), L, hs, cs)
                        o.stat("lib_calls", 1)
                        _judge_gctm(o, "%s:h_scaling=%g:cn2_scaling=%g:%s" % (sub, hs, cs, form), h, cn2, L, hS, cS,
                                    hs=hs, cs=cs, clause="gctm_moments_reproduced_with_other_scalings", single=False)
            res = pc.equivalent_layers(h.copy(), cn2.copy(), L)
            _judge_el(o, sub, h, cn2, None, L, res)
            numpy.random.seed(L)
            ho, co = pc.optimal_grouping(1, L, h.copy(), cn2.copy())
            _judge_og(o, sub, h, cn2, L, ho, co)
    return o


# ------------------------------------------------------------------------------------------------------------
# the same values held differently by the caller: dtypes and memory layouts, layer order, reuse of one object
# ------------------------------------------------------------------------------------------------------------

def _tables():
    """(name, h, cn2, w) with whole-metre heights and whole m/s winds, as they come out of a profile table"""
    h8 = numpy.arange(0, 16000, 2000)
    out = [("grid8", h8, numpy.array([5e-14, 1e-14, 2e-15, 5e-15, 1e-14, 2e-15, 1e-15, 5e-15]),
            numpy.array([4, 9, 14, 10, 33, 21, 12, 7])),
           ("site9", numpy.array([0, 30, 200, 1000, 2500, 5000, 9000, 12000, 17000]),
            numpy.array([4e-14, 2e-14, 5e-15, 0., 1e-14, 2e-15, 1e-14, 5e-15, 1e-15]),
            numpy.array([3, 5, 8, 8, 12, 20, 35, 28, 9]))]
    return out


def _storage_variants(h, cn2, w):
    """(name, h, cn2, w, rounding scale): the same values in other dtypes / layouts"""
    hf, pf, wf = h.astype(float), cn2.astype(float), w.astype(float)
    out = [("int64_heights_winds", h.astype(numpy.int64), pf.copy(), w.astype(numpy.int64), 1.0),
           ("int32_heights_winds", h.astype(numpy.int32), pf.copy(), w.astype(numpy.int32), 1.0)]
    tab = numpy.zeros((len(h), 3))
    tab[:, 0], tab[:, 1], tab[:, 2] = hf, pf, wf
    out.append(("strided_columns", tab[:, 0], tab[:, 1], tab[:, 2], 1.0))
    big = numpy.zeros((3, 2 * len(h)))
    big[0, ::2], big[1, ::2], big[2, ::2] = hf, pf, wf
    out.append(("every_second_element", big[0, ::2], big[1, ::2], big[2, ::2], 1.0))
    ro = [x.copy() for x in (hf, pf, wf)]
    for x in ro:
        x.flags.writeable = False
    out.append(("read_only", ro[0], ro[1], ro[2], 1.0))
    # single precision: conservation "exactly" is then exact to single-precision rounding (library: <= 2e-7)
    out.append(("float32", hf.astype(numpy.float32), pf.astype(numpy.float32), wf.astype(numpy.float32), 1e7))
    return out


def _storage(p):
    from aotools.turbulence import profile_compression as pc
    o = Out()
    meth = p["method"]
    for tname, h, cn2, w in _tables():
        for vname, hv, pv, wv, rt in _storage_variants(h, cn2, w):
            for L in (1, 2, 3, 5):
                sub = "%s:%s:L=%d" % (tname, vname, L)
                vals = (_f64(hv).copy(), _f64(pv).copy(), _f64(wv).copy())     # the values the library is given
                if meth == "el":
                    res = pc.equivalent_layers(hv, pv, L, wv)
                    o.stat("lib_calls", 2)
                    _judge_el(o, sub, vals[0], vals[1], vals[2], L, res, rt=rt)
                    _judge_el(o, sub + ":nowind", vals[0], vals[1], None, L, pc.equivalent_layers(hv, pv, L), rt=rt)
                elif meth == "og":
                    # (single precision: the reference reconstructs the grouping from group sums compared at 1e-9,
                    # which single-precision sums do not meet - only the clauses that need no reconstruction)
                    best = ref.brute_force_optimum(vals[0], vals[1], L) if rt == 1.0 else None
                    eq = _equal_split_cost(vals[0], vals[1], len(hv), L) if rt == 1.0 else None
                    for R in (0, 1):
                        numpy.random.seed(L)
                        ho, co = pc.optimal_grouping(R, L, hv, pv)
                        o.stat("lib_calls", 1)
                        _judge_og(o, sub + ":R=%d" % R, vals[0], vals[1], L, ho, co, best=best, eq=eq, rt=rt)
                else:
                    if not _slabs_clearly_nonempty(vals[0], L) or not numpy.all(vals[1] > 0):
                        o.stat("gctm_outside_domain_empty_slab_or_layer_on_slab_edge", 1)
                        continue
                    hL, cL = pc.GCTM(hv, pv, L)
                    o.stat("lib_calls", 1)
                    _judge_gctm(o, sub, vals[0], vals[1], L, hL, cL)
                o.stat("nontrivial", 1 if L >= 2 else 0)
                # the caller's arrays are as they were
                o.check("arguments_unchanged", bool(numpy.array_equal(_f64(hv), vals[0]) and
                                                    numpy.array_equal(_f64(pv), vals[1]) and
                                                    numpy.array_equal(_f64(wv), vals[2])), sub=sub)
    return o


def _reuse(p):
    """one caller-owned array object through the history f(a); f(a); caller edits a; f(a) (mc.variants.check_reuse),
    for each argument of each method in turn.  Heights in units of 10 km and strengths in units of 1e-13 (all three
    methods are indifferent to the units; GCTM is told so through its scalings), so that the results are of order
    one and the library's own result arrays can be handed to check_reuse as they are."""
    from aotools.turbulence import profile_compression as pc
    o = Out()
    meth = p["method"]
    h0 = _ladders(8)["gaps"] / 1e4
    p0 = numpy.array([5e-14, 1e-14, 2e-15, 5e-15, 1e-14, 2e-15, 1e-15, 5e-15]) / 1e-13
    w0 = _winds(8)[1] / 10.
    keep = {"h": h0.copy(), "p": p0.copy(), "w": w0.copy()}

    def rescale(a):                       # the caller's edit of a strength array: another profile, still positive
        a[...] = a[::-1].copy() * 3.

    for L in (2, 3):
        for which in ("h", "p", "w") if meth == "el" else ("h", "p"):
            other = dict((k, v.copy()) for k, v in keep.items())

            def f(a, which=which, other=other, L=L):
                args = dict(other)
                args[which] = a
                if meth == "el":
                    return pc.equivalent_layers(args["h"], args["p"], L, args["w"])
                if meth == "og":
                    numpy.random.seed(7)
                    return pc.optimal_grouping(1, L, args["h"], args["p"])
                return pc.GCTM(args["h"], args["p"], L, 1., 1.)
            # same values -> same deterministic computation; 1e-9 leaves room for a different summation order
            n = variants.check_reuse(o, "reuse", f, keep[which], 1e-9, sub="%s:L=%d" % (which, L),
                                     mutate=rescale if which == "p" else variants.flip_all)
            o.stat("lib_calls", n)
            o.stat("nontrivial", 1)
            o.check("arguments_unchanged", all(numpy.array_equal(other[k], keep[k]) for k in other if k != which),
                    sub="%s:L=%d:other_arguments" % (which, L))
    return o


def _order(p):
    """the layers of a profile listed top-down or in no particular order: equivalent layers and the moment-conserving
    method do not depend on the order in which (height, strength, wind) triples are listed"""
    from aotools.turbulence import profile_compression as pc
    o = Out()
    tier = p["tier"]
    for N in (5, 8) if tier == "quick" else (4, 5, 8, 11):
        perms = [("descending", numpy.arange(N)[::-1]), ("shuffled", numpy.array([(5 * i + 3) % N for i in range(N)])
                 if math.gcd(5, N) == 1 else numpy.array([(3 * i + 1) % N for i in range(N)]))]
        lad = _ladders(N)
        for name in sorted(lad):
            h = lad[name]
            pats = _strength_patterns(N, tier)
            pats = pats[::max(1, len(pats) // 3)][:3] + _zero_patterns(N, tier, False)[:2]
            for pi, cn2 in enumerate(pats):
                w = _winds(N)[pi % 3]
                for oname, perm in perms:
                    hp, pp, wp = h[perm].copy(), cn2[perm].copy(), w[perm].copy()
                    for L in range(1, N):
                        sub = "N=%d:%s:p=%d:%s:L=%d" % (N, name, pi, oname, L)
                        ha, pa, wa = hp.copy(), pp.copy(), wp.copy()
                        res = pc.equivalent_layers(ha, pa, L, wa)
                        o.stat("lib_calls", 1)
                        o.stat("nontrivial", 1 if L >= 2 else 0)
                        _judge_el(o, sub, hp, pp, wp, L, res)
                        # (an in-place sort of the caller's profile is invisible on ascending input)
                        o.check("arguments_unchanged", bool(numpy.array_equal(ha, hp) and numpy.array_equal(pa, pp)
                                                            and numpy.array_equal(wa, wp)), sub=sub)
                        if L <= 3 and pi == 0 and h.max() > 10. and numpy.all(cn2 > 0) and _slabs_clearly_nonempty(h, L):
                            c100 = pp * 100.
                            ha, pa = hp.copy(), c100.copy()
                            hL, cL = pc.GCTM(ha, pa, L)
                            o.stat("lib_calls", 1)
                            _judge_gctm(o, sub, hp, c100, L, hL, cL)
                            o.check("arguments_unchanged", bool(numpy.array_equal(ha, hp) and numpy.array_equal(pa, c100)),
                                    sub=sub + ":gctm")
    return o


def _has_parameters(f, names):
    try:
        ps = inspect.signature(f).parameters
        return all(n in ps and ps[n].kind in (inspect.Parameter.POSITIONAL_OR_KEYWORD, inspect.Parameter.KEYWORD_ONLY)
                   for n in names)
    except Exception:
        return False


def _conventions(p):
    """calling conventions a caller may legitimately use: arguments by their documented names, L / R as NumPy
    integers (len(h) // k), more restarts than the answer trees cover (R = 3, real generator, seeds), L close to N"""
    from aotools.turbulence import profile_compression as pc
    o = Out()
    for N in (9, 12):
        h = _ladders(N)["gaps"]
        cn2 = _strength_patterns(N, "quick")[5] * 100.
        w = _winds(N)[0]
        for L in (1, 2, N // 2, N - 2, N - 1):
            sub = "N=%d:L=%d" % (N, L)
            Li = numpy.int64(L)
            best = ref.brute_force_optimum(h, cn2, L)
            eq = _equal_split_cost(h, cn2, N, L)
            # documented parameter names (docstrings: h, p, L, w / R, L, h, p / h, p, L, h_scaling, cn2_scaling)
            if _has_parameters(pc.equivalent_layers, ("h", "p", "L", "w")):
                _judge_el(o, sub + ":keywords", h, cn2, w, L, pc.equivalent_layers(h=h.copy(), p=cn2.copy(), L=L, w=w.copy()))
                o.stat("lib_calls", 1)
            else:
                o.stat("keyword_form_not_claimed", 1)
            _judge_el(o, sub + ":numpy_int", h, cn2, w, L, pc.equivalent_layers(h.copy(), cn2.copy(), Li, w=w.copy()))
            o.stat("lib_calls", 1)
            for R in (1, 3):
                for s in (0, 1, 2):
                    numpy.random.seed(s)
                    if s == 0 and _has_parameters(pc.optimal_grouping, ("R", "L", "h", "p")):
                        ho, co = pc.optimal_grouping(R=R, L=L, h=h.copy(), p=cn2.copy())
                    elif s == 1:
                        ho, co = pc.optimal_grouping(numpy.int64(R), Li, h.copy(), cn2.copy())
                    else:
                        ho, co = pc.optimal_grouping(R, L, h.copy(), cn2.copy())
                    o.stat("lib_calls", 1)
                    o.stat("nontrivial", 1 if L >= 2 else 0)
                    _judge_og(o, "%s:R=%d:seed=%d" % (sub, R, s), h, cn2, L, ho, co, best=best, eq=eq)
            if L <= 3 and _slabs_clearly_nonempty(h, L):
                if _has_parameters(pc.GCTM, ("h", "p", "L")):
                    hL, cL = pc.GCTM(h=h.copy(), p=cn2.copy(), L=L)
                    _judge_gctm(o, sub + ":keywords", h, cn2, L, hL, cL)
                hL, cL = pc.GCTM(h.copy(), cn2.copy(), Li)
                _judge_gctm(o, sub + ":numpy_int", h, cn2, L, hL, cL)
                o.stat("lib_calls", 2)
    return o
