"""C18 Profile compression conserves the turbulence it compresses.

E1 x E5: every profile of a bounded lattice (layer counts, regular and irregular height
ladders including the rounding-sensitive ones, all strength sequences over a small
alphabet, wind patterns) x every target count 1 <= L < N is pushed through the three
compression methods.  For optimal grouping the only environment input - the answers of
numpy.random.choice in the random restarts - is intercepted and EVERY sequence of answers
(every ordered sample without replacement the call may return, for R = 0, 1, 2 restarts)
is enumerated, i.e. all states of the global generator as far as the algorithm can see them.
"""
import itertools
import math

import numpy

from mc import Out, Case
from mc.env import choice_oracle, rng_state_digest
from mc.refmodels import profiles as ref

PROPERTY = "C18"
LEVEL = "model_checking"
ENGINES = ["E1-product-enumeration", "E5-environment-answers"]
TECHNIQUE = ("bounded exhaustive enumeration of profiles x target layer counts; for optimal grouping, exhaustive "
             "enumeration of every answer sequence of the intercepted numpy.random.choice (environment-answer tree), "
             "each run compared with a brute-force reference model")
RULE = ("case = (profile family, N); inside a case every strength/wind pattern, every L in 1..N-1 and (optimal "
        "grouping) every answer sequence of numpy.random.choice for R in {0,1,2} is executed; non-trivial = L >= 2 "
        "and N >= 3 (counted per executed run)")
ASSUMPTIONS = [
    "the random restarts of optimal grouping observe the global generator only through numpy.random.choice "
    "(verified on every run: the request has the expected population/size/replace and the global generator state "
    "is untouched when choice is intercepted)",
    "profiles: N <= 8 (quick) / 12 (thorough) layers, strengths from {1,2,5}e-15 patterns, heights from the listed "
    "ladders; GCTM only on profiles whose L equal-thickness slabs are all non-empty (as the property states)",
    "'equal split' = the documented starting grouping linspace(0, N, L+1, dtype=int)[1:-1]",
    "GCTM accuracy clause is a 5 % bound on scaled moment residuals (optimiser accuracy is not sharper)",
]
LEVEL_TEXT = ("All profiles of the lattice and all target counts are enumerated; for optimal grouping the tree of "
              "every possible numpy.random.choice answer sequence (R <= 2 restarts) is explored completely for "
              "N <= 7 (quick) / 8 (thorough), so the verdict does not depend on the state of the global generator; "
              "each result is compared with a brute-force optimum over all contiguous groupings.")
LEVEL_NOTE = ("Trusted: the reference model mc/refmodels/profiles.py (brute force), numpy. Not covered: N above the "
              "bound, strengths outside the alphabet, R > 2, non-increasing height inputs.")


GCTM_TOL = 2e-2


def _ladders(N):
    """name -> heights"""
    out = {}
    for h0, hmax in ((0., 15000.), (0., 10000.), (0., 25000.), (100., 20000.), (0., 1.), (500., 18500.),
                     (0., 7000.), (0., 21000.), (0., 30000.)):
        out["lin:%g-%g" % (h0, hmax)] = numpy.linspace(h0, hmax, N)
    out["clustered"] = numpy.array(([0., 50., 100., 150., 9000., 9100., 15000., 15050., 15100., 20000., 20001., 20002.])[:N])
    out["gaps"] = numpy.cumsum(numpy.array([0., 10., 4000., 20., 7000., 5., 3000., 1., 900., 2500., 10., 60.])[:N])
    out["geometric"] = 100. * 1.7 ** numpy.arange(N)
    return out


# high-contrast profiles on which the local search of optimal grouping has local minima that are
# worse than the equal split (found once by an offline search; they only enlarge the alphabet)
FIXED = {
    "contrast7a": ([500., 8500., 9500., 12500., 13000., 17000., 19500.],
                   [1e-15, 3e-13, 2e-15, 2e-15, 1e-15, 3e-13, 1e-15]),
    "contrast7b": (list(numpy.linspace(0, 20000., 7)), [2e-15, 2e-15, 1e-13, 1e-15, 1e-15, 2e-15, 3e-13]),
    "contrast8": (list(numpy.linspace(0, 20000., 8)), [2e-15, 1e-13, 2e-15, 5e-15, 1e-13, 1e-15, 1e-15, 2e-15]),
    "contrast9a": (list(numpy.linspace(0, 20000., 9)), [5e-15, 1e-15, 5e-15, 1e-15, 1e-15, 5e-15, 5e-15, 1e-13, 5e-15]),
    "contrast9b": (list(numpy.linspace(0, 20000., 9)), [5e-15, 1e-13, 2e-15, 1e-15, 1e-15, 2e-15, 2e-15, 5e-15, 3e-13]),
    "contrast10": (list(numpy.linspace(0, 20000., 10)),
                   [5e-15, 2e-15, 3e-13, 1e-15, 2e-15, 1e-13, 3e-13, 1e-15, 3e-13, 1e-13]),
}


def _strength_patterns(N, tier):
    vals = (1e-15, 2e-15, 5e-15)
    if N <= (4 if tier == "quick" else 5):
        return [numpy.array(s) for s in itertools.product(vals, repeat=N)]
    pats = [numpy.full(N, 1e-15), numpy.array([vals[i % 3] for i in range(N)]),
            numpy.array([vals[(2 * i + 1) % 3] for i in range(N)]),
            numpy.array([5e-15] + [1e-15] * (N - 1)), numpy.array([1e-15] * (N - 1) + [5e-15]),
            numpy.array([vals[(i * i) % 3] for i in range(N)])]
    return pats


def _Ns(tier):
    return range(2, 9) if tier == "quick" else range(2, 13)


def BOUNDS(tier):
    return {"N": list(_Ns(tier)), "ladders": sorted(_ladders(4)), "strength_alphabet": [1e-15, 2e-15, 5e-15],
            "optimal_grouping": {"R": [0, 1, 2], "complete_answer_tree_up_to_N": 7 if tier == "quick" else 8,
                                 "R2_up_to_N": 6 if tier == "quick" else 7}}


def cases(tier):
    for N in _Ns(tier):
        for name in sorted(_ladders(N)):
            yield Case("el:N=%d:%s" % (N, name), {"kind": "el", "N": N, "ladder": name, "tier": tier}, N >= 3)
            yield Case("gctm:N=%d:%s" % (N, name), {"kind": "gctm", "N": N, "ladder": name, "tier": tier}, N >= 3)
        top = 7 if tier == "quick" else 8
        if N <= top:
            for name in ("lin:0-15000", "clustered", "gaps", "geometric"):
                for L in range(1, N):
                    yield Case("og:N=%d:%s:L=%d" % (N, name, L),
                               {"kind": "og", "N": N, "ladder": name, "tier": tier, "L": L}, N >= 3 and L >= 2)
    # realistic many-layer profiles (exponentially decaying strength, with and without a jet-stream bump)
    for scale_h in (1500., 2500., 4000.):
        yield Case("gctm:exp:H=%g" % scale_h, {"kind": "gctm_exp", "H": scale_h, "tier": tier}, True)
    # profiles of several hundred to several thousand layers (a pre-binning or blocked implementation starts there)
    for N in ((513, 4097) if tier == "quick" else (513, 770, 1030, 4097)):
        yield Case("long:N=%d" % N, {"kind": "long", "N": N, "og": N <= (513 if tier == "quick" else 1030)}, True)
    for name in sorted(FIXED):
        N = len(FIXED[name][0])
        for L in range(1, min(N, 5 if tier == "quick" else 6)):
            yield Case("og:fixed:%s:L=%d" % (name, L),
                       {"kind": "og", "N": N, "ladder": "fixed:" + name, "tier": tier, "L": L}, L >= 2)


def evaluate(p):
    if p["kind"] == "el":
        return _equivalent_layers(p)
    if p["kind"] == "gctm":
        return _gctm(p)
    if p["kind"] == "gctm_exp":
        return _gctm_exp(p)
    if p["kind"] == "long":
        return _long(p)
    return _optimal_grouping(p)


def _winds(N):
    # the last one is an integer-typed array (whole m/s): the effective wind of a slab is not an integer
    return [numpy.linspace(5., 30., N), numpy.array([10. + 7. * ((3 * i) % 5) for i in range(N)]),
            numpy.array([4 + (5 * i) % 9 for i in range(N)], dtype=numpy.int64)]


def _equivalent_layers(p):
    from aotools.turbulence import profile_compression as pc
    o = Out()
    N = p["N"]
    h = _ladders(N)[p["ladder"]]
    for pi, cn2 in enumerate(_strength_patterns(N, p["tier"])):
        for L in range(1, N):
            for wi, w in enumerate([None] + _winds(N)):
                sub = "p=%d:L=%d:w=%s" % (pi, L, "none" if w is None else wi)
                res = pc.equivalent_layers(h.copy(), cn2.copy(), L) if w is None else \
                    pc.equivalent_layers(h.copy(), cn2.copy(), L, w.copy())
                o.stat("lib_calls", 1)
                if L >= 2 and N >= 3:
                    o.stat("nontrivial", 1)
                hL, cL = numpy.asarray(res[0], float), numpy.asarray(res[1], float)
                o.check("el_exactly_L_layers", hL.shape == (L,) and cL.shape == (L,), sub=sub, detail=[hL.shape, cL.shape])
                o.check("el_strengths_non_negative", bool(numpy.all(cL >= 0)), sub=sub)
                tot = cn2.sum()
                o.close("el_total_cn2_conserved", abs(cL.sum() - tot) / tot, 1e-12, sub=sub,
                        detail={"in": float(tot), "out": float(cL.sum()), "h": h, "L": L})
                m_in = float((cn2 * h ** (5. / 3)).sum())
                with numpy.errstate(invalid="ignore"):
                    m_out = float((cL * hL ** (5. / 3)).sum())
                scale = max(m_in, tot * max(h.max(), 1e-30) ** (5. / 3) * 1e-30)
                o.close("el_height_moment_conserved", abs(m_out - m_in) / scale if scale > 0 else abs(m_out - m_in),
                        1e-10, sub=sub, detail={"in": m_in, "out": m_out, "h_out": hL, "cn2_out": cL})
                o.check("el_heights_finite", bool(numpy.all(numpy.isfinite(hL))), sub=sub, detail=hL)
                if w is not None:
                    wL = numpy.asarray(res[2], float)
                    o.check("el_exactly_L_layers", wL.shape == (L,), sub=sub + ":wind")
                    v_in = float((cn2 * w ** (5. / 3)).sum())
                    with numpy.errstate(invalid="ignore"):
                        v_out = float((cL * wL ** (5. / 3)).sum())
                    o.close("el_wind_moment_conserved", abs(v_out - v_in) / v_in, 1e-10, sub=sub)
                o.outcome([hL, cL])
    return o


def _gctm(p):
    from aotools.turbulence import profile_compression as pc
    o = Out()
    N = p["N"]
    h = _ladders(N)[p["ladder"]]
    pats = _strength_patterns(N, p["tier"])
    if len(pats) > 12:
        pats = pats[::max(1, len(pats) // 12)]
    for pi, cn2 in enumerate(pats):
        # strengths of the order the default cn2_scaling (1e-13) is documented for
        cn2 = cn2 * 100.
        for L in range(1, min(N, 4)):
            sub = "p=%d:L=%d" % (pi, L)
            if not ref.slabs_all_nonempty(h, L):
                o.stat("gctm_outside_domain_empty_slab", 1)
                continue
            if h.max() <= 10.:      # default scaling (10 km) assumes metre-scale heights
                o.stat("gctm_outside_domain_scale", 1)
                continue
            hL, cL = pc.GCTM(h.copy(), cn2.copy(), L)
            o.stat("lib_calls", 1)
            hL, cL = numpy.asarray(hL, float), numpy.asarray(cL, float)
            o.check("gctm_exactly_L_layers", hL.shape == (L,) and cL.shape == (L,), sub=sub)
            o.check("gctm_strengths_non_negative", bool(numpy.all(cL >= 0)) and bool(numpy.all(numpy.isfinite(hL))), sub=sub)
            hs, cs = 10000., 100e-15
            mom0 = ref.moments(h / hs, cn2 / cs, L)
            mom = ref.moments(hL / hs, cL / cs, L)
            # "to optimiser accuracy": the optimiser works on the scaled moments (heights / 10 km,
            # strengths / 1e-13), so its accuracy is an absolute one in those units: the residual
            # vector is compared with the norm of the moment vector
            resid = float(numpy.linalg.norm(mom - mom0) / numpy.linalg.norm(mom0))
            o.close("gctm_moments_reproduced", resid, GCTM_TOL, sub=sub, detail={"mom_in": mom0, "mom_out": mom})
            rel = float(numpy.max(numpy.abs(mom - mom0) / numpy.maximum(numpy.abs(mom0), 1e-300)))
            o.note("gctm_worst_per_moment_relative_residual_seen", max(rel, o.notes.get("gctm_worst_per_moment_relative_residual_seen", 0.0)))
            # objective no worse than at the documented starting point (equivalent layers)
            g = ref.equivalent_layers(h, cn2, L)
            obj0 = float(((ref.moments(g[0] / hs, g[1] / cs, L) - mom0) ** 2).sum())
            obj = float(((mom - mom0) ** 2).sum())
            o.check("gctm_not_worse_than_start", obj <= obj0 * (1 + 1e-9) + 1e-18, sub=sub, detail=[obj, obj0])
            if L >= 2:
                o.stat("nontrivial", 1)
    return o


def _answers(N, L):
    """every ordered sample without replacement of size L-1 from arange(N-2)"""
    return list(itertools.permutations(range(max(N - 2, 0)), L - 1))


def _optimal_grouping(p):
    from aotools.turbulence import profile_compression as pc
    o = Out()
    N, L, tier = p["N"], p["L"], p["tier"]
    if p["ladder"].startswith("fixed:"):
        hh, pp = FIXED[p["ladder"][6:]]
        h, pats = numpy.array(hh, float), [numpy.array(pp, float), numpy.array(pp[::-1], float)]
    else:
        h = _ladders(N)[p["ladder"]]
        pats = _strength_patterns(N, tier)
        if len(pats) > 9:
            pats = pats[::max(1, len(pats) // 9)]
    answers = _answers(N, L)
    possible = len(answers) > 0          # choice(size > population) raises in numpy: no restart possible
    r2_top = 6 if tier == "quick" else 7
    states = 0
    for pi, cn2 in enumerate(pats):
        best = ref.brute_force_optimum(h, cn2, L)
        eq = ref.cost_of_splits(h, cn2, ref.equal_split(N, L))
        for R in (0, 1, 2):
            if R > 0 and not possible:
                o.stat("og_restart_impossible_population_too_small", 1)
                continue
            if R == 2 and N > r2_top:
                continue
            seqs = list(itertools.product(answers, repeat=R))
            states += sum(len(answers) ** r for r in range(R + 1))
            for seq in seqs:
                sub = "p=%d:R=%d:ans=%s" % (pi, R, "/".join("".join(map(str, a)) or "-" for a in seq) or "-")
                before = rng_state_digest()
                with choice_oracle(seq) as log:
                    try:
                        hL, cL = pc.optimal_grouping(R, L, h.copy(), cn2.copy())
                    except StopIteration:
                        o.check("og_choice_requests_as_modelled", False, sub=sub, detail="more choice calls than restarts")
                        continue
                o.stat("lib_calls", 1)
                o.stat("transitions", max(R, 1))
                if L >= 2 and N >= 3:
                    o.stat("nontrivial", 1)
                ok_req = len(log) == R and all(
                    (q["a"] == list(range(N - 2)) or q["a"] == N - 2) and q["replace"] is False and
                    (q["size"] == L - 1 or q["size"] == (L - 1,)) for q in log)
                o.check("og_choice_requests_as_modelled", ok_req, sub=sub, detail=log[:2])
                o.check("og_global_rng_untouched_when_choice_is_owned", rng_state_digest() == before, sub=sub)
                hL, cL = numpy.asarray(hL, float), numpy.asarray(cL, float)
                o.check("og_exactly_L_layers", hL.shape == (L,) and cL.shape == (L,), sub=sub,
                        detail={"heights": hL, "cn2": cL, "L": L})
                if hL.shape != (L,) or cL.shape != (L,):
                    continue
                tot = cn2.sum()
                o.close("og_total_cn2_conserved", abs(cL.sum() - tot) / tot, 1e-12, sub=sub)
                o.check("og_strengths_non_negative", bool(numpy.all(cL >= 0)), sub=sub)
                o.check("og_heights_are_input_heights", all(any(x == y for y in h) for x in hL), sub=sub, detail=hL)
                o.check("og_heights_increasing", bool(numpy.all(numpy.diff(hL) > 0)) if L > 1 else True, sub=sub, detail=hL)
                # every input layer in exactly one group: the output must be explained by a contiguous partition
                cost = ref.cost_of_output(h, cn2, hL, cL)
                o.check("og_output_is_a_contiguous_grouping", cost is not None, sub=sub,
                        detail={"heights": hL, "cn2": cL})
                if cost is not None:
                    scale = max(eq, best, 1e-300)
                    o.check("og_cost_not_worse_than_equal_split", cost <= eq + 1e-9 * scale, sub=sub,
                            measure=(cost - eq) / scale, tol=1e-9, detail={"cost": cost, "equal_split": eq, "optimum": best})
                    o.check("og_cost_not_below_brute_force_optimum", cost >= best - 1e-9 * scale, sub=sub,
                            detail={"cost": cost, "optimum": best})
                    o.outcome([pi, R, round(cost / scale, 9)])
    o.stat("states", max(states, 1))
    o.stat("traces_validated_against_impl", o.stats.get("lib_calls", 0))
    return o


def _long(p):
    """N-layer profile (exponential decay plus a strong layer at the very top, so that losing the last few layers
    is visible): equivalent layers for several L, optimal grouping (one restart) for L = 3"""
    from aotools.turbulence import profile_compression as pc
    o = Out()
    N = p["N"]
    h = numpy.linspace(0., 20000., N)
    cn2 = 1e-13 * numpy.exp(-h / 2500.) + 3e-15 * numpy.exp(-((h - 19800.) / 300.) ** 2)
    w = 5. + 25. * numpy.exp(-((h - 11000.) / 3000.) ** 2)
    tot = cn2.sum()
    for L in (1, 2, 3, 7, 33):
        sub = "L=%d" % L
        he, ce, we = pc.equivalent_layers(h.copy(), cn2.copy(), L, w.copy())
        he, ce, we = (numpy.asarray(x, float) for x in (he, ce, we))
        o.stat("lib_calls", 1)
        o.check("el_exactly_L_layers", he.shape == (L,) and ce.shape == (L,), sub=sub)
        o.check("el_strengths_non_negative", bool(numpy.all(ce >= 0)), sub=sub)
        o.close("el_total_cn2_conserved", abs(ce.sum() - tot) / tot, 1e-12, sub=sub)
        m_in = float((cn2 * h ** (5. / 3)).sum())
        o.close("el_height_moment_conserved", abs(float((ce * he ** (5. / 3)).sum()) - m_in) / m_in, 1e-10, sub=sub)
        v_in = float((cn2 * w ** (5. / 3)).sum())
        o.close("el_wind_moment_conserved", abs(float((ce * we ** (5. / 3)).sum()) - v_in) / v_in, 1e-10, sub=sub)
    if p["og"]:
        L = 3
        numpy.random.seed(L)
        ho, co = pc.optimal_grouping(1, L, h.copy(), cn2.copy())
        ho, co = numpy.asarray(ho, float), numpy.asarray(co, float)
        o.stat("lib_calls", 1)
        o.check("og_exactly_L_layers", ho.shape == (L,) and co.shape == (L,))
        o.close("og_total_cn2_conserved", abs(co.sum() - tot) / tot, 1e-12)
        o.check("og_strengths_non_negative", bool(numpy.all(co >= 0)))
        o.check("og_heights_are_input_heights", all(any(x == y for y in h) for x in ho))
        o.check("og_heights_increasing", bool(numpy.all(numpy.diff(ho) > 0)))
    return o


def _gctm_exp(p):
    """all three methods on 100-layer profiles whose strength decays exponentially with height (the top slabs are
    orders of magnitude weaker than the ground): L layers, non-negative strengths, totals, moments"""
    from aotools.turbulence import profile_compression as pc
    o = Out()
    h = numpy.linspace(0., 20000., 100)
    for bump in (0.0, 0.3):
        cn2 = 1e-13 * numpy.exp(-h / p["H"]) + bump * 1e-14 * numpy.exp(-((h - 11000.) / 1200.) ** 2)
        for L in (2, 3, 5, 6, 8):
            sub = "bump=%g:L=%d" % (bump, L)
            hL, cL = pc.GCTM(h.copy(), cn2.copy(), L)
            hL, cL = numpy.asarray(hL, float), numpy.asarray(cL, float)
            o.stat("lib_calls", 3)
            o.check("gctm_exactly_L_layers", hL.shape == (L,) and cL.shape == (L,), sub=sub)
            o.check("gctm_strengths_non_negative", bool(numpy.all(cL >= 0)) and bool(numpy.all(hL >= 0)), sub=sub,
                    detail={"cn2": cL, "h": hL})
            if L in (2, 3, 5) and bump == 0.0:
                # the optional scalings are a numerical device: with any sensible choice the returned layers
                # reproduce the moments of the input profile (in whatever units they are measured)
                for hs, cs in ((2e4, 1e-13), (1.5e4, 5e-14), (1e4, 1e-14), (1e4, 1e-12), (3e4, 3e-13)):   # (scaled heights <= 2: larger ones make the high moments ill-conditioned for any optimiser)
                    for form in ("kw", "pos"):
                        if form == "kw":
                            hS, cS = pc.GCTM(h.copy(), cn2.copy(), L, h_scaling=hs, cn2_scaling=cs)
                        else:
                            hS, cS = pc.GCTM(h.copy(), cn2.copy(), L, hs, cs)
                        hS, cS = numpy.asarray(hS, float), numpy.asarray(cS, float)
                        o.stat("lib_calls", 1)
                        m0 = ref.moments(h / hs, cn2 / cs, L)
                        m1 = ref.moments(hS / hs, cS / cs, L)
                        ok_shape = hS.shape == (L,) and cS.shape == (L,)
                        o.close("gctm_moments_reproduced_with_other_scalings",
                                float(numpy.linalg.norm(m1 - m0) / numpy.linalg.norm(m0)) if ok_shape else float("inf"), GCTM_TOL,
                                sub="%s:h_scaling=%g:cn2_scaling=%g:%s" % (sub, hs, cs, form))
            he, ce = pc.equivalent_layers(h.copy(), cn2.copy(), L)
            he, ce = numpy.asarray(he, float), numpy.asarray(ce, float)
            tot = cn2.sum()
            o.check("el_exactly_L_layers", he.shape == (L,) and ce.shape == (L,), sub=sub)
            o.check("el_strengths_non_negative", bool(numpy.all(ce >= 0)), sub=sub)
            o.close("el_total_cn2_conserved", abs(ce.sum() - tot) / tot, 1e-12, sub=sub)
            m_in = float((cn2 * h ** (5. / 3)).sum())
            o.close("el_height_moment_conserved", abs(float((ce * he ** (5. / 3)).sum()) - m_in) / m_in, 1e-10, sub=sub)
            numpy.random.seed(L)
            ho, co = pc.optimal_grouping(1, L, h.copy(), cn2.copy())
            ho, co = numpy.asarray(ho, float), numpy.asarray(co, float)
            o.check("og_exactly_L_layers", ho.shape == (L,) and co.shape == (L,), sub=sub)
            o.close("og_total_cn2_conserved", abs(co.sum() - tot) / tot, 1e-12, sub=sub)
            o.check("og_strengths_non_negative", bool(numpy.all(co >= 0)), sub=sub)
            o.check("og_heights_are_input_heights", all(any(x == y for y in h) for x in ho), sub=sub)
            o.check("og_heights_increasing", bool(numpy.all(numpy.diff(ho) > 0)) if L > 1 else True, sub=sub)
    return o
