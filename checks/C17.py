"""C17 Atmospheric and photometric conversions are mutually inverse and scale right.

E1: complete products of log-spaced ladders (r0, integrated Cn2, seeing, wavelength incl. the
default, heights, wind speeds, magnitudes -5..25, all twelve bands, every 0/1 mask of a 2x3
pupil, pixel scales, exposure times, profile arrays of rank 1-3 with every axis length in
{1,2,3} and EVERY axis value) are pushed through the real converters.  Oracles are the
clauses of the property: inverse pairs compose to the identity, composites equal the
compositions, exact power laws between ladder points, 5 mag = x100, linearity in area and
time, single-layer reductions to 0.314 r0/h and 0.314 r0/v, axis argument == explicit loops
over 1-D profiles, slope-variance <-> r0 on synthetic slopes with exactly known variance.
"""
import itertools
import math

import numpy

from mc import Out, Case
from mc.refmodels import conversions as ref

PROPERTY = "C17"
LEVEL = "exploration"
ISOLATE_CASES = True     # each case in its own pristine process: verdicts cannot depend on which case ran before
ENGINES = ["E1-product-enumeration"]
TECHNIQUE = ("bounded exhaustive enumeration of ladder products (values x wavelengths x bands x masks x "
             "array shapes x axes) through every converter; algebraic identities between the results")
RULE = ("cases = inv:{pair x wavelength} + law:{function} + mag:{band} + phot:{band} + photmag + "
        "layer:{wavelength} + axis:{function x shape} + slopes:{wavelength}; every case loops over the full "
        "value ladders; non-trivial unless the integration axis has length 1 and rank 1")
ASSUMPTIONS = [
    "values between ladder points are not covered; exact power laws are verified as exact relations "
    "between all ladder points so the lattice result extends along each scaling direction",
    "tolerance 1e-12 relative for identities (measured <= 1e-15); 2.5e-3 for the single-layer reductions: the "
    "published constants 0.0581 and 0.423 give the coefficient 0.31463, i.e. 1.997e-3 from the quoted 0.314, so the "
    "design value 2e-3 was widened to 2.5e-3 to keep a margin (smallest planted constant error: 1e-2)",
    "flux_to_magnitude returns a Python float, so the photometric inverse pair is decided on scalars; "
    "magnitude_to_flux is also run on arrays",
    "profile arrays: rank <= 3, axis lengths <= 3 (thorough: <= 4, plus rank 4 with lengths <= 2; every shape, every "
    "axis incl. negative and the default), cn2 and the "
    "height/velocity array of identical shape, plus a 1-D height/velocity vector broadcast along the last axis",
]

TOL = 1e-12
TOL_LAYER = 2.5e-3

LAMBDAS = [350e-9, 500e-9, 589e-9, 800e-9, 1.25e-6, 1.65e-6, 2.2e-6, 3.5e-6, 10e-6]
R0S = [0.01, 0.03, 0.05, 0.1, 0.15, 0.2, 0.5, 1.0, 3.0]
CN2S = [1e-15, 3e-15, 1e-14, 5e-14, 1e-13, 3e-13, 1e-12, 5e-12, 1e-11]
SEEINGS = [0.1, 0.2, 0.4, 0.65, 0.8, 1.0, 1.5, 2.5, 5.0]
HEIGHTS = [1.0, 30.0, 100.0, 500.0, 2000.0, 5000.0, 10000.0, 15000.0, 25000.0]
WINDS = [0.5, 1.0, 3.0, 5.0, 10.0, 15.0, 25.0, 40.0, 70.0]
MAGS = [-5.0 + 2.5 * k for k in range(13)]
BANDS = ["U", "B", "V", "R", "I", "J", "H", "K", "g", "r", "i", "z"]
PIXEL_SCALES = [0.01, 0.05, 0.125, 0.5, 1.0, 2.0]
EXPOSURES = [1e-4, 1e-3, 0.002, 0.01, 0.1, 1.0, 30.0]
WVLBANDS = [1.0, 10.0, 50.0, 100.0, 300.0]
SUBAP_DIAMS = [0.05, 0.1, 0.2, 0.5, 1.0, 4.2]
PAIRS = ["cn2_r0", "r0_seeing", "cn2_seeing"]
AXIS_FUNCS = ["coherenceTime", "isoplanaticAngle", "rytov_variance"]


_QUICK_LADDERS = None


def _geom(lo, hi, n):
    return [float(lo * (hi / lo) ** (k / (n - 1.0))) for k in range(n)]


def _setup_ladders(tier):
    """thorough: every ladder becomes its 9 hand-picked values plus 24 geometrically spaced ones over a wider range"""
    global _QUICK_LADDERS, R0S, CN2S, SEEINGS, HEIGHTS, WINDS, MAGS
    if _QUICK_LADDERS is None:
        _QUICK_LADDERS = (R0S, CN2S, SEEINGS, HEIGHTS, WINDS, MAGS)
    R0S, CN2S, SEEINGS, HEIGHTS, WINDS, MAGS = _QUICK_LADDERS
    if tier == "thorough":
        R0S = R0S + _geom(0.002, 20.0, 24)
        CN2S = CN2S + _geom(1e-17, 1e-9, 24)
        SEEINGS = SEEINGS + _geom(0.01, 30.0, 24)
        HEIGHTS = HEIGHTS + _geom(0.1, 90000.0, 24)
        WINDS = WINDS + _geom(0.01, 300.0, 24)
        MAGS = [-15.0 + 2.5 * k for k in range(21)]        # same 2.5 mag step (the factor clauses step by index)


def _shapes(tier):
    out = []
    top = 3 if tier == "quick" else 5
    for rank in (1, 2, 3):
        out.extend(itertools.product(range(1, top + 1), repeat=rank))
    if tier == "thorough":
        out.extend(itertools.product((1, 2, 3), repeat=4))
    # long profiles / many profiles (sizes where a block-wise or pairwise reduction behaves differently)
    out.extend([(300,), (130, 2), (2, 130), (65, 3, 2), (2, 3, 257)])
    return out


def _lams(tier):
    return LAMBDAS if tier == "thorough" else LAMBDAS[::2] + [LAMBDAS[1]]


def BOUNDS(tier):
    return {"wavelengths": sorted(_lams(tier)) + ["default"], "r0": R0S, "cn2": CN2S, "seeing": SEEINGS, "heights": HEIGHTS,
            "winds": WINDS, "magnitudes": MAGS, "bands": BANDS, "masks": "all 64 binary masks of a 2x3 grid",
            "pixel_scales": PIXEL_SCALES, "exposures": EXPOSURES, "wvlBands": WVLBANDS,
            "profile_shapes": "all shapes of rank 1..3 with axis lengths 1..%d%s (%d shapes incl. 5 long ones: 300 layers, 130 / 257 profiles), every axis in -rank..rank-1"
            % (3 if tier == "quick" else 4, "" if tier == "quick" else " and of rank 4 with lengths 1..2", len(_shapes(tier))), "subap_diameters": SUBAP_DIAMS}


def cases(tier):
    for pair in PAIRS:
        for lam in sorted(_lams(tier)) + [None]:
            yield Case("inv:%s:lam=%s" % (pair, "default" if lam is None else "%g" % lam),
                       {"kind": "inv", "pair": pair, "lam": lam})
    for fn in ("cn2_to_r0", "r0_to_cn2", "r0_to_seeing", "seeing_to_r0", "cn2_to_seeing", "seeing_to_cn2",
               "slope_variance_from_r0", "coherenceTime", "isoplanaticAngle", "rytov_variance"):
        yield Case("law:%s" % fn, {"kind": "law", "fn": fn, "tier": tier})
    for b in BANDS:
        yield Case("mag:band=%s" % b, {"kind": "mag", "band": b})
        yield Case("phot:band=%s" % b, {"kind": "phot", "band": b})
    yield Case("photmag", {"kind": "photmag"})
    for b in BANDS:
        yield Case("bandhist:first=%s" % b, {"kind": "bandhist", "first": b})
    for lam in sorted(_lams(tier)) + [None]:
        yield Case("layer:lam=%s" % ("default" if lam is None else "%g" % lam), {"kind": "layer", "lam": lam})
        yield Case("slopes:lam=%s" % ("default500" if lam is None else "%g" % lam),
                   {"kind": "slopes", "lam": 500e-9 if lam is None else lam})
    yield Case("caller_owned_profiles", {"kind": "reuse"})
    for fn in AXIS_FUNCS:
        for sh in _shapes(tier):
            yield Case("axis:%s:shape=%s" % (fn, "x".join(map(str, sh))),
                       {"kind": "axis", "fn": fn, "shape": sh}, not (len(sh) == 1 and sh[0] == 1))


def _ac():
    from aotools.turbulence import atmos_conversions
    return atmos_conversions


def _rel(a, b):
    a = numpy.asarray(a, dtype=float)
    b = numpy.asarray(b, dtype=float)
    with numpy.errstate(all="ignore"):
        r = numpy.abs(a - b) / numpy.abs(b)
    r = numpy.where(numpy.isfinite(r), r, numpy.inf)
    return float(numpy.max(r)) if r.size else 0.0


# ----------------------------------------------------------------------------- call histories over the bands
# (added after a seeded change cached zero points under waveband.upper(): only a history that uses both members
#  of a case-differing band pair - R then r, I then i - in one process showed it)

_BAND_TABLE = None


def _band_values(band):
    a = _astro()
    return (float(a.magnitude_to_flux(7.5, band)), float(a.flux_to_magnitude(2.0e5, band)),
            float(a.photons_per_band(7.5, numpy.ones((2, 2)), 0.5, 0.02, band)))


def setup(tier):
    """per-band reference values, each computed in its own pristine forked process"""
    global _BAND_TABLE
    _setup_ladders(tier)
    from mc.isolate import isolated_map
    _BAND_TABLE = dict(zip(BANDS, isolated_map(_band_values, [(b,) for b in BANDS])))


def _bandhist(p):
    """every ordered pair (b1, b2) of bands: all three band-dependent functions for b1, then for b2, in one
    process (which has also served every earlier pair): every value must equal the pristine per-band value"""
    o = Out()
    b1 = p["first"]
    for b2 in BANDS:
        for b in (b1, b2, b1):
            got = _band_values(b)
            o.stat("lib_calls", 3)
            for name, g, w in zip(("magnitude_to_flux", "flux_to_magnitude", "photons_per_band"), got, _BAND_TABLE[b]):
                o.check("band_result_independent_of_history", g == w, sub="%s:%s:after=%s,%s" % (name, b, b1, b2),
                        detail={"got": g, "pristine": w})
    o.stat("nontrivial", len(BANDS))
    return o


def evaluate(p):
    if p["kind"] == "bandhist":
        return _bandhist(p)
    return {"inv": _inv, "law": _law, "mag": _mag, "phot": _phot, "photmag": _photmag, "layer": _layer,
            "slopes": _slopes, "axis": _axis, "reuse": _reuse}[p["kind"]](p)


def _kw(lam):
    return {} if lam is None else {"lamda": lam}


def _inv(p):
    o = Out()
    ac = _ac()
    kw = _kw(p["lam"])
    lam = 500e-9 if p["lam"] is None else p["lam"]
    fwd, bwd, xs, ys = {
        "cn2_r0": (ac.cn2_to_r0, ac.r0_to_cn2, CN2S, R0S),
        "r0_seeing": (ac.r0_to_seeing, ac.seeing_to_r0, R0S, SEEINGS),
        "cn2_seeing": (ac.cn2_to_seeing, ac.seeing_to_cn2, CN2S, SEEINGS)}[p["pair"]]
    w1 = w2 = 0.0
    for x in xs:
        w1 = max(w1, _rel(bwd(fwd(x, **kw), **kw), x))
    for y in ys:
        w2 = max(w2, _rel(fwd(bwd(y, **kw), **kw), y))
    o.stat("lib_calls", 2 * (len(xs) + len(ys)))
    o.close("inverse_pair", w1, TOL, sub="bwd(fwd(x))", detail="%s then %s" % (fwd.__name__, bwd.__name__))
    o.close("inverse_pair", w2, TOL, sub="fwd(bwd(y))", detail="%s then %s" % (bwd.__name__, fwd.__name__))
    # arrays: elementwise the same numbers as scalars, and the same inverse identity
    for vals, f, g in ((xs, fwd, bwd), (ys, bwd, fwd)):
        a1 = numpy.array(vals)
        a2 = numpy.array([vals, vals[::-1]])
        s = numpy.array([float(f(v, **kw)) for v in vals])
        y1 = numpy.asarray(f(a1.copy(), **kw))
        y2 = numpy.asarray(f(a2.copy(), **kw))
        o.stat("lib_calls", len(vals) + 2)
        ok = y1.shape == a1.shape and y2.shape == a2.shape
        o.check("array_elementwise", ok, sub=f.__name__, detail="shapes %s %s" % (y1.shape, y2.shape))
        if ok:
            o.close("array_elementwise", max(_rel(y1, s), _rel(y2, numpy.array([s, s[::-1]]))), TOL, sub=f.__name__)
            o.close("inverse_pair", _rel(g(f(a2.copy(), **kw), **kw), a2), TOL, sub="arrays:" + f.__name__)
            o.stat("lib_calls", 2)
    # the default wavelength is 500 nm
    if p["lam"] is None:
        d = max(_rel(fwd(x), fwd(x, lamda=500e-9)) for x in xs)
        d = max(d, max(_rel(bwd(y), bwd(y, lamda=500e-9)) for y in ys))
        o.stat("lib_calls", 2 * (len(xs) + len(ys)))
        o.close("default_wavelength_500nm", d, 0.0)
    # composites equal the compositions of the elementary converters
    if p["pair"] == "cn2_seeing":
        c1 = max(_rel(ac.cn2_to_seeing(x, **kw), ac.r0_to_seeing(ac.cn2_to_r0(x, **kw), **kw)) for x in xs)
        c2 = max(_rel(ac.seeing_to_cn2(y, **kw), ac.r0_to_cn2(ac.seeing_to_r0(y, **kw), **kw)) for y in ys)
        o.stat("lib_calls", 3 * (len(xs) + len(ys)))
        o.close("composite_is_composition", c1, TOL, sub="cn2_to_seeing")
        o.close("composite_is_composition", c2, TOL, sub="seeing_to_cn2")
        # and are consistent with going through the elementary inverse in the other direction
        c3 = max(_rel(ac.r0_to_cn2(ac.seeing_to_r0(ac.cn2_to_seeing(x, **kw), **kw), **kw), x) for x in xs)
        o.stat("lib_calls", 3 * len(xs))
        o.close("composite_is_composition", c3, TOL, sub="mixed_round_trip")
    o.outcome([p["pair"], lam, [float(fwd(x, **kw)) for x in xs[:3]]])
    return o


def _law(p):
    """exact power laws between all ladder points (ratios against the first point)"""
    o = Out()
    ac = _ac()
    fn = p["fn"]
    lams = sorted(_lams(p["tier"]))
    f = getattr(ac, fn)

    def grid(values, expo_v, expo_l, call):
        base = float(call(values[0], lams[0]))
        worst = 0.0
        for v in values:
            for lam in lams:
                want = base * (v / values[0]) ** expo_v * (lam / lams[0]) ** expo_l
                worst = max(worst, _rel(call(v, lam), want))
        o.stat("lib_calls", len(values) * len(lams))
        return worst
    if fn == "cn2_to_r0":
        o.close("power_law", grid(CN2S, -3.0 / 5.0, 6.0 / 5.0, lambda v, l: f(v, l)), TOL, sub="r0~lambda^(6/5) cn2^(-3/5)")
    elif fn == "r0_to_cn2":
        o.close("power_law", grid(R0S, -5.0 / 3.0, 2.0, lambda v, l: f(v, l)), TOL, sub="cn2~lambda^2 r0^(-5/3)")
    elif fn == "r0_to_seeing":
        o.close("power_law", grid(R0S, -1.0, 1.0, lambda v, l: f(v, l)), TOL, sub="seeing~lambda/r0")
    elif fn == "seeing_to_r0":
        o.close("power_law", grid(SEEINGS, -1.0, 1.0, lambda v, l: f(v, l)), TOL, sub="r0~lambda/seeing")
    elif fn == "cn2_to_seeing":
        o.close("power_law", grid(CN2S, 3.0 / 5.0, -1.0 / 5.0, lambda v, l: f(v, l)), TOL, sub="seeing~lambda^(-1/5) cn2^(3/5)")
    elif fn == "seeing_to_cn2":
        o.close("power_law", grid(SEEINGS, 5.0 / 3.0, 1.0 / 3.0, lambda v, l: f(v, l)), TOL, sub="cn2~lambda^(1/3) seeing^(5/3)")
    elif fn == "slope_variance_from_r0":
        for d in SUBAP_DIAMS:
            w = grid(R0S, -5.0 / 3.0, 2.0, lambda v, l: f(v, l, d))
            o.close("power_law", w, TOL, sub="var~lambda^2 r0^(-5/3)")
        base = float(f(R0S[0], lams[0], SUBAP_DIAMS[0]))
        w = max(_rel(f(R0S[0], lams[0], d), base * (d / SUBAP_DIAMS[0]) ** (-1.0 / 3.0)) for d in SUBAP_DIAMS)
        o.close("power_law", w, TOL, sub="var~d^(-1/3)")
        w = max(_rel(f(r, l, d), ref.slope_variance(r, l, d)) for r in R0S for l in lams for d in SUBAP_DIAMS)
        o.stat("lib_calls", len(SUBAP_DIAMS) * (1 + len(R0S) * len(lams)))
        o.close("slope_variance_law", w, TOL, detail="0.162 lambda^2 r0^(-5/3) d^(-1/3)")
    else:
        # profile integrals, single layer: tau0, theta0 ~ lambda^(6/5) cn2^(-3/5) w^(-1); rytov ~ k^(7/6) cn2 h^(5/6)
        second = WINDS if fn == "coherenceTime" else HEIGHTS
        ev, ew, el = (1.0, 5.0 / 6.0, -7.0 / 6.0) if fn == "rytov_variance" else (-3.0 / 5.0, -1.0, 6.0 / 5.0)
        call = lambda c, w, l: float(f(numpy.array([c]), numpy.array([w]), l))
        base = call(CN2S[0], second[0], lams[0])
        worst = 0.0
        for c in CN2S:
            for w in second:
                for l in lams:
                    want = base * (c / CN2S[0]) ** ev * (w / second[0]) ** ew * (l / lams[0]) ** el
                    worst = max(worst, _rel(call(c, w, l), want))
        o.stat("lib_calls", len(CN2S) * len(second) * len(lams))
        o.close("power_law", worst, TOL, sub="single layer")
        d = max(_rel(float(f(numpy.array([c]), numpy.array([second[3]]))),
                     float(f(numpy.array([c]), numpy.array([second[3]]), 500e-9))) for c in CN2S)
        o.close("default_wavelength_500nm", d, 0.0)
    o.outcome([fn])
    return o


def _astro():
    import aotools.astronomy as a
    return a


def _mag(p):
    o = Out()
    a = _astro()
    b = p["band"]
    fl = [float(a.magnitude_to_flux(m, b)) for m in MAGS]
    o.stat("lib_calls", len(MAGS))
    o.check("flux_positive_finite", all(math.isfinite(x) and x > 0 for x in fl))
    back = [a.flux_to_magnitude(x, b) for x in fl]
    o.stat("lib_calls", len(MAGS))
    o.close("mag_flux_inverse", max(abs(m2 - m) / max(1.0, abs(m)) for m, m2 in zip(MAGS, back)), TOL, sub="mag->flux->mag")
    fluxes = [1e-3, 1.0, 37.0, 1e4, 2.5e8, 1e12]
    w = max(_rel(a.magnitude_to_flux(a.flux_to_magnitude(x, b), b), x) for x in fluxes)
    o.stat("lib_calls", 2 * len(fluxes))
    o.close("mag_flux_inverse", w, 1e-11, sub="flux->mag->flux")
    # five magnitudes are a factor 100 in flux (every pair of ladder points 5 mag apart), 2.5 mag = factor 10
    w5 = max(_rel(fl[i] / fl[i + 2], 100.0) for i in range(len(MAGS) - 2))
    w25 = max(_rel(fl[i] / fl[i + 1], 10.0) for i in range(len(MAGS) - 1))
    o.close("five_mag_factor_100", w5, TOL)
    o.close("five_mag_factor_100", w25, TOL, sub="2.5mag=x10")
    w = max(abs(a.flux_to_magnitude(x, b) - a.flux_to_magnitude(100.0 * x, b) - 5.0) for x in fluxes)
    o.stat("lib_calls", 2 * len(fluxes))
    o.close("five_mag_factor_100", w, 1e-11, sub="flux_to_magnitude")
    # arrays of magnitudes
    arr = numpy.asarray(a.magnitude_to_flux(numpy.array(MAGS), b))
    arr2 = numpy.asarray(a.magnitude_to_flux(numpy.array([MAGS, MAGS[::-1]]), b))
    o.stat("lib_calls", 2)
    ok = arr.shape == (len(MAGS),) and arr2.shape == (2, len(MAGS))
    o.check("array_elementwise", ok, detail="shapes %s %s" % (arr.shape, arr2.shape))
    if ok:
        o.close("array_elementwise", max(_rel(arr, fl), _rel(arr2, numpy.array([fl, fl[::-1]]))), TOL)
    # default band is V
    if b == "V":
        o.close("default_band_V", max(_rel(a.magnitude_to_flux(m), a.magnitude_to_flux(m, "V")) for m in MAGS), 0.0)
        o.close("default_band_V", max(abs(a.flux_to_magnitude(x) - a.flux_to_magnitude(x, "V")) for x in fluxes), 0.0,
                sub="flux_to_magnitude")
    o.outcome([b, fl[2]])
    return o


def _masks():
    for bits in itertools.product((0, 1), repeat=6):
        yield numpy.array(bits, dtype=float).reshape(2, 3)


def _phot(p):
    """photons_per_band == flux x exposure x area, linear in area and time, 5 mag = x100"""
    o = Out()
    a = _astro()
    b = p["band"]
    worst = wlin = w5 = 0.0
    n = 0
    unit = {m: a.photons_per_band(m, numpy.ones((1, 1)), 1.0, 1.0, b) for m in MAGS}
    for m in MAGS:
        fl = float(a.magnitude_to_flux(m, b))
        worst = max(worst, _rel(unit[m], fl))
    for mask in _masks():
        area_px = mask.sum()
        for ps in PIXEL_SCALES:
            for t in EXPOSURES:
                for m in (MAGS[0], MAGS[4], MAGS[-1]):
                    got = a.photons_per_band(m, mask.copy(), ps, t, b)
                    n += 1
                    if not isinstance(got, float):
                        o.check("photons_is_float", False, detail=repr(type(got)))
                    want = unit[m] * area_px * ps * ps * t
                    if want == 0.0:
                        wlin = max(wlin, abs(got))
                    else:
                        wlin = max(wlin, _rel(got, want))
    for m in MAGS[:-2]:
        w5 = max(w5, _rel(unit[m] / unit[m + 5.0], 100.0))
    o.stat("lib_calls", n + 2 * len(MAGS))
    o.close("composite_is_composition", worst, TOL, sub="photons_per_band=flux*t*area")
    o.close("photons_linear_in_area_time", wlin, TOL)
    o.close("five_mag_factor_100", w5, TOL, sub="photons_per_band")
    if b == "V":
        o.close("default_band_V", max(_rel(a.photons_per_band(m, numpy.ones((2, 2)), 0.5, 0.1),
                                           a.photons_per_band(m, numpy.ones((2, 2)), 0.5, 0.1, "V")) for m in MAGS), 0.0)
    o.outcome([b, unit[0.0]])
    return o


def _photmag(p):
    """photons_per_mag: proportional to area, band width and exposure time; 5 mag = x100"""
    o = Out()
    a = _astro()
    unit = {m: a.photons_per_mag(m, numpy.ones((1, 1)), 1.0, 1.0, 1.0) for m in MAGS}
    wlin = 0.0
    n = len(MAGS)
    for mask in _masks():
        for ps in PIXEL_SCALES:
            for t in EXPOSURES:
                for wb in WVLBANDS:
                    for m in (MAGS[0], MAGS[5], MAGS[-1]):
                        got = a.photons_per_mag(m, mask.copy(), ps, wb, t)
                        n += 1
                        want = unit[m] * mask.sum() * ps * ps * wb * t
                        wlin = max(wlin, abs(got) if want == 0.0 else _rel(got, want))
    o.stat("lib_calls", n)
    o.close("photons_linear_in_area_time", wlin, TOL, sub="photons_per_mag")
    o.close("five_mag_factor_100", max(_rel(unit[m] / unit[m + 5.0], 100.0) for m in MAGS[:-2]), TOL, sub="photons_per_mag")
    o.outcome([unit[0.0]])
    return o


def _layer(p):
    """single layer: theta0 = 0.314 r0/h, tau0 = 0.314 r0/v with r0 from the same Cn2"""
    o = Out()
    ac = _ac()
    kw = _kw(p["lam"])
    w_iso = w_tau = w_ref_i = w_ref_t = 0.0
    lam = 500e-9 if p["lam"] is None else p["lam"]
    for c in CN2S:
        r0 = float(ac.cn2_to_r0(c, **kw))
        for h in HEIGHTS:
            got = float(ac.isoplanaticAngle(numpy.array([c]), numpy.array([h]), **kw))
            w_iso = max(w_iso, _rel(got, 0.314 * r0 / h * ref.ARCSEC))
            w_ref_i = max(w_ref_i, _rel(got, ref.isoplanatic_angle([c], [h], lam)))
        for v in WINDS:
            got = float(ac.coherenceTime(numpy.array([c]), numpy.array([v]), **kw))
            w_tau = max(w_tau, _rel(got, 0.314 * r0 / v))
            w_ref_t = max(w_ref_t, _rel(got, ref.coherence_time([c], [v], lam)))
    o.stat("lib_calls", len(CN2S) * (1 + len(HEIGHTS) + len(WINDS)))
    o.close("single_layer_isoplanatic_0.314_r0_over_h", w_iso, TOL_LAYER)
    o.close("single_layer_coherence_0.314_r0_over_v", w_tau, TOL_LAYER)
    o.close("single_layer_textbook_2.914", max(w_ref_i, w_ref_t), TOL_LAYER,
            detail="[2.914 k^2 cn2 w^(5/3)]^(-3/5)")
    o.outcome([lam, w_iso])
    return o


def _slopes(p):
    """slope variance <-> r0: slope_variance_from_r0 and r0_from_slopes are inverse on synthetic
    slopes whose variance along the frame axis is known exactly"""
    o = Out()
    ac = _ac()
    lam = p["lam"]
    patterns = {"pm": [1.0, -1.0], "pm4": [1.0, -1.0, -1.0, 1.0], "tri": [-1.0, 0.0, 1.0],
                "six": [2.0, -1.0, 0.0, 1.0, -2.0, 0.0], "offset": [4.0, 2.0, 4.0, 2.0]}
    worst = 0.0
    n = 0
    for d in SUBAP_DIAMS:
        for r0 in R0S:
            var = float(ac.slope_variance_from_r0(r0, lam, d))
            for name, pat in patterns.items():
                pv = ref.population_variance(pat)
                amp = math.sqrt(var / pv)
                for nsub in (1, 2, 3):
                    for reps in (1, 3):
                        frames = numpy.array(pat * reps) * amp
                        sl = numpy.empty((2, nsub, len(frames)))
                        for a_ in range(2):
                            for s in range(nsub):
                                # circular shifts and a per-sub-aperture offset keep the variance
                                sl[a_, s] = numpy.roll(frames, a_ + s) + 0.1 * amp * (s - a_)
                        got = float(ac.r0_from_slopes(sl, lam, d))
                        n += 2
                        worst = max(worst, _rel(got, r0))
    o.stat("lib_calls", n)
    o.close("slope_variance_r0_inverse", worst, 1e-11)
    # long records (thousands of frames) that are NOT periodic: a drifting ramp k - mean has the population variance
    # (n^2 - 1) / 12 exactly, a ramp plus an alternating term adds 1 exactly (n even) - a variance taken block by
    # block would lose the spread of the block means
    worst_long, m = 0.0, 0
    for nfr in (130, 1000, 4098, 8194, 20000, 70002):
        k = numpy.arange(nfr, dtype=float)
        for name, frames, pv in (("ramp", k - k.mean(), (nfr * nfr - 1) / 12.0),
                                 ("ramp+alt", (k - k.mean()) + (-1.0) ** k, None)):
            if name == "ramp+alt":
                pv = float(numpy.mean((frames - frames.mean()) ** 2))     # float64 mean of exact values (reference model arithmetic)
            for d, r0 in ((SUBAP_DIAMS[1], R0S[3]), (SUBAP_DIAMS[4], R0S[6])):
                var = float(ac.slope_variance_from_r0(r0, lam, d))
                amp = math.sqrt(var / pv)
                sl = numpy.empty((2, 2, nfr))
                for a_ in range(2):
                    for s in range(2):
                        sl[a_, s] = (frames if (a_ + s) % 2 == 0 else -frames[::-1]) * amp + 0.3 * amp * (s - a_)
                got = float(ac.r0_from_slopes(sl, lam, d))
                m += 1
                worst_long = max(worst_long, _rel(got, r0))
    o.stat("lib_calls", m)
    o.close("slope_variance_r0_inverse_long_records", worst_long, 1e-9)
    o.outcome([lam, worst < 1e-11])
    return o


def _reuse(p):
    """call histories on caller-owned float64 profile arrays (the same h / v / Cn2 array handed to one function after
    the other, and again after the caller edited it in place), for every profile function and the conversions"""
    from mc import variants
    o = Out()
    ac = _ac()
    cn2 = numpy.array([5e-15, 2e-15, 1e-15, 3e-15, 1e-15])
    h = numpy.array([100., 2000., 5000., 9000., 15000.])
    w = numpy.array([5., 10., 20., 30., 15.])
    st_c, st_h = numpy.array([cn2, cn2[::-1] * 2]), numpy.array([h, h + 250.])
    k = 0
    scale_ = lambda a: a.__imul__(1.5)
    for name, second in (("coherenceTime", w), ("isoplanaticAngle", h), ("rytov_variance", h)):
        f = getattr(ac, name)
        k += variants.check_reuse(o, "second_profile", lambda x: f(cn2.copy(), x, 800e-9), second, 1e-13, sub=name, mutate=scale_)
        k += variants.check_reuse(o, "cn2_profile", lambda x: f(x, second.copy(), 800e-9), cn2, 1e-13, sub=name, mutate=scale_)
        s2 = st_h if name != "coherenceTime" else numpy.array([w, w[::-1]])
        k += variants.check_reuse(o, "second_profile", lambda x: f(st_c.copy(), x, 800e-9, -1), s2, 1e-13, sub=name + ":stack", mutate=scale_)
    # whole-number altitudes / speeds handed over as integer arrays (an altitude grid in metres usually is), float32,
    # other memory layouts: the same values, the same result
    hi = numpy.array([0., 2000., 5000., 10000., 15000., 22000.])
    ci = numpy.array([5e-15, 2e-15, 1e-15, 3e-15, 1e-15, 4e-16])
    wi = numpy.array([5., 10., 20., 30., 15., 60.])
    for name, second in (("coherenceTime", wi), ("isoplanaticAngle", hi), ("rytov_variance", hi)):
        f = getattr(ac, name)
        k += variants.check_storage(o, "profile_independent_of_storage", lambda x: f(ci.copy(), x, 800e-9), second, 1e-12,
                                    sub=name, kinds=("int64", "int32", "uint16", "float32"))
        k += variants.check_storage(o, "profile_independent_of_storage", lambda x: f(numpy.array([ci, ci[::-1]]), x, 800e-9, -1),
                                    numpy.array([second, second[::-1]]), 1e-12, sub=name + ":stack", kinds=("int64", "float32"))
    # one array through a chain of different functions: every later result is what a pristine copy gives
    hh = h.copy()
    got = [float(ac.isoplanaticAngle(cn2, hh)), float(ac.rytov_variance(cn2, hh)), float(ac.isoplanaticAngle(cn2, hh))]
    want = [float(ac.isoplanaticAngle(cn2.copy(), h.copy())), float(ac.rytov_variance(cn2.copy(), h.copy())),
            float(ac.isoplanaticAngle(cn2.copy(), h.copy()))]
    o.close("chain_on_one_array_equals_pristine", _rel(got, want), 1e-13)
    for name in ("cn2_to_r0", "r0_to_cn2", "r0_to_seeing", "seeing_to_r0", "cn2_to_seeing", "seeing_to_cn2"):
        k += variants.check_reuse(o, "values", lambda x: getattr(ac, name)(x, 6e-7), numpy.array([0.1, 0.15, 0.2]), 1e-13,
                                  sub=name, mutate=scale_)
    o.stat("lib_calls", k + 6)
    return o


def _axis(p):
    """the axis argument gives the same numbers as looping over 1-D profiles"""
    o = Out()
    ac = _ac()
    fn, shape = p["fn"], tuple(p["shape"])
    f = getattr(ac, fn)
    refn = {"coherenceTime": ref.coherence_time, "isoplanaticAngle": ref.isoplanatic_angle, "rytov_variance": ref.rytov}[fn]
    n = int(numpy.prod(shape))
    rank = len(shape)
    idx = numpy.arange(n).reshape(shape)
    cn2 = 1e-15 * (1.0 + (idx * 7) % 11)                      # distinct, deterministic strengths
    ladder = WINDS if fn == "coherenceTime" else HEIGHTS
    w = numpy.array(ladder)[(idx * 5 + 2) % len(ladder)]      # same shape as cn2
    lam = 800e-9
    for axis in list(range(-rank, rank)) + ["default"]:
        ax = -1 if axis == "default" else axis
        got = numpy.asarray(f(cn2.copy(), w.copy(), lam) if axis == "default" else f(cn2.copy(), w.copy(), lam, axis))
        o.stat("lib_calls", 1)
        want_shape = tuple(s for i, s in enumerate(shape) if i != ax % rank)
        sub = "axis=%s" % axis
        if got.shape != want_shape:
            o.check("axis_equals_loop", False, sub=sub, detail="result shape %s, expected %s" % (got.shape, want_shape))
            continue
        c_m = numpy.moveaxis(cn2, ax, -1).reshape(-1, shape[ax % rank])
        w_m = numpy.moveaxis(w, ax, -1).reshape(-1, shape[ax % rank])
        loop = numpy.array([float(f(c_m[i].copy(), w_m[i].copy(), lam)) for i in range(c_m.shape[0])]).reshape(want_shape)
        o.stat("lib_calls", c_m.shape[0])
        o.close("axis_equals_loop", _rel(got, loop), TOL, sub=sub)
        # and the 1-D evaluation is the explicit sum of the definition (loop in the reference model)
        textbook = numpy.array([refn(c_m[i], w_m[i], lam) for i in range(c_m.shape[0])]).reshape(want_shape)
        o.close("profile_sum_definition", _rel(got, textbook), TOL_LAYER, sub=sub)
    # 1-D height / velocity vector shared by all profiles (broadcast along the last axis)
    w1 = numpy.array(ladder)[(numpy.arange(shape[-1]) * 5 + 2) % len(ladder)]
    got = numpy.asarray(f(cn2.copy(), w1.copy(), lam))
    c_m = cn2.reshape(-1, shape[-1])
    loop = numpy.array([float(f(c_m[i].copy(), w1.copy(), lam)) for i in range(c_m.shape[0])]).reshape(shape[:-1])
    o.stat("lib_calls", 1 + c_m.shape[0])
    if got.shape != shape[:-1]:
        o.check("axis_equals_loop", False, sub="shared_1d_vector", detail="result shape %s" % (got.shape,))
    else:
        o.close("axis_equals_loop", _rel(got, loop), TOL, sub="shared_1d_vector")
    o.outcome([fn, shape, numpy.round(numpy.asarray(f(cn2, w, lam)) / numpy.asarray(f(cn2, w, lam)).flat[0], 9)])
    return o


LEVEL_TEXT = ("All ladder products are enumerated completely: 9 values each of r0, integrated Cn2, seeing, heights and "
              "wind speeds x 6 (quick) / 10 (thorough) wavelengths incl. the default, 13 magnitudes x all 12 bands, all 64 "
              "masks of a 2x3 pupil x 6 pixel scales x 7 exposure times (x 5 band widths), 39 (quick) / 100 (thorough) "
              "profile-array shapes of rank 1-3 (thorough: 1-4) x every axis value, 5 slope patterns x 6 diameters x 9 r0; every inverse "
              "pair, composite, power law and reduction of the statement is evaluated on each point.")
LEVEL_NOTE = ("Trusted: IEEE arithmetic of pow/log10 and the reference formulas in mc/refmodels/conversions.py. Not "
              "covered: values between ladder points (extended only along exact power-law directions), profile arrays "
              "of rank > 3, absolute calibration of the band table (not part of the statement).")
