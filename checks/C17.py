"""C17 Atmospheric and photometric conversions are mutually inverse and scale right.

E1: complete products of log-spaced ladders (r0, integrated Cn2, seeing, wavelength incl. the
default, heights, wind speeds, magnitudes -5..25, all twelve bands, every 0/1 mask of a 2x3
pupil, pixel scales, exposure times, profile arrays of rank 1-3 with every axis length in
{1,2,3} and EVERY axis value) are pushed through the real converters.  Oracles are the
clauses of the property: inverse pairs compose to the identity, composites equal the
compositions, exact power laws between ladder points, 5 mag = x100, linearity in area and
time, single-layer reductions to 0.314 r0/h and 0.314 r0/v, axis argument == explicit loops
over 1-D profiles, slope-variance <-> r0 on synthetic slopes with exactly known variance.

Constants are anchored "to the rounding of the published constants" only (TOL_LAYER etc.); what no rounding explains
is decided at 1e-12 (library / textbook is ONE number for every profile, shape and axis).  Inputs the statement does
not quantify over (arrays handed to the scalar converters, integer / float32 / bool storage, a broadcast 1-D height
vector, numpy scalars as wavelength) are extensions: skipped with a *_not_claimed statistic when the library rejects
them with an exception, compared with the float64 / scalar result when it accepts them.
"""
import itertools
import math

import numpy

from mc import Out, Case
from mc.refmodels import conversions as ref

PROPERTY = "C17"
LEVEL = "exploration"
ISOLATE_CASES = True     # each case in its own pristine process: verdicts cannot depend on which case ran before
ENGINES = ["E1-product-enumeration"]
TECHNIQUE = ("bounded exhaustive enumeration of ladder products (values x wavelengths x bands x masks x "
             "array shapes x axes) through every converter; algebraic identities between the results")
RULE = ("cases = inv:{pair x wavelength} + law:{function} + mag:{band} + phot:{band} + photmag + bandhist:{band} + "
        "layer:{wavelength} + axis:{function x shape} + slopes:{wavelength} + zero_layers:{function} + caller_owned_"
        "{profiles, slopes, masks} + slopes_aggregation + calling_conventions; every case loops over the full "
        "value ladders; non-trivial unless the integration axis has length 1 and rank 1")
ASSUMPTIONS = [
    "values between ladder points are not covered; exact power laws are verified as exact relations "
    "between all ladder points so the lattice result extends along each scaling direction",
    "tolerance 1e-12 relative for identities (measured <= 1e-14). Single-layer reductions: the published constants "
    "0.0581 and 0.423 give the coefficient 0.31463, i.e. 1.997e-3 from the quoted 0.314 (a deterministic offset, no noise); "
    "the half-ulp roundings of the three quoted constants (0.0581: 8.6e-4, 0.423: 0.6 x 1.2e-3, 0.314: 1.6e-3) add up to "
    "3.2e-3, so 'to the rounding of the published constants' is decided at 6e-3 (3 x the measured offset; the exact "
    "constant 0.4234 instead of 0.423 measures 2.6e-3; smallest planted constant error: 1e-2). What the rounding cannot "
    "explain is decided sharply: the ratio theta0 h / r0 (tau0 v / r0) is ONE number for all Cn2, heights and speeds of a case "
    "(1e-12), and library / textbook-sum is ONE number per function for all profiles, shapes and axes (1e-12), that "
    "number being within 5e-3 of 1 (measured 1.58e-3 for 0.0581 vs (2.914 (2 pi)^2)^(-3/5); 0 for the Rytov constant)",
    "the numerical constants 0.98 (seeing), 0.423 (r0) and 0.162 (slope variance) are anchored only to their rounding "
    "(6e-3 / 3e-3 / 6e-3 against the reference formulas), the relations between the functions to 1e-12",
    "flux_to_magnitude returns a Python float, so the photometric inverse pair is decided on scalars. Array arguments "
    "to the scalar converters (magnitude_to_flux, the six Cn2 / r0 / seeing converters) are an EXTENSION of the statement: "
    "if the library raises on them or does not return the shape of the argument the sub-clauses are skipped "
    "(statistic array_elementwise_not_claimed / values_not_claimed); when it does accept them, the numbers must be those "
    "of the scalar calls",
    "profile arrays: rank <= 3, axis lengths <= 3 (thorough: <= 5, plus rank 4 with lengths <= 3; every shape, every "
    "axis incl. negative and the default), cn2 and the height/velocity array of identical shape. Extensions that are "
    "skipped (statistic *_not_claimed), not failed, when the library rejects the input with an exception: a 1-D "
    "height/velocity vector broadcast along the last axis, integer / float32 profile, slope and mask arrays, numpy "
    "scalars and 0-d arrays as wavelength",
    "r0_from_slopes: the oracle (not the statement) fixes the variance over the frames to the population variance "
    "(ddof = 0), as the library documents 'the variance of the given slopes'; how the sub-apertures and the two slope "
    "directions are combined is NOT fixed (all rows of the inverse-pair histories have the same variance; with unequal "
    "rows only symmetry under permutations and min <= result <= max of the per-row values are demanded)",
    "defaults (500 nm, band V) and results after other calls are compared to 1e-15 relative (4 ulp), not bit for bit",
]

TOL = 1e-12
# single-layer reductions to 0.314 r0/h, 0.314 r0/v: measured 1.99729e-3 on the unchanged library (deterministic:
# 0.0581 * 0.423^(3/5) * (2 pi)^(6/5) = 0.31463 against the quoted 0.314); budget of the three half-ulp roundings
# 3.2e-3; 6e-3 = 3 x measured, and the more accurate constant 0.4234 (2.914 / 6.884) measures 2.57e-3
TOL_LAYER = 6e-3
# library / textbook sum [2.914 k^2 sum cn2 w^(5/3)]^(-3/5): measured 1.580e-3 (0.0581 vs 0.05801), 3 x margin
TOL_TEXTBOOK = 5e-3
# 0.98 lambda / r0: half-ulp of the two-digit constant 5.1e-3, the more accurate 0.976 is 4.1e-3 away (measured 0)
TOL_SEEING_CONST = 6e-3
# r0 = [0.423 k^2 J]^(-3/5): half-ulp of 0.423 is 0.6 x 1.2e-3 = 7.1e-4 in r0; 0.4234 measures 5.7e-4 (measured 0)
TOL_R0_CONST = 3e-3
# 0.162 lambda^2 r0^(-5/3) d^(-1/3): half-ulp of 0.162 is 3.1e-3 (measured 0)
TOL_SLOPE_CONST = 6e-3
# "the same bits" (defaults, results after other calls) decided at 4 ulp
TOL_SAME = 1e-15

LAMBDAS = [350e-9, 500e-9, 589e-9, 800e-9, 1.25e-6, 1.65e-6, 2.2e-6, 3.5e-6, 10e-6]
R0S = [0.01, 0.03, 0.05, 0.1, 0.15, 0.2, 0.5, 1.0, 3.0]
CN2S = [1e-15, 3e-15, 1e-14, 5e-14, 1e-13, 3e-13, 1e-12, 5e-12, 1e-11]
SEEINGS = [0.1, 0.2, 0.4, 0.65, 0.8, 1.0, 1.5, 2.5, 5.0]
HEIGHTS = [1.0, 30.0, 100.0, 500.0, 2000.0, 5000.0, 10000.0, 15000.0, 25000.0]
WINDS = [0.5, 1.0, 3.0, 5.0, 10.0, 15.0, 25.0, 40.0, 70.0]
MAGS = [-5.0 + 2.5 * k for k in range(13)]
BANDS = ["U", "B", "V", "R", "I", "J", "H", "K", "g", "r", "i", "z"]
PIXEL_SCALES = [0.01, 0.05, 0.125, 0.5, 1.0, 2.0]
EXPOSURES = [1e-4, 1e-3, 0.002, 0.01, 0.1, 1.0, 30.0]
WVLBANDS = [1.0, 10.0, 50.0, 100.0, 300.0]
SUBAP_DIAMS = [0.05, 0.1, 0.2, 0.5, 1.0, 4.2]
PAIRS = ["cn2_r0", "r0_seeing", "cn2_seeing"]
AXIS_FUNCS = ["coherenceTime", "isoplanaticAngle", "rytov_variance"]


_QUICK_LADDERS = None


def _geom(lo, hi, n):
    return [float(lo * (hi / lo) ** (k / (n - 1.0))) for k in range(n)]


def _setup_ladders(tier):
    """thorough: every ladder becomes its 9 hand-picked values plus 24 geometrically spaced ones over a wider range"""
    global _QUICK_LADDERS, R0S, CN2S, SEEINGS, HEIGHTS, WINDS, MAGS
    if _QUICK_LADDERS is None:
        _QUICK_LADDERS = (R0S, CN2S, SEEINGS, HEIGHTS, WINDS, MAGS)
    R0S, CN2S, SEEINGS, HEIGHTS, WINDS, MAGS = _QUICK_LADDERS
    if tier == "thorough":
        R0S = R0S + _geom(0.002, 20.0, 24)
        CN2S = CN2S + _geom(1e-17, 1e-9, 24)
        SEEINGS = SEEINGS + _geom(0.01, 30.0, 24)
        HEIGHTS = HEIGHTS + _geom(0.1, 90000.0, 24)
        WINDS = WINDS + _geom(0.01, 300.0, 24)
        MAGS = [-15.0 + 2.5 * k for k in range(21)]        # same 2.5 mag step (the factor clauses step by index)


def _shapes(tier):
    out = []
    top = 3 if tier == "quick" else 5
    for rank in (1, 2, 3):
        out.extend(itertools.product(range(1, top + 1), repeat=rank))
    if tier == "thorough":
        out.extend(itertools.product((1, 2, 3), repeat=4))
    # long profiles / many profiles (sizes where a block-wise or pairwise reduction behaves differently)
    out.extend([(300,), (130, 2), (2, 130), (65, 3, 2), (2, 3, 257)])
    return out


def _lams(tier):
    return LAMBDAS if tier == "thorough" else LAMBDAS[::2] + [LAMBDAS[1]]


def BOUNDS(tier):
    return {"wavelengths": sorted(_lams(tier)) + ["default"], "r0": R0S, "cn2": CN2S, "seeing": SEEINGS, "heights": HEIGHTS,
            "winds": WINDS, "magnitudes": MAGS, "bands": BANDS, "masks": "all 64 binary masks of a 2x3 grid",
            "pixel_scales": PIXEL_SCALES, "exposures": EXPOSURES, "wvlBands": WVLBANDS,
            "profile_shapes": "all shapes of rank 1..3 with axis lengths 1..%d%s (%d shapes incl. 5 long ones: 300 layers, 130 / 257 profiles), every axis in -rank..rank-1"
            % (3 if tier == "quick" else 5, "" if tier == "quick" else " and of rank 4 with lengths 1..3", len(_shapes(tier))), "subap_diameters": SUBAP_DIAMS,
            "profiles_with_zero_layers": "lengths 2..6, 6 rotations of a 6-layer profile with two cn2 = 0 and two h (v) = 0 layers",
            "pupil_masks_large": "annular pupils in 6x9, 24x40, 96x128, 128x128 arrays as float64 / float32 / int64 / int32 / uint8 / bool",
            "slope_records": "2 x {1,2,3,5,12} sub-apertures x 2..280 frames (periodic patterns), 2 x 2 x {130..70002} frames (ramps)",
            "largest_sizes": "300 layers, 257 profiles, 128x128 mask, 70002 frames"}


def cases(tier):
    for pair in PAIRS:
        for lam in sorted(_lams(tier)) + [None]:
            yield Case("inv:%s:lam=%s" % (pair, "default" if lam is None else "%g" % lam),
                       {"kind": "inv", "pair": pair, "lam": lam})
    for fn in ("cn2_to_r0", "r0_to_cn2", "r0_to_seeing", "seeing_to_r0", "cn2_to_seeing", "seeing_to_cn2",
               "slope_variance_from_r0", "coherenceTime", "isoplanaticAngle", "rytov_variance"):
        yield Case("law:%s" % fn, {"kind": "law", "fn": fn, "tier": tier})
    for b in BANDS:
        yield Case("mag:band=%s" % b, {"kind": "mag", "band": b})
        yield Case("phot:band=%s" % b, {"kind": "phot", "band": b})
    yield Case("photmag", {"kind": "photmag"})
    for b in BANDS:
        yield Case("bandhist:first=%s" % b, {"kind": "bandhist", "first": b})
    for lam in sorted(_lams(tier)) + [None]:
        yield Case("layer:lam=%s" % ("default" if lam is None else "%g" % lam), {"kind": "layer", "lam": lam})
        yield Case("slopes:lam=%s" % ("default500" if lam is None else "%g" % lam),
                   {"kind": "slopes", "lam": 500e-9 if lam is None else lam})
    yield Case("caller_owned_profiles", {"kind": "reuse"})
    yield Case("caller_owned_slopes", {"kind": "slopes_reuse"})
    yield Case("slopes_aggregation", {"kind": "slopes_agg"})
    yield Case("caller_owned_masks", {"kind": "masks"})
    yield Case("calling_conventions", {"kind": "conv"})
    for fn in AXIS_FUNCS:
        yield Case("zero_layers:%s" % fn, {"kind": "zeros", "fn": fn})
    for fn in AXIS_FUNCS:
        for sh in _shapes(tier):
            yield Case("axis:%s:shape=%s" % (fn, "x".join(map(str, sh))),
                       {"kind": "axis", "fn": fn, "shape": sh}, not (len(sh) == 1 and sh[0] == 1))


def _ac():
    from aotools.turbulence import atmos_conversions
    return atmos_conversions


def _rel(a, b):
    a = numpy.asarray(a, dtype=float)
    b = numpy.asarray(b, dtype=float)
    with numpy.errstate(all="ignore"):
        r = numpy.abs(a - b) / numpy.abs(b)
    r = numpy.where(numpy.isfinite(r), r, numpy.inf)
    return float(numpy.max(r)) if r.size else 0.0


# ----------------------------------------------------------------------------- call histories over the bands
# (added after a seeded change cached zero points under waveband.upper(): only a history that uses both members
#  of a case-differing band pair - R then r, I then i - in one process showed it)

_BAND_TABLE = None


def _band_values(band):
    a = _astro()
    return (float(a.magnitude_to_flux(7.5, band)), float(a.flux_to_magnitude(2.0e5, band)),
            float(a.photons_per_band(7.5, numpy.ones((2, 2)), 0.5, 0.02, band)))


def setup(tier):
    """per-band reference values, each computed in its own pristine forked process"""
    global _BAND_TABLE
    _setup_ladders(tier)
    from mc.isolate import isolated_map
    _BAND_TABLE = dict(zip(BANDS, isolated_map(_band_values, [(b,) for b in BANDS])))


def _bandhist(p):
    """every ordered pair (b1, b2) of bands: all three band-dependent functions for b1, then for b2, in one
    process (which has also served every earlier pair): every value must equal the pristine per-band value"""
    o = Out()
    b1 = p["first"]
    for b2 in BANDS:
        for b in (b1, b2, b1):
            got = _band_values(b)
            o.stat("lib_calls", 3)
            for name, g, w in zip(("magnitude_to_flux", "flux_to_magnitude", "photons_per_band"), got, _BAND_TABLE[b]):
                # same function, same arguments: the same number (decided at 4 ulp, not bit for bit)
                o.check("band_result_independent_of_history", abs(g - w) <= TOL_SAME * max(1.0, abs(w)),
                        sub="%s:%s:after=%s,%s" % (name, b, b1, b2), detail={"got": g, "pristine": w})
    o.stat("nontrivial", len(BANDS))
    return o


def evaluate(p):
    if p["kind"] == "bandhist":
        return _bandhist(p)
    return {"inv": _inv, "law": _law, "mag": _mag, "phot": _phot, "photmag": _photmag, "layer": _layer,
            "slopes": _slopes, "axis": _axis, "reuse": _reuse, "slopes_reuse": _slopes_reuse, "slopes_agg": _slopes_agg,
            "masks": _mask_variants, "conv": _conventions, "zeros": _zeros}[p["kind"]](p)


def _accepts(o, key, call):
    """(True, value) when the library accepts an input that the statement does not quantify over (arrays handed to
    the scalar converters, other dtypes, a broadcast vector ...); (False, None) plus the statistic <key>_not_claimed
    when it rejects it with an exception - never a violation"""
    try:
        return True, call()
    except Exception as e:
        o.stat(key + "_not_claimed", 1)
        o.note(key + "_not_claimed", "%s: %s" % (type(e).__name__, str(e)[:120]))
        return False, None


def _guard_dtypes(o, key, f, base_value):
    """f for variants.check_storage: an exception on an input that is not float64 (integer, float32, bool storage
    of the same values - an extension of the statement) is recorded as <key>_not_claimed and answered with the
    float64 result; float64 inputs in another memory layout go to the library unguarded"""
    def g(arr):
        if numpy.asarray(arr).dtype == numpy.float64:
            return f(arr)
        try:
            return f(arr)
        except Exception as e:
            o.stat(key + "_not_claimed", 1)
            o.note(key + "_not_claimed", "%s %s: %s" % (numpy.asarray(arr).dtype, type(e).__name__, str(e)[:120]))
            return base_value
    return g


def _kw(lam):
    return {} if lam is None else {"lamda": lam}


def _inv(p):
    o = Out()
    ac = _ac()
    kw = _kw(p["lam"])
    lam = 500e-9 if p["lam"] is None else p["lam"]
    fwd, bwd, xs, ys = {
        "cn2_r0": (ac.cn2_to_r0, ac.r0_to_cn2, CN2S, R0S),
        "r0_seeing": (ac.r0_to_seeing, ac.seeing_to_r0, R0S, SEEINGS),
        "cn2_seeing": (ac.cn2_to_seeing, ac.seeing_to_cn2, CN2S, SEEINGS)}[p["pair"]]
    w1 = w2 = 0.0
    for x in xs:
        w1 = max(w1, _rel(bwd(fwd(x, **kw), **kw), x))
    for y in ys:
        w2 = max(w2, _rel(fwd(bwd(y, **kw), **kw), y))
    o.stat("lib_calls", 2 * (len(xs) + len(ys)))
    o.close("inverse_pair", w1, TOL, sub="bwd(fwd(x))", detail="%s then %s" % (fwd.__name__, bwd.__name__))
    o.close("inverse_pair", w2, TOL, sub="fwd(bwd(y))", detail="%s then %s" % (bwd.__name__, fwd.__name__))
    # arrays: elementwise the same numbers as scalars, and the same inverse identity
    # (the converters are documented for scalars: an extension, skipped when the library does not take arrays)
    for vals, f, g in ((xs, fwd, bwd), (ys, bwd, fwd)):
        a1 = numpy.array(vals)
        a2 = numpy.array([vals, vals[::-1]])
        s = numpy.array([float(f(v, **kw)) for v in vals])
        o.stat("lib_calls", len(vals) + 2)
        ok, ys_ = _accepts(o, "array_elementwise", lambda: (numpy.asarray(f(a1.copy(), **kw), dtype=float),
                                                           numpy.asarray(f(a2.copy(), **kw), dtype=float)))
        if not ok:
            continue
        y1, y2 = ys_
        if not (y1.shape == a1.shape and y2.shape == a2.shape):
            o.stat("array_elementwise_not_claimed", 1)
            o.note("array_elementwise_not_claimed", "%s: shapes %s %s" % (f.__name__, y1.shape, y2.shape))
            continue
        o.close("array_elementwise", max(_rel(y1, s), _rel(y2, numpy.array([s, s[::-1]]))), TOL, sub=f.__name__)
        ok, back = _accepts(o, "array_elementwise", lambda: numpy.asarray(g(f(a2.copy(), **kw), **kw), dtype=float))
        if ok and back.shape == a2.shape:
            o.close("inverse_pair", _rel(back, a2), TOL, sub="arrays:" + f.__name__)
            o.stat("lib_calls", 2)
    # the default wavelength is 500 nm
    if p["lam"] is None:
        d = max(_rel(fwd(x), fwd(x, lamda=500e-9)) for x in xs)
        d = max(d, max(_rel(bwd(y), bwd(y, lamda=500e-9)) for y in ys))
        o.stat("lib_calls", 2 * (len(xs) + len(ys)))
        o.close("default_wavelength_500nm", d, TOL_SAME)
    # the absolute scale, to the rounding of the quoted constants: r0 = [0.423 k^2 J]^(-3/5), seeing = 0.98 lambda / r0
    # in arcseconds (every other clause of this case holds for ANY shared constant and ANY angular unit)
    if p["pair"] == "cn2_r0":
        o.close("r0_is_0.423_k2_J", max(_rel(fwd(x, **kw), ref.r0_from_cn2(x, lam)) for x in xs), TOL_R0_CONST)
        o.stat("lib_calls", len(xs))
    if p["pair"] == "r0_seeing":
        o.close("seeing_is_0.98_lambda_over_r0_arcsec", max(_rel(fwd(x, **kw), ref.seeing_from_r0(x, lam)) for x in xs),
                TOL_SEEING_CONST)
        o.close("seeing_is_0.98_lambda_over_r0_arcsec", max(_rel(bwd(y, **kw), 0.98 * lam * ref.ARCSEC / y) for y in ys),
                TOL_SEEING_CONST, sub="seeing_to_r0")
        o.stat("lib_calls", len(xs) + len(ys))
    # composites equal the compositions of the elementary converters
    if p["pair"] == "cn2_seeing":
        c1 = max(_rel(ac.cn2_to_seeing(x, **kw), ac.r0_to_seeing(ac.cn2_to_r0(x, **kw), **kw)) for x in xs)
        c2 = max(_rel(ac.seeing_to_cn2(y, **kw), ac.r0_to_cn2(ac.seeing_to_r0(y, **kw), **kw)) for y in ys)
        o.stat("lib_calls", 3 * (len(xs) + len(ys)))
        o.close("composite_is_composition", c1, TOL, sub="cn2_to_seeing")
        o.close("composite_is_composition", c2, TOL, sub="seeing_to_cn2")
        # and are consistent with going through the elementary inverse in the other direction
        c3 = max(_rel(ac.r0_to_cn2(ac.seeing_to_r0(ac.cn2_to_seeing(x, **kw), **kw), **kw), x) for x in xs)
        o.stat("lib_calls", 3 * len(xs))
        o.close("composite_is_composition", c3, TOL, sub="mixed_round_trip")
    o.outcome([p["pair"], lam, [float(fwd(x, **kw)) for x in xs[:3]]])
    return o


def _law(p):
    """exact power laws between all ladder points (ratios against the first point)"""
    o = Out()
    ac = _ac()
    fn = p["fn"]
    lams = sorted(_lams(p["tier"]))
    f = getattr(ac, fn)

    def grid(values, expo_v, expo_l, call):
        base = float(call(values[0], lams[0]))
        worst = 0.0
        for v in values:
            for lam in lams:
                want = base * (v / values[0]) ** expo_v * (lam / lams[0]) ** expo_l
                worst = max(worst, _rel(call(v, lam), want))
        o.stat("lib_calls", len(values) * len(lams))
        return worst
    if fn == "cn2_to_r0":
        o.close("power_law", grid(CN2S, -3.0 / 5.0, 6.0 / 5.0, lambda v, l: f(v, l)), TOL, sub="r0~lambda^(6/5) cn2^(-3/5)")
    elif fn == "r0_to_cn2":
        o.close("power_law", grid(R0S, -5.0 / 3.0, 2.0, lambda v, l: f(v, l)), TOL, sub="cn2~lambda^2 r0^(-5/3)")
    elif fn == "r0_to_seeing":
        o.close("power_law", grid(R0S, -1.0, 1.0, lambda v, l: f(v, l)), TOL, sub="seeing~lambda/r0")
    elif fn == "seeing_to_r0":
        o.close("power_law", grid(SEEINGS, -1.0, 1.0, lambda v, l: f(v, l)), TOL, sub="r0~lambda/seeing")
    elif fn == "cn2_to_seeing":
        o.close("power_law", grid(CN2S, 3.0 / 5.0, -1.0 / 5.0, lambda v, l: f(v, l)), TOL, sub="seeing~lambda^(-1/5) cn2^(3/5)")
    elif fn == "seeing_to_cn2":
        o.close("power_law", grid(SEEINGS, 5.0 / 3.0, 1.0 / 3.0, lambda v, l: f(v, l)), TOL, sub="cn2~lambda^(1/3) seeing^(5/3)")
    elif fn == "slope_variance_from_r0":
        for d in SUBAP_DIAMS:
            w = grid(R0S, -5.0 / 3.0, 2.0, lambda v, l: f(v, l, d))
            o.close("power_law", w, TOL, sub="var~lambda^2 r0^(-5/3)")
        base = float(f(R0S[0], lams[0], SUBAP_DIAMS[0]))
        w = max(_rel(f(R0S[0], lams[0], d), base * (d / SUBAP_DIAMS[0]) ** (-1.0 / 3.0)) for d in SUBAP_DIAMS)
        o.close("power_law", w, TOL, sub="var~d^(-1/3)")
        # library / reference is ONE number (the constant, whatever its rounding) ...
        k0 = float(f(R0S[0], lams[0], SUBAP_DIAMS[0])) / ref.slope_variance(R0S[0], lams[0], SUBAP_DIAMS[0])
        w = max(_rel(f(r, l, d), k0 * ref.slope_variance(r, l, d)) for r in R0S for l in lams for d in SUBAP_DIAMS)
        o.stat("lib_calls", len(SUBAP_DIAMS) * (1 + len(R0S) * len(lams)))
        o.close("slope_variance_law", w, TOL, detail="const lambda^2 r0^(-5/3) d^(-1/3)")
        # ... which is 0.162 to its rounding
        o.close("slope_variance_constant_0.162", abs(k0 - 1.0), TOL_SLOPE_CONST)
    else:
        # profile integrals, single layer: tau0, theta0 ~ lambda^(6/5) cn2^(-3/5) w^(-1); rytov ~ k^(7/6) cn2 h^(5/6)
        second = WINDS if fn == "coherenceTime" else HEIGHTS
        ev, ew, el = (1.0, 5.0 / 6.0, -7.0 / 6.0) if fn == "rytov_variance" else (-3.0 / 5.0, -1.0, 6.0 / 5.0)
        call = lambda c, w, l: float(f(numpy.array([c]), numpy.array([w]), l))
        base = call(CN2S[0], second[0], lams[0])
        worst = 0.0
        for c in CN2S:
            for w in second:
                for l in lams:
                    want = base * (c / CN2S[0]) ** ev * (w / second[0]) ** ew * (l / lams[0]) ** el
                    worst = max(worst, _rel(call(c, w, l), want))
        o.stat("lib_calls", len(CN2S) * len(second) * len(lams))
        o.close("power_law", worst, TOL, sub="single layer")
        d = max(_rel(float(f(numpy.array([c]), numpy.array([second[3]]))),
                     float(f(numpy.array([c]), numpy.array([second[3]]), 500e-9))) for c in CN2S)
        o.close("default_wavelength_500nm", d, TOL_SAME)
    o.outcome([fn])
    return o


def _astro():
    import aotools.astronomy as a
    return a


def _mag(p):
    o = Out()
    a = _astro()
    b = p["band"]
    fl = [float(a.magnitude_to_flux(m, b)) for m in MAGS]
    o.stat("lib_calls", len(MAGS))
    o.check("flux_positive_finite", all(math.isfinite(x) and x > 0 for x in fl))
    back = [a.flux_to_magnitude(x, b) for x in fl]
    o.stat("lib_calls", len(MAGS))
    o.close("mag_flux_inverse", max(abs(m2 - m) / max(1.0, abs(m)) for m, m2 in zip(MAGS, back)), TOL, sub="mag->flux->mag")
    fluxes = [1e-3, 1.0, 37.0, 1e4, 2.5e8, 1e12]
    w = max(_rel(a.magnitude_to_flux(a.flux_to_magnitude(x, b), b), x) for x in fluxes)
    o.stat("lib_calls", 2 * len(fluxes))
    o.close("mag_flux_inverse", w, 1e-11, sub="flux->mag->flux")
    # five magnitudes are a factor 100 in flux (every pair of ladder points 5 mag apart), 2.5 mag = factor 10
    w5 = max(_rel(fl[i] / fl[i + 2], 100.0) for i in range(len(MAGS) - 2))
    w25 = max(_rel(fl[i] / fl[i + 1], 10.0) for i in range(len(MAGS) - 1))
    o.close("five_mag_factor_100", w5, TOL)
    o.close("five_mag_factor_100", w25, TOL, sub="2.5mag=x10")
    w = max(abs(a.flux_to_magnitude(x, b) - a.flux_to_magnitude(100.0 * x, b) - 5.0) for x in fluxes)
    o.stat("lib_calls", 2 * len(fluxes))
    o.close("five_mag_factor_100", w, 1e-11, sub="flux_to_magnitude")
    # arrays of magnitudes (documented 'magnitude (float)': an extension, skipped when the library does not take arrays)
    ok, arrs = _accepts(o, "array_elementwise", lambda: (
        numpy.asarray(a.magnitude_to_flux(numpy.array(MAGS), b), dtype=float),
        numpy.asarray(a.magnitude_to_flux(numpy.array([MAGS, MAGS[::-1]]), b), dtype=float)))
    o.stat("lib_calls", 2)
    if ok and arrs[0].shape == (len(MAGS),) and arrs[1].shape == (2, len(MAGS)):
        o.close("array_elementwise", max(_rel(arrs[0], fl), _rel(arrs[1], numpy.array([fl, fl[::-1]]))), TOL)
    elif ok:
        o.stat("array_elementwise_not_claimed", 1)
        o.note("array_elementwise_not_claimed", "magnitude_to_flux: shapes %s %s" % (arrs[0].shape, arrs[1].shape))
    # magnitudes that are not on the 2.5 mag lattice and not Python floats (int, numpy integer / float scalars)
    odd = [10, numpy.int64(10), numpy.int32(-3), numpy.float64(7.3), 7.3, -1.234, 19.99, 0]
    w = w5 = 0.0
    for m in odd:
        f0 = float(a.magnitude_to_flux(m, b))
        w = max(w, abs(a.flux_to_magnitude(f0, b) - float(m)) / max(1.0, abs(float(m))))
        w5 = max(w5, _rel(f0 / float(a.magnitude_to_flux(m + 5, b)), 100.0))
    o.stat("lib_calls", 3 * len(odd))
    o.close("mag_flux_inverse", w, TOL, sub="off_lattice_and_integer_magnitudes")
    o.close("five_mag_factor_100", w5, TOL, sub="off_lattice_and_integer_magnitudes")
    # default band is V
    if b == "V":
        o.close("default_band_V", max(_rel(a.magnitude_to_flux(m), a.magnitude_to_flux(m, "V")) for m in MAGS), TOL_SAME)
        o.close("default_band_V", max(abs(a.flux_to_magnitude(x) - a.flux_to_magnitude(x, "V")) /
                                      max(1.0, abs(a.flux_to_magnitude(x, "V"))) for x in fluxes), TOL_SAME,
                sub="flux_to_magnitude")
    o.outcome([b, fl[2]])
    return o


def _masks():
    for bits in itertools.product((0, 1), repeat=6):
        yield numpy.array(bits, dtype=float).reshape(2, 3)


def _pupil(rows, cols):
    """0/1 float64 mask: a circular pupil with a central obscuration, off centre in a rows x cols array"""
    y, x = numpy.mgrid[0:rows, 0:cols]
    r = numpy.hypot(y - 0.45 * rows, x - 0.4 * cols)
    rad = 0.4 * min(rows, cols)
    return ((r <= rad) & (r >= 0.25 * rad)).astype(float)


def _phot(p):
    """photons_per_band == flux x exposure x area, linear in area and time, 5 mag = x100"""
    o = Out()
    a = _astro()
    b = p["band"]
    worst = wlin = w5 = 0.0
    n = 0
    unit = {m: float(a.photons_per_band(m, numpy.ones((1, 1)), 1.0, 1.0, b)) for m in MAGS}
    for m in MAGS:
        fl = float(a.magnitude_to_flux(m, b))
        worst = max(worst, _rel(unit[m], fl))
    for mask in _masks():
        area_px = mask.sum()
        for ps in PIXEL_SCALES:
            for t in EXPOSURES:
                for m in (MAGS[0], MAGS[4], MAGS[-1]):
                    got = a.photons_per_band(m, mask.copy(), ps, t, b)
                    n += 1
                    if not isinstance(got, float):        # an observation: the statement does not name the type
                        o.note("photons_per_band_result_type", repr(type(got)))
                    got = float(got)
                    want = unit[m] * area_px * ps * ps * t
                    if want == 0.0:
                        wlin = max(wlin, abs(got))
                    else:
                        wlin = max(wlin, _rel(got, want))
    for m in MAGS[:-2]:
        w5 = max(w5, _rel(unit[m] / unit[m + 5.0], 100.0))
    o.stat("lib_calls", n + 2 * len(MAGS))
    o.close("composite_is_composition", worst, TOL, sub="photons_per_band=flux*t*area")
    o.close("photons_linear_in_area_time", wlin, TOL)
    o.close("five_mag_factor_100", w5, TOL, sub="photons_per_band")
    # magnitudes off the 2.5 mag lattice and of integer type, on a mask of a realistic size that is not square
    big = _pupil(24, 40)
    wo = wo5 = 0.0
    odd = [10, numpy.int64(10), 7.3, -1.234, numpy.float64(3.21)]
    for m in odd:
        got = float(a.photons_per_band(m, big.copy(), 0.05, 0.002, b))
        wo = max(wo, _rel(got, float(a.magnitude_to_flux(m, b)) * 0.002 * float(big.sum()) * 0.05 ** 2))
        wo5 = max(wo5, _rel(got / float(a.photons_per_band(m + 5, big.copy(), 0.05, 0.002, b)), 100.0))
    o.stat("lib_calls", 3 * len(odd))
    o.close("composite_is_composition", wo, TOL, sub="photons_per_band=flux*t*area:off_lattice_and_integer_magnitudes")
    o.close("five_mag_factor_100", wo5, TOL, sub="photons_per_band:off_lattice_and_integer_magnitudes")
    if b == "V":
        o.close("default_band_V", max(_rel(a.photons_per_band(m, numpy.ones((2, 2)), 0.5, 0.1),
                                           a.photons_per_band(m, numpy.ones((2, 2)), 0.5, 0.1, "V")) for m in MAGS), TOL_SAME)
    o.outcome([b, unit[0.0]])
    return o


def _photmag(p):
    """photons_per_mag: proportional to area, band width and exposure time; 5 mag = x100"""
    o = Out()
    a = _astro()
    unit = {m: float(a.photons_per_mag(m, numpy.ones((1, 1)), 1.0, 1.0, 1.0)) for m in MAGS}
    wlin = 0.0
    n = len(MAGS)
    for mask in _masks():
        for ps in PIXEL_SCALES:
            for t in EXPOSURES:
                for wb in WVLBANDS:
                    for m in (MAGS[0], MAGS[5], MAGS[-1]):
                        got = float(a.photons_per_mag(m, mask.copy(), ps, wb, t))
                        n += 1
                        want = unit[m] * mask.sum() * ps * ps * wb * t
                        wlin = max(wlin, abs(got) if want == 0.0 else _rel(got, want))
    o.stat("lib_calls", n)
    o.close("photons_linear_in_area_time", wlin, TOL, sub="photons_per_mag")
    o.close("five_mag_factor_100", max(_rel(unit[m] / unit[m + 5.0], 100.0) for m in MAGS[:-2]), TOL, sub="photons_per_mag")
    big = _pupil(24, 40)
    wo = wo5 = 0.0
    odd = [10, numpy.int64(10), 7.3, -1.234, numpy.float64(3.21)]
    for m in odd:
        got = float(a.photons_per_mag(m, big.copy(), 0.05, 30.0, 0.002))
        one = float(a.photons_per_mag(m, numpy.ones((1, 1)), 1.0, 1.0, 1.0))
        wo = max(wo, _rel(got, one * float(big.sum()) * 0.05 ** 2 * 30.0 * 0.002))
        wo5 = max(wo5, _rel(got / float(a.photons_per_mag(m + 5, big.copy(), 0.05, 30.0, 0.002)), 100.0))
    o.stat("lib_calls", 3 * len(odd))
    o.close("photons_linear_in_area_time", wo, TOL, sub="photons_per_mag:off_lattice_and_integer_magnitudes")
    o.close("five_mag_factor_100", wo5, TOL, sub="photons_per_mag:off_lattice_and_integer_magnitudes")
    o.outcome([unit[0.0]])
    return o


def _layer(p):
    """single layer: theta0 = 0.314 r0/h, tau0 = 0.314 r0/v with r0 from the same Cn2"""
    o = Out()
    ac = _ac()
    kw = _kw(p["lam"])
    w_iso = w_tau = w_ref_i = w_ref_t = 0.0
    lam = 500e-9 if p["lam"] is None else p["lam"]
    coef_i, coef_t, txt_i, txt_t = [], [], [], []
    for c in CN2S:
        r0 = float(ac.cn2_to_r0(c, **kw))
        for h in HEIGHTS:
            got = float(ac.isoplanaticAngle(numpy.array([c]), numpy.array([h]), **kw))
            w_iso = max(w_iso, _rel(got, 0.314 * r0 / h * ref.ARCSEC))
            w_ref_i = max(w_ref_i, _rel(got, ref.isoplanatic_angle([c], [h], lam)))
            coef_i.append(got * h / (r0 * ref.ARCSEC))
            txt_i.append(got / ref.isoplanatic_angle([c], [h], lam))
        for v in WINDS:
            got = float(ac.coherenceTime(numpy.array([c]), numpy.array([v]), **kw))
            w_tau = max(w_tau, _rel(got, 0.314 * r0 / v))
            w_ref_t = max(w_ref_t, _rel(got, ref.coherence_time([c], [v], lam)))
            coef_t.append(got * v / r0)
            txt_t.append(got / ref.coherence_time([c], [v], lam))
    o.stat("lib_calls", len(CN2S) * (1 + len(HEIGHTS) + len(WINDS)))
    # "to the rounding of the published constants" (see TOL_LAYER) ...
    o.close("single_layer_isoplanatic_0.314_r0_over_h", w_iso, TOL_LAYER)
    o.close("single_layer_coherence_0.314_r0_over_v", w_tau, TOL_LAYER)
    o.close("single_layer_textbook_2.914", max(w_ref_i, w_ref_t), TOL_TEXTBOOK,
            detail="[2.914 k^2 cn2 w^(5/3)]^(-3/5)")
    # ... and what no rounding of a constant explains: the coefficient theta0 h / r0 (tau0 v / r0, library / textbook)
    # is ONE number for every Cn2, height and speed
    for name, vals in (("theta0*h/r0", coef_i), ("tau0*v/r0", coef_t), ("theta0/textbook", txt_i), ("tau0/textbook", txt_t)):
        o.close("single_layer_coefficient_is_one_number", _rel(vals, vals[0]), TOL, sub=name, detail={"coefficient": vals[0]})
    o.outcome([lam, w_iso])
    return o


def _slopes(p):
    """slope variance <-> r0: slope_variance_from_r0 and r0_from_slopes are inverse on synthetic
    slopes whose variance along the frame axis is known exactly"""
    o = Out()
    ac = _ac()
    lam = p["lam"]
    patterns = {"pm": [1.0, -1.0], "pm4": [1.0, -1.0, -1.0, 1.0], "tri": [-1.0, 0.0, 1.0],
                "six": [2.0, -1.0, 0.0, 1.0, -2.0, 0.0], "offset": [4.0, 2.0, 4.0, 2.0]}
    worst = 0.0
    n = 0
    for d in SUBAP_DIAMS:
        for r0 in R0S:
            var = float(ac.slope_variance_from_r0(r0, lam, d))
            for name, pat in patterns.items():
                pv = ref.population_variance(pat)
                amp = math.sqrt(var / pv)
                for nsub in (1, 2, 3):
                    for reps in (1, 3):
                        frames = numpy.array(pat * reps) * amp
                        sl = numpy.empty((2, nsub, len(frames)))
                        for a_ in range(2):
                            for s in range(nsub):
                                # circular shifts and a per-sub-aperture offset keep the variance
                                sl[a_, s] = numpy.roll(frames, a_ + s) + 0.1 * amp * (s - a_)
                        got = float(ac.r0_from_slopes(sl, lam, d))
                        n += 2
                        worst = max(worst, _rel(got, r0))
    o.stat("lib_calls", n)
    o.close("slope_variance_r0_inverse", worst, 1e-11)
    # long records (thousands of frames) that are NOT periodic: a drifting ramp k - mean has the population variance
    # (n^2 - 1) / 12 exactly, a ramp plus an alternating term adds 1 exactly (n even) - a variance taken block by
    # block would lose the spread of the block means
    worst_long, m = 0.0, 0
    for nfr in (130, 1000, 4098, 8194, 20000, 70002):
        k = numpy.arange(nfr, dtype=float)
        for name, frames, pv in (("ramp", k - k.mean(), (nfr * nfr - 1) / 12.0),
                                 ("ramp+alt", (k - k.mean()) + (-1.0) ** k, None)):
            if name == "ramp+alt":
                pv = float(numpy.mean((frames - frames.mean()) ** 2))     # float64 mean of exact values (reference model arithmetic)
            for d, r0 in ((SUBAP_DIAMS[1], R0S[3]), (SUBAP_DIAMS[4], R0S[6])):
                var = float(ac.slope_variance_from_r0(r0, lam, d))
                amp = math.sqrt(var / pv)
                sl = numpy.empty((2, 2, nfr))
                for a_ in range(2):
                    for s in range(2):
                        sl[a_, s] = (frames if (a_ + s) % 2 == 0 else -frames[::-1]) * amp + 0.3 * amp * (s - a_)
                got = float(ac.r0_from_slopes(sl, lam, d))
                m += 1
                worst_long = max(worst_long, _rel(got, r0))
    o.stat("lib_calls", m)
    o.close("slope_variance_r0_inverse_long_records", worst_long, 1e-9)
    o.outcome([lam, worst < 1e-11])
    return o


def _reuse(p):
    """call histories on caller-owned float64 profile arrays (the same h / v / Cn2 array handed to one function after
    the other, and again after the caller edited it in place), for every profile function and the conversions"""
    from mc import variants
    o = Out()
    ac = _ac()
    cn2 = numpy.array([5e-15, 2e-15, 1e-15, 3e-15, 1e-15])
    h = numpy.array([100., 2000., 5000., 9000., 15000.])
    w = numpy.array([5., 10., 20., 30., 15.])
    st_c, st_h = numpy.array([cn2, cn2[::-1] * 2]), numpy.array([h, h + 250.])
    k = 0
    scale_ = lambda a: a.__imul__(1.5)
    for name, second in (("coherenceTime", w), ("isoplanaticAngle", h), ("rytov_variance", h)):
        f = getattr(ac, name)
        k += variants.check_reuse(o, "second_profile", lambda x: f(cn2.copy(), x, 800e-9), second, 1e-13, sub=name, mutate=scale_)
        k += variants.check_reuse(o, "cn2_profile", lambda x: f(x, second.copy(), 800e-9), cn2, 1e-13, sub=name, mutate=scale_)
        s2 = st_h if name != "coherenceTime" else numpy.array([w, w[::-1]])
        k += variants.check_reuse(o, "second_profile", lambda x: f(st_c.copy(), x, 800e-9, -1), s2, 1e-13, sub=name + ":stack", mutate=scale_)
    # whole-number altitudes / speeds handed over as integer arrays (an altitude grid in metres usually is), float32,
    # other memory layouts: the same values, the same result
    hi = numpy.array([0., 2000., 5000., 10000., 15000., 22000.])
    ci = numpy.array([5e-15, 2e-15, 1e-15, 3e-15, 1e-15, 4e-16])
    wi = numpy.array([5., 10., 20., 30., 15., 60.])
    # (other dtypes are an extension of the statement: a library that REJECTS them with an exception is not failed -
    #  statistic profile_dtype_not_claimed; one that accepts them must give the numbers of the float64 values. float32 is
    #  decided at 1e-5 by check_storage, 100 x the measured 1e-7)
    for name, second in (("coherenceTime", wi), ("isoplanaticAngle", hi), ("rytov_variance", hi)):
        f = getattr(ac, name)
        f1 = lambda x: f(ci.copy(), x, 800e-9)
        f2 = lambda x: f(numpy.array([ci, ci[::-1]]), x, 800e-9, -1)
        st = numpy.array([second, second[::-1]])
        k += variants.check_storage(o, "profile_independent_of_storage", _guard_dtypes(o, "profile_dtype", f1, f1(second.copy())),
                                    second, 1e-12, sub=name, kinds=("int64", "int32", "uint16", "float32"))
        k += variants.check_storage(o, "profile_independent_of_storage", _guard_dtypes(o, "profile_dtype", f2, f2(st.copy())),
                                    st, 1e-12, sub=name + ":stack", kinds=("int64", "float32"))
    # one array through a chain of different functions: every later result is what a pristine copy gives
    hh = h.copy()
    got = [float(ac.isoplanaticAngle(cn2, hh)), float(ac.rytov_variance(cn2, hh)), float(ac.isoplanaticAngle(cn2, hh))]
    want = [float(ac.isoplanaticAngle(cn2.copy(), h.copy())), float(ac.rytov_variance(cn2.copy(), h.copy())),
            float(ac.isoplanaticAngle(cn2.copy(), h.copy()))]
    o.close("chain_on_one_array_equals_pristine", _rel(got, want), 1e-13)
    # the scalar converters on a caller-owned array of values (arrays are an extension: skipped when not accepted)
    for name in ("cn2_to_r0", "r0_to_cn2", "r0_to_seeing", "seeing_to_r0", "cn2_to_seeing", "seeing_to_cn2"):
        ok, y = _accepts(o, "values", lambda: numpy.asarray(getattr(ac, name)(numpy.array([0.1, 0.15, 0.2]), 6e-7), dtype=float))
        if not ok or y.shape != (3,):
            if ok:
                o.stat("values_not_claimed", 1)
            continue
        k += variants.check_reuse(o, "values", lambda x: getattr(ac, name)(x, 6e-7), numpy.array([0.1, 0.15, 0.2]), 1e-13,
                                  sub=name, mutate=scale_)
    o.stat("lib_calls", k + 6)
    return o


def _axis(p):
    """the axis argument gives the same numbers as looping over 1-D profiles"""
    o = Out()
    ac = _ac()
    fn, shape = p["fn"], tuple(p["shape"])
    f = getattr(ac, fn)
    refn = {"coherenceTime": ref.coherence_time, "isoplanaticAngle": ref.isoplanatic_angle, "rytov_variance": ref.rytov}[fn]
    n = int(numpy.prod(shape))
    rank = len(shape)
    idx = numpy.arange(n).reshape(shape)
    cn2 = 1e-15 * (1.0 + (idx * 7) % 11)                      # distinct, deterministic strengths
    ladder = WINDS if fn == "coherenceTime" else HEIGHTS
    w = numpy.array(ladder)[(idx * 5 + 2) % len(ladder)]      # same shape as cn2
    lam = 800e-9
    # the constant of this function in the library under test, relative to the textbook constant, from ONE single-layer
    # call: whatever its rounding (bounded below), it is the same number for every profile, shape and axis
    k0 = float(f(numpy.array([3e-15]), numpy.array([ladder[4]]), lam)) / refn([3e-15], [ladder[4]], lam)
    o.stat("lib_calls", 1)
    o.close("profile_constant_within_rounding", abs(k0 - 1.0), TOL_TEXTBOOK, detail={"library/textbook": k0})
    for axis in list(range(-rank, rank)) + ["default"]:
        ax = -1 if axis == "default" else axis
        got = numpy.asarray(f(cn2.copy(), w.copy(), lam) if axis == "default" else f(cn2.copy(), w.copy(), lam, axis))
        o.stat("lib_calls", 1)
        want_shape = tuple(s for i, s in enumerate(shape) if i != ax % rank)
        sub = "axis=%s" % axis
        if got.shape != want_shape:
            o.check("axis_equals_loop", False, sub=sub, detail="result shape %s, expected %s" % (got.shape, want_shape))
            continue
        c_m = numpy.moveaxis(cn2, ax, -1).reshape(-1, shape[ax % rank])
        w_m = numpy.moveaxis(w, ax, -1).reshape(-1, shape[ax % rank])
        loop = numpy.array([float(f(c_m[i].copy(), w_m[i].copy(), lam)) for i in range(c_m.shape[0])]).reshape(want_shape)
        o.stat("lib_calls", c_m.shape[0])
        o.close("axis_equals_loop", _rel(got, loop), TOL, sub=sub)
        # and the 1-D evaluation is the explicit sum of the definition (loop in the reference model)
        textbook = numpy.array([refn(c_m[i], w_m[i], lam) for i in range(c_m.shape[0])]).reshape(want_shape)
        o.close("profile_sum_definition", _rel(got, k0 * textbook), TOL, sub=sub)
    # 1-D height / velocity vector shared by all profiles (broadcast along the last axis): an extension of the statement
    # (the docstring asks for the altitude scale of cn2) - skipped when the library does not accept it
    w1 = numpy.array(ladder)[(numpy.arange(shape[-1]) * 5 + 2) % len(ladder)]
    ok, got = _accepts(o, "shared_1d_vector", lambda: numpy.asarray(f(cn2.copy(), w1.copy(), lam)))
    c_m = cn2.reshape(-1, shape[-1])
    loop = numpy.array([float(f(c_m[i].copy(), w1.copy(), lam)) for i in range(c_m.shape[0])]).reshape(shape[:-1])
    o.stat("lib_calls", 1 + c_m.shape[0])
    if ok and got.shape != shape[:-1]:
        o.stat("shared_1d_vector_not_claimed", 1)
        o.note("shared_1d_vector_not_claimed", "result shape %s" % (got.shape,))
    elif ok:
        o.close("axis_equals_loop", _rel(got, loop), TOL, sub="shared_1d_vector")
    # the mirror image: ONE 1-D cn2 profile shared by a stack of height / velocity profiles (same extension, same rule)
    if rank > 1:
        c1 = 1e-15 * (1.0 + (numpy.arange(shape[-1]) * 7) % 11)
        ok, got = _accepts(o, "shared_1d_cn2", lambda: numpy.asarray(f(c1.copy(), w.copy(), lam)))
        w_m = w.reshape(-1, shape[-1])
        loop = numpy.array([float(f(c1.copy(), w_m[i].copy(), lam)) for i in range(w_m.shape[0])]).reshape(shape[:-1])
        o.stat("lib_calls", 1 + w_m.shape[0])
        if ok and got.shape != shape[:-1]:
            o.stat("shared_1d_cn2_not_claimed", 1)
            o.note("shared_1d_cn2_not_claimed", "result shape %s" % (got.shape,))
        elif ok:
            o.close("axis_equals_loop", _rel(got, loop), TOL, sub="shared_1d_cn2")
    o.outcome([fn, shape, numpy.round(numpy.asarray(f(cn2, w, lam)) / numpy.asarray(f(cn2, w, lam)).flat[0], 9)])
    return o


def _synthetic_slopes(ac, r0, lam, d, nsub, pat, reps=1, scale_rows=None):
    """(2, nsub, nFrames) float64 slopes whose population variance along the frames is slope_variance_from_r0(r0) in
    every row (times scale_rows[a, s]^2 when given): circular shifts of one pattern plus per-row offsets"""
    var = float(ac.slope_variance_from_r0(r0, lam, d))
    amp = math.sqrt(var / ref.population_variance(pat))
    frames = numpy.array(pat * reps) * amp
    sl = numpy.empty((2, nsub, len(frames)))
    for a_ in range(2):
        for s_ in range(nsub):
            g = 1.0 if scale_rows is None else float(scale_rows[a_][s_])
            sl[a_, s_] = g * numpy.roll(frames, a_ + s_) + 0.1 * amp * (s_ - a_)
    return sl


def _slopes_reuse(p):
    """r0_from_slopes on caller-owned telemetry: the record is handed over as it is (not a copy), used again, edited by
    the caller and used again; the same values as float32 (what a WFS delivers) and as views with the frame axis
    elsewhere in memory give the same r0"""
    from mc import variants
    o = Out()
    ac = _ac()
    k = 0
    pat = [2.0, -1.0, 0.0, 1.0, -2.0, 0.0, 0.5]
    for lam, d, r0, nsub, reps in ((500e-9, 0.2, 0.1, 3, 2), (1.65e-6, 0.5, 0.15, 12, 40)):
        sl = _synthetic_slopes(ac, r0, lam, d, nsub, pat, reps)
        sub = "lam=%g,nsub=%d,frames=%d" % (lam, nsub, sl.shape[-1])
        f = lambda x: ac.r0_from_slopes(x, lam, d)
        o.close("slope_variance_r0_inverse", _rel(f(sl.copy()), r0), 1e-11, sub=sub)
        k += 1 + variants.check_reuse(o, "slopes", f, sl, 1e-13, sub=sub, mutate=lambda a: a.__imul__(1.5))
        # float32 telemetry: measured 1.6e-7 on the unchanged library, decided at 1e-5 by check_storage; a library that
        # rejects float32 with an exception is not failed (statistic slopes_dtype_not_claimed)
        k += variants.check_storage(o, "slopes_independent_of_storage", _guard_dtypes(o, "slopes_dtype", f, f(sl.copy())),
                                    sl, 1e-12, sub=sub, kinds=("float32",))
        # recorded frame by frame, (nFrames, 2, nSubaps), and handed over as the documented (2, nSubaps, nFrames) view
        fr = numpy.ascontiguousarray(numpy.moveaxis(sl, -1, 0))
        o.close("slopes_independent_of_storage", _rel(f(numpy.moveaxis(fr, 0, -1)), f(sl.copy())), 1e-12, sub=sub + ":frames_first_view")
        k += 2
    o.stat("lib_calls", k)
    o.stat("nontrivial", 2)
    return o


def _slopes_agg(p):
    """rows (sub-apertures, x / y) of DIFFERENT variance: the statement does not say how they are combined, so only
    what every way of combining them satisfies is demanded - the result does not depend on the order of the
    sub-apertures nor on which direction is called x, and lies between the smallest and the largest single-row value"""
    o = Out()
    ac = _ac()
    pat = [2.0, -1.0, 0.0, 1.0, -2.0, 0.0]
    k = 0
    for lam, d, r0 in ((500e-9, 0.2, 0.1), (2.2e-6, 1.0, 0.5)):
        for nsub in (2, 3, 5):
            scale = [[1.0 + 0.25 * s_ + 0.6 * a_ for s_ in range(nsub)] for a_ in range(2)]
            sl = _synthetic_slopes(ac, r0, lam, d, nsub, pat, 2, scale_rows=scale)
            sub = "lam=%g,nsub=%d" % (lam, nsub)
            got = float(ac.r0_from_slopes(sl.copy(), lam, d))
            rows = numpy.array([[float(ac.r0_from_slopes(sl[a_:a_ + 1, s_:s_ + 1].copy(), lam, d)) for s_ in range(nsub)]
                                for a_ in range(2)])
            k += 1 + 2 * nsub
            # a single row is the inverse pair itself: variance g^2 var(r0)  <->  r0 g^(-6/5)
            o.close("slope_variance_r0_inverse", _rel(rows, r0 * numpy.array(scale) ** (-6.0 / 5.0)), 1e-11, sub="single_row:" + sub)
            o.check("slopes_rows_combined_between_min_and_max",
                    rows.min() * (1 - 1e-12) <= got <= rows.max() * (1 + 1e-12), sub=sub,
                    detail={"got": got, "min": float(rows.min()), "max": float(rows.max())})
            worst = 0.0
            for perm in itertools.islice(itertools.permutations(range(nsub)), 1, 7):
                worst = max(worst, _rel(ac.r0_from_slopes(sl[:, list(perm), :].copy(), lam, d), got))
                k += 1
            o.close("slopes_rows_order_irrelevant", worst, TOL, sub="subapertures:" + sub)
            o.close("slopes_rows_order_irrelevant", _rel(ac.r0_from_slopes(sl[::-1].copy(), lam, d), got), TOL, sub="x_y_swapped:" + sub)
            k += 1
            o.outcome([lam, nsub, round(got / r0, 9)])
    o.stat("lib_calls", k)
    o.stat("nontrivial", 6)
    return o


def _mask_variants(p):
    """photon counts on pupil masks as they are met in practice: caller-owned (handed over, not copied), of a realistic
    size and not square, stored as bool / uint8 / int / float32, read-only, strided: the count of the float64 values"""
    from mc import variants
    o = Out()
    a = _astro()
    k = 0
    def half_off(m):
        m[: m.shape[0] // 2] = 0
    for rows, cols in ((6, 9), (96, 128), (128, 128)):
        mask = _pupil(rows, cols)
        for name, f in (("photons_per_band", lambda m: a.photons_per_band(7.3, m, 0.05, 0.002, "R")),
                        ("photons_per_mag", lambda m: a.photons_per_mag(7.3, m, 0.05, 30.0, 0.002))):
            sub = "%s:%dx%d" % (name, rows, cols)
            k += variants.check_reuse(o, "mask", f, mask, 1e-13, sub=sub, mutate=half_off)
            # other dtypes: an extension (skipped when rejected with an exception, statistic mask_dtype_not_claimed)
            g = _guard_dtypes(o, "mask_dtype", f, f(mask.copy()))
            k += 1 + variants.check_storage(o, "photons_independent_of_mask_storage", g, mask, 1e-12, sub=sub,
                                            kinds=("float32", "int64", "int32", "uint8"))
            base = float(f(mask.copy()))
            got = float(g(mask.astype(bool)))
            k += 2
            o.close("photons_independent_of_mask_storage", _rel(got, base), 1e-12, sub=sub + ":bool")
    o.stat("lib_calls", k)
    o.stat("nontrivial", 6)
    return o


def _conventions(p):
    """the documented parameter names passed by keyword, and the wavelength as numpy scalar / 0-d array, give the
    numbers of the positional call with a Python float"""
    o = Out()
    ac = _ac()
    a = _astro()
    k = 0

    def same(sub, call_kw, call_pos, tol=TOL):
        try:
            got = call_kw()
        except TypeError as e:           # a documented parameter name is part of the observable behaviour
            o.check("keyword_equals_positional", False, sub=sub, detail="TypeError: %s" % str(e)[:160])
            return
        o.close("keyword_equals_positional", _rel(got, call_pos()), tol, sub=sub)

    cn2 = numpy.array([[5e-15, 2e-15, 1e-15], [3e-15, 1e-15, 4e-15]])
    hh = numpy.array([[100., 2000., 9000.], [500., 5000., 15000.]])
    vv = numpy.array([[5., 10., 30.], [8., 20., 15.]])
    for lam in (800e-9, 1.65e-6):
        for name, x in (("cn2_to_r0", 3e-13), ("r0_to_cn2", 0.15), ("r0_to_seeing", 0.15), ("seeing_to_r0", 0.65),
                        ("cn2_to_seeing", 3e-13), ("seeing_to_cn2", 0.65)):
            f = getattr(ac, name)
            same("%s:lamda=%g" % (name, lam), lambda: f(x, lamda=lam), lambda: f(x, lam))
            k += 2
        for name, second in (("coherenceTime", vv), ("isoplanaticAngle", hh), ("rytov_variance", hh)):
            f = getattr(ac, name)
            for ax in (0, 1, -1, -2):
                same("%s:lamda=%g,axis=%d" % (name, lam, ax), lambda: f(cn2.copy(), second.copy(), lamda=lam, axis=ax),
                     lambda: f(cn2.copy(), second.copy(), lam, ax))
                same("%s:axis=%d,lamda=%g" % (name, ax, lam), lambda: f(cn2.copy(), second.copy(), axis=ax, lamda=lam),
                     lambda: f(cn2.copy(), second.copy(), lam, ax))
                k += 4
            same("%s:axis=0_default_wavelength" % name, lambda: f(cn2.copy(), second.copy(), axis=0),
                 lambda: f(cn2.copy(), second.copy(), 500e-9, 0))
            same("%s:lamda=%g_default_axis" % (name, lam), lambda: f(cn2.copy(), second.copy(), lamda=lam),
                 lambda: f(cn2.copy(), second.copy(), lam, -1))
            k += 4
        sl = _synthetic_slopes(ac, 0.12, lam, 0.3, 3, [1.0, -1.0, 0.5, -0.5])
        same("r0_from_slopes:wavelength=%g,subapDiam" % lam, lambda: ac.r0_from_slopes(sl.copy(), wavelength=lam, subapDiam=0.3),
             lambda: ac.r0_from_slopes(sl.copy(), lam, 0.3))
        same("slope_variance_from_r0:wavelength=%g,subapDiam" % lam, lambda: ac.slope_variance_from_r0(0.12, wavelength=lam, subapDiam=0.3),
             lambda: ac.slope_variance_from_r0(0.12, lam, 0.3))
        k += 5
        # the wavelength as numpy.float64 scalar and as 0-d array (an extension: skipped when rejected)
        for tname, conv in (("numpy.float64", numpy.float64), ("0-d array", numpy.array)):
            for name, args in (("cn2_to_r0", (3e-13,)), ("r0_to_cn2", (0.15,)), ("r0_to_seeing", (0.15,)), ("seeing_to_r0", (0.65,)),
                               ("cn2_to_seeing", (3e-13,)), ("seeing_to_cn2", (0.65,)), ("coherenceTime", (cn2, vv)),
                               ("isoplanaticAngle", (cn2, hh)), ("rytov_variance", (cn2, hh))):
                f = getattr(ac, name)
                ok, got = _accepts(o, "wavelength_type", lambda: numpy.asarray(f(*[numpy.copy(x) if isinstance(x, numpy.ndarray) else x for x in args],
                                                                                 conv(lam)), dtype=float))
                k += 2
                if ok:
                    want = numpy.asarray(f(*args, lam), dtype=float)
                    if got.shape == want.shape:
                        o.close("wavelength_type_irrelevant", _rel(got, want), TOL, sub="%s:%s:lam=%g" % (name, tname, lam))
                    else:
                        o.stat("wavelength_type_not_claimed", 1)
    mask = _pupil(6, 9)
    for b in ("V", "r", "K"):
        same("magnitude_to_flux:waveband=%s" % b, lambda: a.magnitude_to_flux(7.3, waveband=b), lambda: a.magnitude_to_flux(7.3, b))
        same("flux_to_magnitude:waveband=%s" % b, lambda: a.flux_to_magnitude(2.5e5, waveband=b), lambda: a.flux_to_magnitude(2.5e5, b))
        same("photons_per_band:pxlScale,expTime,waveband=%s" % b,
             lambda: a.photons_per_band(7.3, mask.copy(), pxlScale=0.05, expTime=0.002, waveband=b),
             lambda: a.photons_per_band(7.3, mask.copy(), 0.05, 0.002, b))
        same("photons_per_band:expTime,pxlScale,waveband=%s" % b,
             lambda: a.photons_per_band(7.3, mask.copy(), expTime=0.002, waveband=b, pxlScale=0.05),
             lambda: a.photons_per_band(7.3, mask.copy(), 0.05, 0.002, b))
        k += 8
    same("photons_per_mag:pixel_scale,wvlBand,exposure_time",
         lambda: a.photons_per_mag(7.3, mask.copy(), pixel_scale=0.05, wvlBand=30.0, exposure_time=0.002),
         lambda: a.photons_per_mag(7.3, mask.copy(), 0.05, 30.0, 0.002))
    k += 2
    o.stat("lib_calls", k)
    o.stat("nontrivial", 1)
    return o


def _zeros(p):
    """profiles with a ground layer (h = 0), calm layers (v = 0) and zero-strength padding layers (cn2 = 0), the normal
    case in binned profiles: the explicit sum of the definition, and a layer that contributes nothing changes nothing"""
    o = Out()
    ac = _ac()
    fn = p["fn"]
    f = getattr(ac, fn)
    refn = {"coherenceTime": ref.coherence_time, "isoplanaticAngle": ref.isoplanatic_angle, "rytov_variance": ref.rytov}[fn]
    second = [0.0, 5.0, 0.0, 12.0, 30.0, 8.0] if fn == "coherenceTime" else [0.0, 500.0, 0.0, 4000.0, 9000.0, 16000.0]
    cn2 = [4e-14, 0.0, 6e-15, 3e-15, 0.0, 1e-15]
    lam = 800e-9
    k0 = float(f(numpy.array([3e-15]), numpy.array([second[3]]), lam)) / refn([3e-15], [second[3]], lam)
    k = 1
    worst = w_pad = w_ground = w_stack = 0.0
    for n in (2, 3, 4, 5, 6):
        for rot in range(6):
            c = [cn2[(i + rot) % 6] for i in range(n)]
            w = [second[(i + 2 * rot) % 6] for i in range(n)]
            if sum(ci * wi for ci, wi in zip(c, w)) == 0.0:
                continue                                  # no layer contributes: the integrals are singular
            got = float(f(numpy.array(c), numpy.array(w), lam))
            worst = max(worst, _rel(got, k0 * refn(c, w, lam)))
            # a zero-strength layer (at any height / speed) and a layer at h = 0 / v = 0 (of any strength) add nothing
            for pos in (0, n // 2, n):
                w_pad = max(w_pad, _rel(f(numpy.array(c[:pos] + [0.0] + c[pos:]), numpy.array(w[:pos] + [second[4]] + w[pos:]), lam), got))
                w_ground = max(w_ground, _rel(f(numpy.array(c[:pos] + [7e-14] + c[pos:]), numpy.array(w[:pos] + [0.0] + w[pos:]), lam), got))
            k += 7
            # and the same profile as one row / one column of a stack
            c2 = numpy.array([c, c[::-1]])
            w2 = numpy.array([w, w[::-1]])
            w_stack = max(w_stack, _rel(numpy.asarray(f(c2.copy(), w2.copy(), lam, -1))[0], got),
                          _rel(numpy.asarray(f(c2.T.copy(), w2.T.copy(), lam, 0))[0], got))
            k += 2
    o.stat("lib_calls", k)
    o.close("profile_sum_definition", worst, TOL, sub="profiles_with_zero_layers")
    o.close("layer_without_contribution_changes_nothing", w_pad, TOL, sub="cn2=0")
    o.close("layer_without_contribution_changes_nothing", w_ground, TOL, sub="h=0" if fn != "coherenceTime" else "v=0")
    o.close("axis_equals_loop", w_stack, TOL, sub="profiles_with_zero_layers")
    o.stat("nontrivial", 1)
    o.outcome([fn, worst <= TOL])
    return o


LEVEL_TEXT = ("All ladder products are enumerated completely: 9 (thorough: 33) values each of r0, integrated Cn2, seeing, heights and "
              "wind speeds x 7 (quick) / 10 (thorough) wavelengths incl. the default, 13 (thorough: 21) magnitudes x all 12 bands, all 64 "
              "masks of a 2x3 pupil x 6 pixel scales x 7 exposure times (x 5 band widths), 44 (quick) / 241 (thorough) "
              "profile-array shapes of rank 1-3 (thorough: 1-4) x every axis value, 5 slope patterns x 6 diameters x 9 r0; every inverse "
              "pair, composite, power law and reduction of the statement is evaluated on each point. Added spot families: "
              "profiles with zero layers, caller-owned / float32 / re-laid-out slope records, rows of unequal variance, realistic "
              "pupil masks in six dtypes, every documented keyword name, integer and off-lattice magnitudes.")
LEVEL_NOTE = ("Trusted: IEEE arithmetic of pow/log10 and the reference formulas in mc/refmodels/conversions.py. Not "
              "covered: values between ladder points (extended only along exact power-law directions), profile arrays "
              "of rank > 3 (thorough: > 4), absolute calibration of the band table (not part of the statement), the estimator used "
              "to combine sub-apertures of unequal slope variance (not named by the statement; only symmetry and bounds are "
              "demanded). Constants are decided to the rounding of their published digits only; extensions of the statement "
              "(arrays to scalar converters, other dtypes, broadcast height vector) are skipped when the library rejects them.")
