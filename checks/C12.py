"""C12 Zernike indexing, modes, normalisations and gradient matrices are right.

E1 (product enumeration) over
  * every Noll index j up to the bound (complete radial orders; 2.0e5 quick, 1.0e6 thorough), plus the first /
    middle / last indices of sparse radial orders up to n = 3e7 (table-free integer oracle),
  * every (n, m) of radial order <= 7 (10 thorough) x every grid size N in the alphabet (odd and even)
    x rotations x the three normalisations; every mode up to Noll index 130 (257) on three small grids against
    the EXACT rational value at the pixel centres,
  * every coefficient unit vector of phaseFromZernikes (E2-style: the whole operator) for every
    vector length K in the alphabet,
  * every radial order 0..7 (0..10), and 12 (12, 15), of the gamma matrices, every entry,
  * every ordered pair (A, B) of entry-point calls: B after A (whose result the caller has overwritten in
    place) gives what B gives in a pristine process,
  * every spelling of a count / an index sequence / a coefficient vector in a small alphabet of Python and
    numpy types.
The oracle is mc/refmodels/zern.py: the Noll table by construction and exact rational Cartesian
polynomials (recurrence-based radial part) with exact derivatives and exact disc inner products.

Entry points that cannot be called at all (canonical one-line probe raises) are reported ONCE, by
the case `entry_points`, as `entry_point_callable|entry_points|<name>`; the value clauses that need
such an entry point are skipped (counted in the statistic `skipped_entry_point_unavailable`).

Every case runs in its own forked child (ISOLATE_CASES): a verdict never depends on which case ran
before it; dependence on the call history is the subject of the `history:*` cases.
"""
import contextlib
import io
import itertools
import math
from fractions import Fraction

import numpy

from mc import Out, Case
from mc.refmodels import zern

PROPERTY = "C12"
LEVEL = "exploration"
ISOLATE_CASES = True
TECHNIQUE = ("bounded exhaustive enumeration (every Noll index of all complete radial orders up to the "
             "bound; every mode x grid size x rotation x normalisation; every coefficient unit vector; "
             "every gamma-matrix entry; every ordered pair of entry-point calls) against exact rational "
             "reference polynomials")
RULE = ("cases = {entry_points} + {noll chunk of complete radial orders} + {sparse high radial order} + "
        "{radial order n} + product(N, rot) [modes, norms, list-vs-count] + {N} [high-order modes] + "
        "product(N, norm, rot) [phaseFromZernikes on all unit vectors for every K] + product(rot, N in ladder) "
        "[Gram] + {nzrad} [gamma entries] + product(nzrad, N) [finite differences] + {N} [rotation group law] + "
        "{N} [argument spellings] + product(N, first call) [call histories]; a case counts as non-trivial when "
        "its value clauses were actually evaluated (entry point callable) and it is not the N<=2 / n=0 "
        "degenerate corner")
ASSUMPTIONS = [
    "grid convention: pixel centres at (2k+1-N)/N pupil radii, x along axis 1, y along axis 0, "
    "theta = atan2(y, x); pupil = pixel centres with x^2+y^2 <= 1 (decided in integers, no ties exist)",
    "rotation: the statement does not fix the meaning of `rot` beyond 'a rotation of the mode' (docstring: 'by "
    "rot radians'); the check requires that a rotated m != 0 mode is a unit-norm combination of the reference "
    "cosine/sine pair of the same (n, |m|), that the pair stays an orthonormal pair (proper rotation matrix), "
    "that m = 0 modes are unchanged, that the rotation angle in the (cos, sin) plane is rot or m*rot with either "
    "sign (aotools uses cos(m*theta + rot); which one is only recorded), that zernike_nm, zernike_noll and "
    "zernikeArray agree on it, and that rotations compose (M(a) M(b) = M(a+b))",
    "unit peak-to-valley is taken over the returned array, unit RMS over the pupil pixels; modes whose "
    "Noll-normalised samples have p2v (resp. rms) < 1e-6 on the grid (e.g. defocus on the 2x2 grid, piston "
    "for p2v when no pixel lies outside the pupil; only grids N <= 3) cannot be normalised and are outside the "
    "domain: the library is not asked for them through index lists, a count that includes them may raise, and "
    "their slices of a returned stack are ignored",
    "'equals' between two results of the library (list vs count, default norm, phase vs modes) means equality up "
    "to the float64 rounding of a mode value, 1e3 eps c_nm sum|radial coefficients| (at least 1e-10), not "
    "bit-equality",
    "an 'index list' is a list, a tuple or a 1-d integer ndarray (int16 ... uint64); a 'count' is a Python int or "
    "a numpy integer scalar; float / 0-d array counts and an empty coefficient vector may be rejected, but a "
    "returned result must be right; 8-bit index dtypes are not exercised (pending triage of a finding)",
    "'Gram matrix tends to the identity as the grid is refined' is decided by the bounded surrogate: "
    "max|G-I| strictly decreasing along the ladder N = 16, 32, ..., and below GRAM_END at its end",
    "finite-difference clause: tolerance is the rigorous Taylor remainder h^2/6 (max|f'''| on the stencil "
    "rows + h * bound|f''''|) from the exact polynomial plus the float32 rounding of gamma (the same relative "
    "1e-6 as the entry clause)",
    "call histories: the entry points are functions of their arguments; B called after A (result of A "
    "overwritten in place by the caller, who owns it) must give what B gives in a fresh process",
    "values outside the (N, rot, K, j) alphabets are not covered",
]
ENGINES = ["E1-product-enumeration", "E2-basis-exhaustion"]
LEVEL_TEXT = ("Every Noll index of all complete radial orders up to j = 200 028 (quick) / 1 000 405 (thorough) is "
              "mapped by the real zernIndex and compared with the table built by construction (image, bijection "
              "per block of orders, order, parity rule), and the ends and the middle of seven radial orders up to "
              "n = 3e7 with an integer formula. Every mode of radial order <= 7 (<= 10) is generated by "
              "the real code on every grid size 1..17, 32, 33, 64, 65 (more in thorough, up to 257), three (six) "
              "rotations and three normalisations and compared pixel by pixel with exact reference polynomials; "
              "every mode up to Noll index 130 (257) on the grids 7, 8, 10 with its exact rational value; "
              "phaseFromZernikes is evaluated on all coefficient unit vectors; every entry of the gamma matrices "
              "of radial orders 0..7 (0..10) and 12 (12, 15) is compared with the exact disc inner product of the "
              "differentiated polynomial; every ordered pair of 15 entry-point calls is run in a fresh process.")
LEVEL_NOTE = ("Trusted: fractions/integer arithmetic of Python, numpy float evaluation of the reference "
              "polynomials (self-validated exactly: radial orthogonality, disc orthonormality, completeness of "
              "the derivative expansion, in setup(), up to the radial order of the mode clauses; the gamma "
              "reference of orders 12 / 15 is validated by exact Parseval completeness of every derivative "
              "only). Not covered: indices / orders / grid sizes beyond the bounds; the Gram limit is a finite "
              "ladder.")

EPS = float(numpy.finfo(float).eps)
TOL_VAL = 1e-10        # mode values vs reference (measured <= 9e-13 for n <= 10, N <= 128: margin 100)
TOL_NORM = 1e-12       # unit p2v / unit rms (measured 4e-16)
TOL_LIN = 1e-12
TOL_GAMMA = 1e-6       # float32 storage of gamma, relative to max(1, |gamma_ref|)
GRAM_END = 2e-2        # bound at the end of the ladder (measured 3.4e-3 at N = 256, 2.3e-3 at 512; the value is a
#                        property of the sampling geometry, not of the implementation: margin 5.9)
ROT_COND = 1e6
ROT_COND_CMP = 1e3     # the fitted 2x2 matrices are compared with each other / with an angle only on grids where
#                        the (cos, sin) pair is this well conditioned
DEGENERATE = 1e-6      # p2v / rms of the Noll-normalised samples below which a mode cannot be normalised (on the
#                        unchanged library the values are either < 3e-14 or > 1e-2: no grid is near the threshold)

ENTRY_POINTS = ["zernIndex", "zernikeRadialFunc", "zernike_nm", "zernike_noll", "zernikeArray",
                "phaseFromZernikes", "makegammas"]


def _nmax(tier):
    return 7 if tier == "quick" else 10


def _Ns(tier):
    ns = list(range(1, 18)) + [32, 33, 64, 65]
    if tier != "quick":
        ns += list(range(18, 32)) + [63, 100, 127, 128, 130, 257]
    return sorted(set(ns))


def _Ns_phase(tier):
    """phaseFromZernikes costs K^2 mode evaluations per K: the two largest spot sizes are left to the mode cases"""
    return [n for n in _Ns(tier) if n <= 128]


def _rots(tier):
    r = [("0", 0.0), ("0.3", 0.3), ("pi/2", math.pi / 2)]
    if tier != "quick":
        r += [("-1.1", -1.1), ("pi", math.pi), ("2", 2.0)]
    return r


def _noll_nmax(tier):
    return 631 if tier == "quick" else 1413


NOLL_SPARSE = [2000, 10 ** 4, 10 ** 5, 10 ** 6, 3 * 10 ** 6, 10 ** 7, 3 * 10 ** 7]


def _ladder(tier):
    return [16, 32, 64, 128, 256] if tier == "quick" else [16, 32, 64, 128, 256, 512]


def _Ks(tier, J, N=0):
    """lengths of the coefficient vector; every length for the small grids, a sub-alphabet for N >= 32"""
    if N >= 32:
        ks = [1, 2, 6, 21, 36] + ([] if tier == "quick" else [66])
    else:
        ks = [1, 2, 3, 4, 5, 6, 10, 15, 21, 28, 36] + ([] if tier == "quick" else [45, 55, 66])
    return [k for k in ks if k <= J]


def _long_Ks(tier):
    return [64, 65, 130] if tier == "quick" else [64, 65, 129, 130, 257]


def _gamma_orders(tier):
    return list(range(0, _nmax(tier) + 1)) + ([12] if tier == "quick" else [12, 15])


NORMS = ["noll", "p2v", "rms"]
HIGH_N = [7, 8, 10]
ROTLAW_N = [8, 9]
SPELL_N = [8, 9]
HIST_N = [8]


def BOUNDS(tier):
    nm = _nmax(tier)
    return {"noll_radial_orders": [0, _noll_nmax(tier)], "noll_max_j": zern.n_modes(_noll_nmax(tier)),
            "noll_sparse_radial_orders": NOLL_SPARSE,
            "mode_radial_orders": [0, nm], "J": zern.n_modes(nm), "N": _Ns(tier), "N_max": max(_Ns(tier)),
            "N_phase": _Ns_phase(tier),
            "rot": [r[0] for r in _rots(tier)], "norms": NORMS, "phase_K": _Ks(tier, zern.n_modes(nm)),
            "phase_K_for_N>=32": _Ks(tier, zern.n_modes(nm), 32), "phase_K_long": _long_Ks(tier),
            "high_order_modes_max_j": max(_long_Ks(tier)), "high_order_modes_N": HIGH_N,
            "gram_ladder": _ladder(tier), "gamma_nzrad": _gamma_orders(tier),
            "fd_N": [128] if tier == "quick" else [128, 256],
            "rotation_law_N": ROTLAW_N, "spellings_N": SPELL_N, "history_N": HIST_N,
            "history_calls": HIST_OPS}


def setup(tier):
    err = zern.selftest(_nmax(tier))
    if err:
        raise RuntimeError("reference model self-test failed: %s" % err[:3])
    t = zern.noll_table(60)
    for j in range(1, len(t)):
        if _noll_direct(j) != t[j]:
            raise RuntimeError("integer Noll formula disagrees with the table by construction at j=%d" % j)


def cases(tier):
    nm = _nmax(tier)
    J = zern.n_modes(nm)
    yield Case("entry_points", {"kind": "entry"}, False)
    # Noll map: chunks of complete radial orders of roughly equal numbers of indices
    top = _noll_nmax(tier)
    n0 = 0
    while n0 <= top:
        n1 = n0
        cnt = 0
        while n1 <= top and cnt < 12000:
            cnt += n1 + 1
            n1 += 1
        yield Case("noll:n=%d-%d" % (n0, n1 - 1), {"kind": "noll", "n0": n0, "n1": n1}, False)
        n0 = n1
    for n in NOLL_SPARSE:
        yield Case("noll_sparse:n=%d" % n, {"kind": "noll_sparse", "n": n}, False)
    for n in range(nm + 1):
        yield Case("radial:n=%d" % n, {"kind": "radial", "n": n}, False)
    for n in range(8, 31 if tier == "quick" else 41):
        yield Case("radial_high:n=%d" % n, {"kind": "radial_high", "n": n}, False)
    for N in _Ns(tier):
        for rn, rv in _rots(tier):
            yield Case("modes:N=%d:rot=%s" % (N, rn), {"kind": "modes", "N": N, "rot": rv, "J": J, "nmax": nm},
                       False)
    for N in HIGH_N:
        yield Case("modes_high:N=%d" % N, {"kind": "modes_high", "N": N, "K": max(_long_Ks(tier))}, False)
    for N in _Ns_phase(tier):
        for norm in NORMS:
            for rn, rv in _rots(tier):
                yield Case("phase:N=%d:%s:rot=%s" % (N, norm, rn),
                           {"kind": "phase", "N": N, "norm": norm, "rot": rv, "Ks": _Ks(tier, J, N)}, False)
    # long coefficient vectors / many modes (beyond the 36 modes of the full lattice): every unit vector and the
    # superpositions, for 64 / 65 / 130 (257) coefficients (the modes themselves: modes_high / radial_high cases)
    for N, norm, (rn, rv) in ((8, "noll", _rots(tier)[0]), (7, "rms", _rots(tier)[1]), (10, "p2v", _rots(tier)[2])):
        yield Case("phase:N=%d:%s:rot=%s:long" % (N, norm, rn),
                   {"kind": "phase", "N": N, "norm": norm, "rot": rv, "Ks": _long_Ks(tier)}, False)
    for rn, rv in _rots(tier):
        for N in _ladder(tier):
            yield Case("gram:rot=%s:N=%d" % (rn, N), {"kind": "gram", "N": N, "rot": rv, "J": J}, False)
    for k in _gamma_orders(tier):
        yield Case("gamma:nzrad=%d" % k, {"kind": "gamma", "nzrad": k, "validated": k <= nm}, False)
    for k in range(1, nm + 1):
        for N in BOUNDS(tier)["fd_N"]:
            yield Case("gammafd:nzrad=%d:N=%d" % (k, N), {"kind": "gammafd", "nzrad": k, "N": N}, False)
    for N in ROTLAW_N:
        yield Case("rotlaw:N=%d" % N, {"kind": "rotlaw", "N": N, "rots": [r[1] for r in _rots(tier)], "nmax": nm},
                   False)
    for N in SPELL_N:
        yield Case("spellings:N=%d" % N, {"kind": "spellings", "N": N}, False)
    for N in HIST_N:
        for a in HIST_OPS:
            yield Case("history:N=%d:first=%s" % (N, a), {"kind": "history", "N": N, "first": a}, False)


# ------------------------------------------------------------------------------ entry points

def _zmod():
    import aotools.functions.zernike as z
    return z


def _probe_call(name):
    z = _zmod()
    if name == "zernIndex":
        return z.zernIndex(1)
    if name == "zernikeRadialFunc":
        return z.zernikeRadialFunc(0, 0, numpy.zeros((2, 2)))
    if name == "zernike_nm":
        return z.zernike_nm(0, 0, 2)
    if name == "zernike_noll":
        return z.zernike_noll(1, 2)
    if name == "zernikeArray":
        return z.zernikeArray(1, 2)
    if name == "phaseFromZernikes":
        return z.phaseFromZernikes([1.0], 2)
    if name == "makegammas":
        return z.makegammas(1)
    raise KeyError(name)


_AVAIL = {}


def _available(name):
    """None when the canonical probe call of this entry point returns, else the exception text"""
    if name not in _AVAIL:
        try:
            with _quiet():
                _probe_call(name)
            _AVAIL[name] = None
        except Exception as e:   # the property says every entry point is callable
            _AVAIL[name] = "%s: %s" % (type(e).__name__, e)
    return _AVAIL[name]


def _need(o, *names):
    """True when all entry points are callable; otherwise count the skip (reported by `entry_points`)"""
    missing = [n for n in names if _available(n) is not None]
    if missing:
        o.stat("skipped_entry_point_unavailable", 1)
        o.note("skipped_because", missing)
        return False
    return True


@contextlib.contextmanager
def _quiet():
    with numpy.errstate(all="ignore"), contextlib.redirect_stdout(io.StringIO()):
        yield


def _maxabs(a):
    a = numpy.asarray(a)
    return float(numpy.max(numpy.abs(a))) if a.size else 0.0


def _diff_nan(a, b):
    """max |a-b| where NaN/inf patterns must coincide (returns inf otherwise)"""
    a = numpy.asarray(a, dtype=float)
    b = numpy.asarray(b, dtype=float)
    if a.shape != b.shape:
        return float("inf")
    fa, fb = numpy.isfinite(a), numpy.isfinite(b)
    if not numpy.array_equal(fa, fb):
        return float("inf")
    if not numpy.array_equal(numpy.isnan(a), numpy.isnan(b)):
        return float("inf")
    if not fa.any():
        return 0.0
    return _maxabs(a[fa] - b[fa])


def _exc(e):
    return "%s: %s" % (type(e).__name__, str(e)[:200])


# ------------------------------------------------------------------------------ rounding bounds, exact values

def _noll_direct(j):
    """(n, m) of Noll index j by integer arithmetic (order n holds the indices n(n+1)/2+1 .. (n+1)(n+2)/2; inside an
    order |m| = n mod 2, +2, ... with two indices per |m| > 0; even j is the cosine term).  Validated against the
    table by construction in setup()."""
    n = (math.isqrt(8 * (j - 1) + 1) - 1) // 2
    p = j - n * (n + 1) // 2                       # 1-based position inside the order
    am = 2 * (p // 2) if n % 2 == 0 else 2 * ((p - 1) // 2) + 1
    return (n, 0) if am == 0 else (n, am if j % 2 == 0 else -am)


_RB = {}


def _round_bound(n):
    """Absolute float64 rounding bound of a Noll-normalised mode value of radial order <= n, valid for any of the
    usual evaluation schemes (factorial sum, Horner in r^2, recurrences): 1e3 eps c_nm sum_k |c_k|.  The unchanged
    library (factorial sum) measures at most 20 eps c sum|c_k| for n <= 22 on the grids 7, 8, 10: margin 50."""
    if n not in _RB:
        best = 0.0
        for k in range(n + 1):
            for m in range(k % 2, k + 1, 2):
                s = float(sum(abs(v) for v in zern.radial_coeffs(k, m).values())) * math.sqrt(zern.norm2(k, m))
                best = max(best, s)
        _RB[n] = 1e3 * EPS * best + 1e-12
    return _RB[n]


def _tol_modes(n):
    """two correct evaluations of the same modes of radial order <= n agree to this (never below TOL_VAL)"""
    return max(TOL_VAL, _round_bound(n))


def _order_of(j):
    return _noll_direct(int(j))[0]


def _exact_mode(n, m, N):
    """Noll-normalised mode at the pixel centres: R_n^|m|(r) r^-|m| is a polynomial in t = r^2 and
    r^|m| {cos, sin}(|m| theta) = {Re, Im}(x + i y)^|m|, both evaluated EXACTLY in rationals at the rational pixel
    centres; one rounding to float64 and one multiplication by c_nm."""
    am = abs(m)
    c = zern.radial_coeffs(n, am)
    q = [c.get(am + 2 * k, Fraction(0)) for k in range((n - am) // 2 + 1)]
    out = numpy.zeros((N, N))
    cn = math.sqrt(zern.norm2(n, m))
    for iy in range(N):
        b = 2 * iy + 1 - N
        for ix in range(N):
            a = 2 * ix + 1 - N
            if a * a + b * b > N * N:
                continue
            t = Fraction(a * a + b * b, N * N)
            Q = Fraction(0)
            for qk in reversed(q):
                Q = Q * t + qk
            re, im = 1, 0
            for _ in range(am):
                re, im = re * a - im * b, re * b + im * a
            out[iy, ix] = cn * float(Q * Fraction(im if m < 0 else re, N ** am))
    return out


def evaluate(p):
    o = Out()
    kind = p["kind"]
    with _quiet():
        if kind == "entry":
            return _entry(o)
        if kind == "noll":
            return _noll(o, p["n0"], p["n1"])
        if kind == "noll_sparse":
            return _noll_sparse(o, p["n"])
        if kind == "radial":
            return _radial(o, p["n"])
        if kind == "radial_high":
            return _radial_high(o, p["n"])
        if kind == "modes":
            return _modes(o, p["N"], p["rot"], p["J"], p["nmax"])
        if kind == "modes_high":
            return _modes_high(o, p["N"], p["K"])
        if kind == "phase":
            return _phase(o, p["N"], p["norm"], p["rot"], p["Ks"])
        if kind == "gram":
            return _gram(o, p["N"], p["rot"], p["J"])
        if kind == "gamma":
            return _gamma(o, p["nzrad"], p.get("validated", True))
        if kind == "gammafd":
            return _gammafd(o, p["nzrad"], p["N"])
        if kind == "rotlaw":
            return _rotlaw(o, p["N"], p["rots"], p["nmax"])
        if kind == "spellings":
            return _spellings(o, p["N"])
        if kind == "history":
            return _history(o, p["N"], p["first"])
    raise KeyError(kind)


def _entry(o):
    for name in ENTRY_POINTS:
        _AVAIL.pop(name, None)
        msg = _available(name)
        o.stat("lib_calls", 1)
        o.check("entry_point_callable", msg is None, sub=name, detail=msg)
    return o


# ------------------------------------------------------------------------------ Noll map

def _report(o, clause, bad, n_checked, what):
    """one clause evaluation per index; at most three failing ids (the smallest indices)"""
    o.check(clause, True, n=max(n_checked - min(len(bad), 3), 0))
    for j, got in bad[:3]:
        o.check(clause, False, sub="j=%d" % j,
                detail="%s: zernIndex(%d) = %s; %d failing indices in this block" % (what, j, got, len(bad)))


def _noll(o, n0, n1):
    if not _need(o, "zernIndex"):
        return o
    z = _zmod()
    j0 = n0 * (n0 + 1) // 2 + 1
    j1 = n1 * (n1 + 1) // 2          # inclusive
    table = zern.noll_table(n1 - 1)
    got = {}
    bad_type, bad_image, bad_table, bad_sign, bad_order = [], [], [], [], []
    prev = None
    if j0 > 1:
        prev = tuple(z.zernIndex(j0 - 1))
        o.stat("lib_calls", 1)
    for j in range(j0, j1 + 1):
        r = z.zernIndex(j)
        try:
            n, m = r
            ok_t = (len(r) == 2 and float(n) == int(n) and float(m) == int(m))
        except Exception:
            ok_t = False
        if not ok_t:
            bad_type.append((j, repr(r)))
            continue
        n, m = int(n), int(m)
        got[j] = (n, m)
        if not (n >= 0 and abs(m) <= n and (n - abs(m)) % 2 == 0):
            bad_image.append((j, (n, m)))
        if (n, m) != table[j]:
            bad_table.append((j, (n, m)))
        if m != 0 and ((m > 0) != (j % 2 == 0)):
            bad_sign.append((j, (n, m)))
        if prev is not None:
            pn, pm = int(prev[0]), abs(int(prev[1]))
            if (n, abs(m)) < (pn, pm):
                bad_order.append((j, (n, m)))
        prev = (n, m)
    cnt = j1 - j0 + 1
    o.stat("lib_calls", cnt)
    _report(o, "noll_returns_int_pair", bad_type, cnt, "not a pair of integers")
    _report(o, "noll_image_valid", bad_image, cnt, "need n>=0, |m|<=n, n-|m| even")
    _report(o, "noll_sign_parity", bad_sign, cnt, "even j <-> m>0 (cosine), odd j <-> m<0 (sine)")
    _report(o, "noll_order_n_then_absm", bad_order, cnt, "(n,|m|) must be non-decreasing in j")
    _report(o, "noll_equals_table", bad_table, cnt, "table by construction says %s" %
            (table[bad_table[0][0]],) if bad_table else "")
    # bijection of this block of indices onto all (n, m) of the completed radial orders n0..n1-1
    image = list(got.values())
    want = zern.valid_pairs(n0, n1)
    dup = len(image) - len(set(image))
    o.check("noll_injective", dup == 0, detail="%d repeated (n,m) in j=%d..%d" % (dup, j0, j1))
    missing = want - set(image)
    extra = set(image) - want
    o.check("noll_onto_complete_orders", not missing and not extra and len(want) == cnt,
            detail="missing %s extra %s" % (sorted(missing)[:4], sorted(extra)[:4]))
    if n1 - 1 >= 2:
        o.stat("nontrivial", 1)
    o.outcome(image[:50])
    return o


def _noll_sparse(o, n):
    """High radial orders, where a table is out of reach: the indices around the first, the middle and the last
    index of order n (and of its neighbours n - 1, n + 1 across the boundaries) against the integer formula.
    An index computation in reduced precision, or an integer square root that is off by one next to a perfect
    square, shows at the boundaries of an order first."""
    if not _need(o, "zernIndex"):
        return o
    z = _zmod()
    j0 = n * (n + 1) // 2 + 1
    j1 = (n + 1) * (n + 2) // 2
    mid = (j0 + j1) // 2
    js = list(range(j0 - 8, j0 + 8)) + list(range(mid - 4, mid + 4)) + list(range(j1 - 8, j1 + 8))
    bad = []
    for j in js:
        r = z.zernIndex(j)
        o.stat("lib_calls", 1)
        try:
            got = (int(r[0]), int(r[1]))
            if len(r) != 2 or float(r[0]) != got[0] or float(r[1]) != got[1]:
                got = repr(r)
        except Exception:
            got = repr(r)
        if got != _noll_direct(j):
            bad.append((j, got))
    _report(o, "noll_sparse_equals_integer_formula", bad, len(js),
            "integer formula says %s" % (_noll_direct(bad[0][0]),) if bad else "")
    o.stat("nontrivial", 1)
    return o


# ------------------------------------------------------------------------------ radial function

def _radial_high(o, n):
    """High radial orders (beyond the orders whose full modes are generated): the radial polynomial at dyadic
    radii against the EXACT rational value of the recurrence-based reference.  The polynomial cancels
    catastrophically for large n, so the tolerance is a rounding bound in units of sum |c_k|, not a fixed number:
    1e3 eps sum|c_k| covers the factorial sum of the unchanged library (measured <= 0.02 of it), recurrences,
    float binomials and exp(lgamma) coefficients (measured 0.03 of it, relative coefficient errors ~1e-14), and
    still exposes a wrong coefficient (error of the order of sum|c_k| itself).  (Added after a seeded change
    replaced the factorials by an int64 table that silently wraps from 21! on - invisible at the orders the mode
    clauses reach.)"""
    if not _need(o, "zernikeRadialFunc"):
        return o
    z = _zmod()
    rs = [Fraction(k, 16) for k in range(17)]
    rf = numpy.array([float(r) for r in rs]).reshape(1, -1)
    for m in range(n % 2, n + 1, 2):
        c = zern.radial_coeffs(n, m)
        exact = numpy.array([float(sum(v * r ** pw for pw, v in c.items())) for r in rs]).reshape(1, -1)
        bound = 1e3 * EPS * float(sum(abs(v) for v in c.values())) + 1e-12
        got = numpy.asarray(z.zernikeRadialFunc(n, m, rf.copy()), dtype=float)
        o.stat("lib_calls", 1)
        err = _diff_nan(got, exact)
        o.check("radial_function_high_order", err <= bound, sub="m=%d" % m, measure=err / bound, tol=1.0,
                detail={"abs_error": err, "rounding_bound": bound})
    o.stat("nontrivial", 1)
    return o


def _radial(o, n):
    if not _need(o, "zernikeRadialFunc"):
        return o
    z = _zmod()
    r1 = numpy.linspace(0.0, 1.0, 101)
    r2 = numpy.sqrt(numpy.add.outer(r1[::10] ** 2, r1[::10] ** 2) / 2.0)    # a 2-d argument as documented
    for m in range(n % 2, n + 1, 2):
        for r in (r2, r1.reshape(1, -1)):
            arg = r.copy()
            got = numpy.asarray(z.zernikeRadialFunc(n, m, arg))
            o.stat("lib_calls", 1)
            ref = zern.radial_eval(n, m, r)
            o.close("radial_function", _diff_nan(got, ref), TOL_VAL, sub="m=%d" % m)
            # the caller's array of radii is an input, not scratch space
            o.check("radial_argument_unchanged", bool(numpy.array_equal(arg, r)), sub="m=%d" % m)
        one = numpy.asarray(z.zernikeRadialFunc(n, m, numpy.ones((1, 1))))
        o.stat("lib_calls", 1)
        o.close("radial_unity_at_edge", _maxabs(one - 1.0), TOL_VAL, sub="m=%d" % m)
    if n >= 2:
        o.stat("nontrivial", 1)
    return o


# ------------------------------------------------------------------------------ modes

def _ref_stack(J, N, table):
    return numpy.array([zern.mode(table[j][0], table[j][1], N) for j in range(1, J + 1)])


def _partners(table, J):
    partner = {}
    for j in range(1, J + 1):
        n, m = table[j]
        if m != 0:
            partner[j] = [k for k in range(1, J + 1) if table[k] == (n, -m)][0]
    return partner


def _wrap(a):
    return (a + math.pi) % (2 * math.pi) - math.pi


def _rot_angle(M):
    """angle of the proper rotation closest to the 2x2 matrix M (rows: images of the cosine and of the sine mode,
    columns: coefficients on the reference cosine / sine mode)"""
    return math.atan2(M[1, 0] - M[0, 1], M[0, 0] + M[1, 1])


def _scales(base, inside, norm):
    """normalisation scale of every Noll-normalised mode of the stack: p2v over the array, rms over the pupil"""
    npup = int(inside.sum())
    out = []
    for b in base:
        if norm == "p2v":
            out.append(float(b.max() - b.min()))
        else:
            out.append(math.sqrt(float(numpy.sum(b[inside] ** 2)) / npup) if npup else 0.0)
    return out


def _pair_fits(get, N, J, table, ref, inside, partner):
    """least-squares coefficients of every m != 0 mode returned by get(j, n, m) on its reference (cos, sin) pair:
    {j: (ab, cond, residual)}; modes of the wrong shape and degenerate grids are left out"""
    out = {}
    for j in range(1, J + 1):
        n, m = table[j]
        if m == 0:
            continue
        Z = numpy.asarray(get(j, n, m), dtype=float)
        if Z.shape != (N, N):
            continue
        jc, js = (j, partner[j]) if m > 0 else (partner[j], j)
        A = numpy.stack([ref[jc - 1][inside], ref[js - 1][inside]], axis=1)
        sv = numpy.linalg.svd(A, compute_uv=False)
        if A.shape[0] < 2 or sv[-1] <= sv[0] / ROT_COND:
            continue
        ab, *_ = numpy.linalg.lstsq(A, Z[inside], rcond=None)
        out[j] = (ab, float(sv[0] / sv[-1]), _maxabs(A @ ab - Z[inside]))
    return out


def _pair_matrices(fits, table, partner):
    """{j (m > 0): (M, cond)} for the pairs of which both modes were fitted"""
    out = {}
    for j, (ab, cond, _) in fits.items():
        if table[j][1] > 0 and partner[j] in fits:
            out[j] = (numpy.array([ab, fits[partner[j]][0]]), max(cond, fits[partner[j]][1]))
    return out


def _modes(o, N, rot, J, nmax):
    z = _zmod()
    table = zern.noll_table(nmax)
    X, Y, inside = zern.grid(N)
    outside = ~inside
    ref = _ref_stack(J, N, table)
    npup = int(inside.sum())
    have_nm = _need(o, "zernike_nm")
    have_noll = _need(o, "zernike_noll")
    have_arr = _need(o, "zernikeArray")
    partner = _partners(table, J)
    tolm = _tol_modes(nmax)
    mats = {}

    def value_clauses(name, get):
        """zero outside; equals the reference (rot = 0) / is a rotation of the reference pair"""
        coef = {}
        cond = {}
        for j in range(1, J + 1):
            n, m = table[j]
            Z = numpy.asarray(get(j, n, m), dtype=float)
            o.stat("lib_calls", 1)
            if Z.shape != (N, N):
                o.check(name + "_shape", False, sub="j=%d" % j, detail="shape %s" % (Z.shape,))
                continue
            o.check(name + "_shape", True)
            o.check(name + "_zero_outside_pupil", bool(numpy.all(Z[outside] == 0.0)), sub="j=%d" % j,
                    measure=_maxabs(Z[outside]), tol=0.0)
            if rot == 0.0 or m == 0:
                cl = name + ("_equals_reference" if rot == 0.0 else "_m0_unchanged_by_rot")
                o.close(cl, _diff_nan(Z, ref[j - 1]), TOL_VAL, sub="j=%d" % j)
                continue
            # rotated mode: combination of the reference (cos, sin) pair of the same (n, |m|)
            jc, js = (j, partner[j]) if m > 0 else (partner[j], j)
            A = numpy.stack([ref[jc - 1][inside], ref[js - 1][inside]], axis=1)
            sv = numpy.linalg.svd(A, compute_uv=False)
            if A.shape[0] < 2 or sv[-1] <= sv[0] / ROT_COND:
                o.stat("rot_fit_skipped_degenerate_grid", 1)
                continue
            ab, *_ = numpy.linalg.lstsq(A, Z[inside], rcond=None)
            o.close(name + "_rot_in_span_of_pair", _maxabs(A @ ab - Z[inside]), TOL_VAL * sv[0] / sv[-1],
                    sub="j=%d" % j)
            o.close(name + "_rot_unit_norm", abs(float(ab @ ab) - 1.0), 1e-9 * (sv[0] / sv[-1]) ** 2,
                    sub="j=%d" % j)
            coef[j] = ab
            cond[j] = float(sv[0] / sv[-1])
        for j, ab in coef.items():
            n, m = table[j]
            if m > 0 and partner[j] in coef:
                M = numpy.array([ab, coef[partner[j]]])
                o.close(name + "_rot_pair_is_rotation",
                        max(_maxabs(M @ M.T - numpy.eye(2)), abs(float(numpy.linalg.det(M)) - 1.0)),
                        1e-6, sub="j=%d" % j)
                if n == 1:
                    o.note("rot_convention_Z2_coeffs_on_(cos,sin)", [round(float(v), 6) for v in ab])
                if max(cond[j], cond[partner[j]]) > ROT_COND_CMP:
                    o.stat("rot_angle_not_claimed_ill_conditioned_grid", 1)
                    continue
                mats.setdefault(j, {})[name] = M
                # `rot` is an angle in radians: the pair is turned by rot (aotools: cos(m theta + rot)) or by
                # m * rot (the pattern turned by rot), in either sense - not by 0, not by rot degrees, and not
                # by something that depends on the mode in another way
                phi = _rot_angle(M)
                dev = min(abs(_wrap(phi - c)) for c in (rot, -rot, m * rot, -m * rot))
                o.close(name + "_rot_angle_is_rot_or_m_rot", dev, 1e-6, sub="j=%d" % j,
                        detail="pair (n=%d, |m|=%d) turned by %.9f rad for rot=%r" % (n, m, phi, rot))

    if have_nm:
        value_clauses("nm", lambda j, n, m: z.zernike_nm(n, m, N, rot))
    if have_noll and _available("zernIndex") is None:
        value_clauses("noll", lambda j, n, m: z.zernike_noll(j, N, rot))
    if have_arr:
        stacks = {}
        from_list = set()
        deg = {"noll": set(), "p2v": set(), "rms": set()}
        scale = {}
        Zs = numpy.asarray(z.zernikeArray(J, N, norm="noll", rot=rot), dtype=float)
        o.stat("lib_calls", 1)
        if Zs.shape != (J, N, N):
            o.check("array_shape", False, sub="noll", detail="shape %s" % (Zs.shape,))
        else:
            o.check("array_shape", True)
            stacks["noll"] = Zs
        if "noll" in stacks:
            base = stacks["noll"]
            for norm in ("p2v", "rms"):
                scale[norm] = _scales(base, inside, norm)
                deg[norm] = set(j for j in range(1, J + 1) if not (scale[norm][j - 1] > DEGENERATE))
            for norm in ("p2v", "rms"):
                good = [j for j in range(1, J + 1) if j not in deg[norm]]
                if not deg[norm]:
                    Zs = numpy.asarray(z.zernikeArray(J, N, norm=norm, rot=rot), dtype=float)
                    o.stat("lib_calls", 1)
                else:
                    # the count includes modes that cannot be normalised on this grid (outside the domain): the
                    # call may return anything in their slices, or refuse
                    try:
                        Zs = numpy.asarray(z.zernikeArray(J, N, norm=norm, rot=rot), dtype=float)
                        o.stat("lib_calls", 1)
                    except Exception as e:
                        o.stat("degenerate_normalisation_raises_not_claimed", 1)
                        o.note("degenerate_normalisation_exception", _exc(e))
                        if not good:
                            continue
                        part = numpy.asarray(z.zernikeArray(good, N, norm=norm, rot=rot), dtype=float)
                        o.stat("lib_calls", 1)
                        if part.shape != (len(good), N, N):
                            o.check("array_shape", False, sub=norm, detail="index list of %d -> shape %s"
                                    % (len(good), part.shape))
                            continue
                        Zs = numpy.full((J, N, N), numpy.nan)
                        Zs[[j - 1 for j in good]] = part
                        from_list.add(norm)
                if Zs.shape != (J, N, N):
                    o.check("array_shape", False, sub=norm, detail="shape %s" % (Zs.shape,))
                    continue
                o.check("array_shape", True)
                stacks[norm] = Zs
            value_clauses("array", lambda j, n, m: base[j - 1])
            if have_noll:
                worst = 0.0
                for j in range(1, J + 1):
                    worst = max(worst, _diff_nan(base[j - 1], z.zernike_noll(j, N, rot)))
                    o.stat("lib_calls", 1)
                o.close("array_default_is_noll_modes", worst, tolm)
            dflt = numpy.asarray(z.zernikeArray(J, N, rot=rot))
            o.stat("lib_calls", 1)
            o.close("array_default_norm_is_noll", _diff_nan(dflt, base), tolm)
            for norm in ("p2v", "rms"):
                if norm not in stacks:
                    continue
                Zn = stacks[norm]
                for j in range(1, J + 1):
                    b = base[j - 1]
                    s = scale[norm][j - 1]
                    if j in deg[norm]:
                        o.stat("norm_degenerate_mode_skipped", 1)
                        continue
                    zz = Zn[j - 1]
                    if norm == "p2v":
                        got = float(zz.max() - zz.min())
                        o.close("unit_p2v", abs(got - 1.0), TOL_NORM, sub="j=%d" % j)
                    else:
                        got = math.sqrt(float(numpy.sum(zz[inside] ** 2)) / npup)
                        o.close("unit_rms", abs(got - 1.0), TOL_NORM, sub="j=%d" % j)
                    o.check(norm + "_zero_outside_pupil", bool(numpy.all(zz[outside] == 0.0)), sub="j=%d" % j)
                    o.close(norm + "_is_positive_rescaling_of_noll", _diff_nan(zz * s, b), max(1e-11, tolm),
                            sub="j=%d" % j)
        # list-vs-count
        lists = [[j] for j in range(1, J + 1)]
        lists += [list(t) for t in itertools.product(range(1, 9), repeat=2)]
        lists += [list(range(J, 0, -1)), list(range(2, J + 1, 2)), list(range(1, J + 1, 2)), [3, 3, 3],
                  list(range(1, J + 1))]
        # every ordering of three and of four distinct indices (cyclic orders are not their own inverse
        # permutation), with repeats, and a long scrambled list
        lists += [list(t) for t in itertools.permutations((2, 3, 4))] + [list(t) for t in itertools.permutations((1, 5, 6, 8))]
        lists += [[6, 6, 2], [2, 6, 6], [6, 2, 6], [min(J, 8), min(J, 11), min(J, 14), 5],
                  [((7 * k + 3) % J) + 1 for k in range(J)]]
        for norm, Zs in stacks.items():
            if norm in from_list:
                o.stat("list_vs_count_not_claimed_count_refused_degenerate_grid", 1)
                continue
            # two correct evaluations of a normalised mode differ by the rounding of the mode over its scale
            smin = min([1.0] + [scale[norm][j - 1] for j in range(1, J + 1) if j not in deg[norm]]) \
                if norm != "noll" else 1.0
            worst, shape_bad = 0.0, None
            seen = set()
            for L0 in lists:
                L = [j for j in L0 if j not in deg[norm]]       # never ask for a mode outside the domain
                if not L or (deg[norm] and tuple(L) in seen):
                    continue
                seen.add(tuple(L))
                for arg in (L, tuple(L), numpy.array(L)):
                    got = numpy.asarray(z.zernikeArray(arg, N, norm=norm, rot=rot))
                    o.stat("lib_calls", 1)
                    want = Zs[[j - 1 for j in L]]
                    if got.shape != want.shape:
                        shape_bad = (L[:4], got.shape)
                        continue
                    worst = max(worst, _diff_nan(got, want))
                    if len(L) > 1:
                        break        # tuple / ndarray spellings only for the singletons
            if shape_bad is not None:
                o.check("list_equals_count_slices", False, sub=norm, detail="list %s... -> shape %s" % shape_bad)
            else:
                o.close("list_equals_count_slices", worst, tolm / smin, sub=norm)
        if "noll" in stacks:
            o.outcome(numpy.round(stacks["noll"], 6))
    # the same rotation for the three ways of asking for a mode
    for j, d in mats.items():
        names = sorted(d)
        worst = 0.0
        for a_, b_ in itertools.combinations(names, 2):
            worst = max(worst, _maxabs(d[a_] - d[b_]))
        if len(names) >= 2:
            o.close("rot_same_for_nm_noll_array", worst, 1e-6, sub="j=%d" % j, detail="compared %s" % names)
    if (have_nm or have_noll or have_arr) and N >= 3:
        o.stat("nontrivial", 1)
    return o


def _modes_high(o, N, K):
    """Every mode up to Noll index K (radial order 15 quick / 22 thorough) on a small grid, from the three ways of
    asking for it, against the exact rational value at the pixel centres.  Tolerance: the rounding bound
    1e3 eps c sum|c_k| of the radial order (the unchanged library measures <= 20 eps c sum|c_k|)."""
    z = _zmod()
    nmax = _order_of(K)
    table = zern.noll_table(nmax)
    _, _, inside = zern.grid(N)
    outside = ~inside
    ref = [None] + [_exact_mode(table[j][0], table[j][1], N) for j in range(1, K + 1)]
    srcs = []
    if _need(o, "zernike_nm"):
        srcs.append(("nm", lambda j: z.zernike_nm(table[j][0], table[j][1], N)))
    if _need(o, "zernike_noll") and _available("zernIndex") is None:
        srcs.append(("noll", lambda j: z.zernike_noll(j, N)))
    if _need(o, "zernikeArray"):
        st = numpy.asarray(z.zernikeArray(K, N), dtype=float)
        o.stat("lib_calls", 1)
        if o.check("high_order_array_shape", st.shape == (K, N, N), detail="shape %s" % (st.shape,)):
            srcs.append(("array", lambda j: st[j - 1]))
    for name, get in srcs:
        for j in range(1, K + 1):
            Z = numpy.asarray(get(j), dtype=float)
            o.stat("lib_calls", 1)
            if Z.shape != (N, N):
                o.check("high_order_mode_equals_exact", False, sub="%s:j=%d" % (name, j), detail="shape %s" % (Z.shape,))
                continue
            bound = _round_bound(table[j][0])
            err = _diff_nan(Z, ref[j])
            o.check("high_order_mode_equals_exact", err <= bound, sub="%s:j=%d" % (name, j), measure=err / bound,
                    tol=1.0, detail={"abs_error": err, "rounding_bound": bound, "nm": table[j]})
            o.check("high_order_mode_zero_outside_pupil", bool(numpy.all(Z[outside] == 0.0)), sub="%s:j=%d" % (name, j))
    if srcs:
        o.stat("nontrivial", 1)
    return o


def _rotlaw(o, N, rots, nmax):
    """Rotations compose: for all a, b of the rot alphabet (and their negatives) the 2x2 matrices fitted to the
    rotated (cos, sin) pairs satisfy M(a) M(b) = M(a + b), for the three ways of asking for a mode.  Together with
    M(0) = I (rot = 0 clauses) this makes `rot` one consistent angle convention over the whole alphabet."""
    z = _zmod()
    J = zern.n_modes(nmax)
    table = zern.noll_table(nmax)
    _, _, inside = zern.grid(N)
    ref = _ref_stack(J, N, table)
    partner = _partners(table, J)
    angles = sorted(set([r for r in rots if r != 0.0] + [-r for r in rots if r != 0.0]))
    srcs = []
    if _need(o, "zernike_nm"):
        srcs.append(("nm", lambda rot: (lambda j, n, m: z.zernike_nm(n, m, N, rot))))
    if _need(o, "zernike_noll") and _available("zernIndex") is None:
        srcs.append(("noll", lambda rot: (lambda j, n, m: z.zernike_noll(j, N, rot))))
    if _need(o, "zernikeArray"):
        def arr(rot):
            st = numpy.asarray(z.zernikeArray(J, N, rot=rot), dtype=float)
            return lambda j, n, m: (st[j - 1] if st.shape == (J, N, N) else numpy.zeros(0))
        srcs.append(("array", arr))
    for name, mk in srcs:
        cache = {}

        def M(rot):
            if rot not in cache:
                cache[rot] = _pair_matrices(_pair_fits(mk(rot), N, J, table, ref, inside, partner), table, partner)
                o.stat("lib_calls", J)
            return cache[rot]
        for a, b in itertools.product(angles, repeat=2):
            Ma, Mb, Mab = M(a), M(b), M(a + b)
            worst, cnt = 0.0, 0
            for j in Ma:
                if j not in Mb or j not in Mab or max(Ma[j][1], Mb[j][1], Mab[j][1]) > ROT_COND_CMP:
                    o.stat("rot_law_not_claimed_ill_conditioned_or_unfitted", 1)
                    continue
                worst = max(worst, _maxabs(Ma[j][0] @ Mb[j][0] - Mab[j][0]))
                cnt += 1
            if cnt:
                o.check("rot_composes", worst <= 1e-6, sub="%s:a=%.6g:b=%.6g" % (name, a, b), measure=worst,
                        tol=1e-6, n=cnt)
    if srcs:
        o.stat("nontrivial", 1)
    return o


# ------------------------------------------------------------------------------ phaseFromZernikes

def _phase(o, N, norm, rot, Ks):
    if not _need(o, "phaseFromZernikes", "zernikeArray"):
        return o
    z = _zmod()
    _, _, inside = zern.grid(N)
    for K in Ks:
        smin = 1.0
        if norm != "noll":
            # modes that cannot be normalised on this grid are outside the domain: the library is not asked
            base = numpy.asarray(z.zernikeArray(K, N, norm="noll", rot=rot), dtype=float)
            o.stat("lib_calls", 1)
            if base.shape != (K, N, N):
                o.check("phase_shape", False, sub="K=%d" % K, detail="zernikeArray shape %s" % (base.shape,))
                continue
            sc = _scales(base, inside, norm)
            if not all(s > DEGENERATE for s in sc):
                o.stat("phase_K_skipped_degenerate_normalisation", 1)
                continue
            smin = min([1.0] + sc)
        Zs = numpy.asarray(z.zernikeArray(K, N, norm=norm, rot=rot), dtype=float)
        o.stat("lib_calls", 1)
        if Zs.shape != (K, N, N):
            o.check("phase_shape", False, sub="K=%d" % K, detail="zernikeArray shape %s" % (Zs.shape,))
            continue
        T = Zs.reshape(K, -1).T                        # expected operator (N*N x K)
        finite = numpy.isfinite(T).all(axis=0)
        # two correct evaluations of the (normalised) modes agree to this
        tolm = _tol_modes(_order_of(K)) / smin
        worst = 0.0
        for k in range(K):
            e = [0.0] * K
            e[k] = 1.0
            ph = numpy.asarray(z.phaseFromZernikes(e, N, norm=norm, rot=rot), dtype=float)
            o.stat("lib_calls", 1)
            if ph.shape != (N, N):
                o.check("phase_shape", False, sub="K=%d" % K, detail="shape %s" % (ph.shape,))
                return o
            if finite.all():
                worst = max(worst, _diff_nan(ph.reshape(-1), T[:, k]))
        o.check("phase_shape", True)
        if not finite.all():
            o.stat("phase_K_skipped_degenerate_normalisation", 1)
            continue
        o.close("phase_unit_vector_is_mode", worst, tolm, sub="K=%d" % K)
        # superpositions: e_a + 2 e_b (every a), a dense vector, a scalar multiple, ndarray input
        combos = []
        for a in range(K):
            c = numpy.zeros(K)
            c[a] += 1.0
            c[(a * 7 + 3) % K] += 2.0
            combos.append(c)
        combos.append((numpy.arange(1, K + 1) % 5 - 2.0) * 0.75)
        combos.append(-3.5 * combos[-1])
        scale = max(_maxabs(T), 1e-300)
        # the sum of K rounded products, plus the rounding of the modes themselves (relative to the largest)
        tol_lin = max(TOL_LIN, 10 * K * EPS) + tolm / scale
        worst = 0.0
        for ic, c in enumerate(combos):
            # list spelling for every combination, ndarray spelling for the two dense ones
            for arg in ((list(c), c.copy()) if ic >= K else (list(c),)):
                ph = numpy.asarray(z.phaseFromZernikes(arg, N, norm=norm, rot=rot), dtype=float)
                o.stat("lib_calls", 1)
                worst = max(worst, _diff_nan(ph.reshape(-1), T @ c) / (scale * max(1.0, numpy.abs(c).sum())))
        o.close("phase_is_linear_combination", worst, tol_lin, sub="K=%d" % K)
        # homogeneity over many decades of amplitude (a wavefront in metres has coefficients of 1e-9 ... 1e-6);
        # the error is measured against sum_k |T_k| |c_k| (what the rounding of a sum is proportional to)
        c = combos[K]
        base = T @ c
        mag = max(_maxabs(numpy.abs(T) @ numpy.abs(c)), 1e-300)
        worst = 0.0
        for s_ in (1e-300, 1e-30, 1e-12, 1e-9, 1e-7, 1e6, 1e30):
            ph = numpy.asarray(z.phaseFromZernikes(list(c * s_), N, norm=norm, rot=rot), dtype=float)
            o.stat("lib_calls", 1)
            worst = max(worst, _diff_nan(ph.reshape(-1) / s_, base) / mag)
        o.close("phase_homogeneous_over_amplitude", worst, tol_lin, sub="K=%d" % K)
    if N >= 3:
        o.stat("nontrivial", 1)
    return o


# ------------------------------------------------------------------------------ Gram ladder

def _gram(o, N, rot, J):
    if not _need(o, "zernikeArray"):
        return o
    z = _zmod()
    _, _, inside = zern.grid(N)
    Zs = numpy.asarray(z.zernikeArray(J, N, norm="noll", rot=rot), dtype=float)
    o.stat("lib_calls", 1)
    V = Zs[:, inside]
    G = V @ V.T / float(inside.sum())
    err = _maxabs(G - numpy.eye(J))
    o.note("gram_err", err)
    o.check("gram_finite", bool(numpy.isfinite(err)), measure=err)
    o.stat("nontrivial", 1)
    return o


def finalize(tier, results):
    o = Out()
    for rn, _ in _rots(tier):
        errs = []
        for N in _ladder(tier):
            r = results.get("gram:rot=%s:N=%d" % (rn, N))
            if r is None or "gram_err" not in r.notes:
                errs = None
                break
            errs.append(float(r.notes["gram_err"]))
        if errs is None:
            o.stat("skipped_entry_point_unavailable", 1)
            continue
        for a, b, N in zip(errs[:-1], errs[1:], _ladder(tier)[1:]):
            o.check("gram_ladder_decreasing", b < a, sub="rot=%s:N=%d" % (rn, N), measure=b / a, tol=1.0,
                    detail="max|G-I| along the ladder: %s" % errs)
        o.close("gram_ladder_end_below_bound", errs[-1], GRAM_END, sub="rot=%s" % rn,
                detail="ladder %s -> %s" % (_ladder(tier), errs))
        o.note("gram_ladder_rot=%s" % rn, errs)
    return o


# ------------------------------------------------------------------------------ gamma matrices

def _gamma_reference(nzrad, validated):
    """zern.gamma_ref; for radial orders beyond the exact self-test of setup() every row is validated by Parseval:
    |dZ_i/dx|^2 (exact disc integral of the exact derivative) = sum_j gamma_x[i, j]^2, i.e. the expansion on the
    lower-order modes is complete and correctly normalised"""
    gx, gy, table = zern.gamma_ref(nzrad)
    if not validated:
        nz = len(table) - 1
        for i in range(nz):
            n, m = table[i + 1]
            P = zern.cart_poly(n, m)
            for g, d in ((gx, zern.p_dx(P)), (gy, zern.p_dy(P))):
                total = float(zern.p_inner(d, d) * zern.norm2(n, m))
                proj = float(numpy.sum(g[i] ** 2))
                if abs(total - proj) > 1e-10 * max(1.0, total):
                    raise RuntimeError("reference gamma matrices fail Parseval at nzrad=%d row %d" % (nzrad, i + 1))
    return gx, gy, table


def _gamma(o, nzrad, validated=True):
    if not _need(o, "makegammas"):
        return o
    z = _zmod()
    g = numpy.asarray(z.makegammas(nzrad))
    o.stat("lib_calls", 1)
    nz = zern.n_modes(nzrad)
    if not o.check("gamma_shape", g.shape == (2, nz, nz), detail="shape %s, expected %s" % (g.shape, (2, nz, nz))):
        return o
    gx, gy, table = _gamma_reference(nzrad, validated)
    for name, got, ref in (("x", g[0].astype(float), gx), ("y", g[1].astype(float), gy)):
        rel = numpy.abs(got - ref) / numpy.maximum(1.0, numpy.abs(ref))
        for i in range(nz):
            w = float(rel[i].max())
            jbad = int(numpy.argmax(rel[i]))
            o.check("gamma_%s_row_equals_exact_derivative" % name, w <= TOL_GAMMA, sub="i=%d" % (i + 1), measure=w,
                    tol=TOL_GAMMA, n=nz,
                    detail="d Z%d/d%s: coefficient on Z%d is %r, exact %r" % (i + 1, name, jbad + 1,
                                                                            float(got[i, jbad]), float(ref[i, jbad])))
        # only modes of strictly lower radial order may appear (to the accuracy the entries are given with: a
        # gamma obtained by projection or quadrature has entries ~1e-17 there, not literal zeros)
        low = numpy.array([[table[j + 1][0] < table[i + 1][0] for j in range(nz)] for i in range(nz)])
        o.close("gamma_%s_lower_order_support" % name, _maxabs(got[~low]), TOL_GAMMA)
    if nzrad >= 2:
        o.stat("nontrivial", 1)
    o.outcome(numpy.round(g.astype(float), 5))
    return o


def _gammafd(o, nzrad, N):
    """the stated observation point: central differences of the generated arrays in the pupil interior"""
    if not _need(o, "makegammas", "zernikeArray"):
        return o
    z = _zmod()
    nz = zern.n_modes(nzrad)
    g = numpy.asarray(z.makegammas(nzrad)).astype(float)
    Zs = numpy.asarray(z.zernikeArray(nz, N), dtype=float)
    o.stat("lib_calls", 2)
    if g.shape != (2, nz, nz) or Zs.shape != (nz, N, N):
        o.check("fd_shapes", False, detail="%s %s" % (g.shape, Zs.shape))
        return o
    table = zern.noll_table(nzrad)
    X, Y, inside = zern.grid(N)
    h = 2.0 / N
    zmax = numpy.array([_maxabs(Zs[j]) for j in range(nz)])
    # stencils completely inside the pupil
    vx = inside[:, 1:-1] & inside[:, :-2] & inside[:, 2:]
    vy = inside[1:-1, :] & inside[:-2, :] & inside[2:, :]
    for i in range(nz):
        n, m = table[i + 1]
        c = math.sqrt(zern.norm2(n, m))
        P = zern.cart_poly(n, m)
        for axis, name, valid in ((1, "x", vx), (0, "y", vy)):
            d = zern.p_dx if axis == 1 else zern.p_dy
            P3 = d(d(d(P)))
            P4 = d(P3)
            if axis == 1:
                fd = (Zs[i][:, 2:] - Zs[i][:, :-2]) / (2 * h)
                pred = numpy.tensordot(g[0][i], Zs, axes=(0, 0))[:, 1:-1]
                b3 = _maxabs(zern.p_eval(P3, X[:, 1:-1], Y[:, 1:-1])[valid]) if valid.any() else 0.0
            else:
                fd = (Zs[i][2:, :] - Zs[i][:-2, :]) / (2 * h)
                pred = numpy.tensordot(g[1][i], Zs, axes=(0, 0))[1:-1, :]
                b3 = _maxabs(zern.p_eval(P3, X[1:-1, :], Y[1:-1, :])[valid]) if valid.any() else 0.0
            # rigorous truncation error of the central difference (attained exactly by cubic / quartic modes) ...
            taylor = h * h / 6.0 * c * (b3 + h * zern.p_abs_sum(P4))
            # ... plus what a gamma that is right to TOL_GAMMA (the accuracy demanded of its entries; float32
            # storage is 1.2e-7) can contribute, plus the rounding of the differences of the modes themselves
            # (mode errors ~1e-13 over 2h: < 1e-10)
            slack = TOL_GAMMA * float(numpy.abs(g[0 if axis == 1 else 1][i]) @ zmax) + 1e-9
            err = _maxabs((fd - pred)[valid])
            o.check("fd_gradient_%s_matches_gamma" % name, err <= taylor + slack, sub="i=%d" % (i + 1),
                    measure=max(0.0, err - taylor) / slack, tol=1.0,
                    detail="max|central difference - sum_j gamma[i,j] Z_j| = %.3g, Taylor remainder %.3g, "
                    "rounding slack %.3g" % (err, taylor, slack))
    o.stat("nontrivial", 1)
    return o


# ------------------------------------------------------------------------------ argument spellings

def _call(f, *a, **k):
    """(result, None) or (None, exception text)"""
    try:
        return f(*a, **k), None
    except Exception as e:
        return None, _exc(e)


INT_SCALARS = ["uint8", "int8", "int16", "uint16", "int32", "uint32", "int64", "uint64", "intp"]
# (8-bit indices included since the repair a93c672 of /repo: zernIndex(numpy.uint8(36)) had returned [2, 32] -
#  8 * (j - 1) was evaluated in the dtype of j - and int8 raised from j = 17)


def _spellings(o, N):
    z = _zmod()
    table = zern.noll_table(20)
    if _need(o, "zernIndex"):
        # the index as a numpy integer scalar (what iterating over an index array hands out)
        for dt in INT_SCALARS:
            ty = numpy.dtype(dt).type
            bad = []
            for j in range(1, min(232, int(numpy.iinfo(dt).max) + 1)):
                r, exc = _call(z.zernIndex, ty(j))
                o.stat("lib_calls", 1)
                try:
                    got = exc if exc else (int(r[0]), int(r[1]))
                except Exception:
                    got = repr(r)
                if got != table[j]:
                    bad.append((j, got))
            o.check("index_numpy_integer_scalar", not bad, sub=dt, n=231,
                    detail="zernIndex(numpy.%s(%d)) -> %s, expected %s; %d wrong of j = 1..231"
                    % (dt, bad[0][0], bad[0][1], table[bad[0][0]], len(bad)) if bad else None)
    if _need(o, "zernikeArray"):
        for norm in NORMS:
            # counts
            for J in (1, 5, 36):
                want = numpy.asarray(z.zernikeArray(J, N, norm=norm), dtype=float)
                o.stat("lib_calls", 1)
                spell = [(dt, numpy.dtype(dt).type(J), True) for dt in INT_SCALARS]
                spell += [("float", float(J), False), ("float64", numpy.float64(J), False),
                          ("0-d array", numpy.array(J), False)]
                for name, arg, required in spell:
                    got, exc = _call(z.zernikeArray, arg, N, norm=norm)
                    o.stat("lib_calls", 1)
                    if exc is not None and not required:
                        o.stat("count_float_spelling_rejected_not_claimed", 1)
                        continue
                    if exc is not None:
                        o.check("count_numpy_integer_equals_int", False, sub="%s:%s:J=%d" % (norm, name, J), detail=exc)
                        continue
                    cl = "count_numpy_integer_equals_int" if required else "count_float_spelling_equals_int"
                    o.close(cl, _diff_nan(numpy.asarray(got, dtype=float), want), TOL_VAL, sub="%s:%s:J=%d" % (norm, name, J))
            # index sequences of other integer dtypes, other containers
            for L in ([1], [4], [36], [2, 3, 4], [11, 7, 36], [5, 5, 2, 29]):
                want = numpy.asarray(z.zernikeArray(L, N, norm=norm), dtype=float)
                o.stat("lib_calls", 1)
                spell = [(dt, numpy.array(L, dtype=dt)) for dt in INT_SCALARS if max(L) <= numpy.iinfo(dt).max]
                ro = numpy.array(L)
                ro.flags.writeable = False
                spell += [("read_only", ro), ("tuple", tuple(L)), ("list_of_int64", [numpy.int64(j) for j in L]),
                          ("strided", numpy.array([v for j in L for v in (j, 0)])[::2])]
                for name, arg in spell:
                    keep = arg.copy() if isinstance(arg, numpy.ndarray) else None
                    got, exc = _call(z.zernikeArray, arg, N, norm=norm)
                    o.stat("lib_calls", 1)
                    sub = "%s:%s:%s" % (norm, name, "-".join(map(str, L)))
                    if exc is not None:
                        o.check("index_sequence_spelling_equals_list", False, sub=sub, detail=exc)
                        continue
                    o.close("index_sequence_spelling_equals_list", _diff_nan(numpy.asarray(got, dtype=float), want),
                            TOL_VAL, sub=sub)
                    if keep is not None:
                        o.check("index_sequence_unchanged", bool(numpy.array_equal(keep, arg)), sub=sub)
    if _need(o, "phaseFromZernikes", "zernikeArray"):
        for norm in NORMS:
            for vals in ([0, 1, 2, -1, 3], [2], [0, 0, 0, 1], [1, 0, -2, 0, 0, 4, 0, 0, 0, 3, -1]):
                K = len(vals)
                T = numpy.asarray(z.zernikeArray(K, N, norm=norm), dtype=float).reshape(K, -1).T
                want = (T @ numpy.array(vals, dtype=float)).reshape(N, N)
                o.stat("lib_calls", 1)
                tol = max(TOL_LIN, 10 * K * EPS) * max(_maxabs(T), 1e-300) * max(1.0, float(numpy.abs(vals).sum())) \
                    + _tol_modes(_order_of(K)) * float(numpy.abs(vals).sum())
                ro = numpy.array(vals, dtype=float)
                ro.flags.writeable = False
                spell = [("int_list", list(vals)), ("float_list", [float(v) for v in vals]),
                         ("tuple", tuple(float(v) for v in vals)), ("int64_array", numpy.array(vals, dtype="int64")),
                         ("int32_array", numpy.array(vals, dtype="int32")),
                         ("float32_array", numpy.array(vals, dtype="float32")),
                         ("float64_array", numpy.array(vals, dtype=float)), ("read_only_array", ro),
                         ("strided_array", numpy.array([v for x in vals for v in (x, 9.0)])[::2])]
                for name, arg in spell:
                    keep = arg.copy() if isinstance(arg, numpy.ndarray) else list(arg)
                    got, exc = _call(z.phaseFromZernikes, arg, N, norm=norm)
                    o.stat("lib_calls", 1)
                    sub = "%s:%s:K=%d" % (norm, name, K)
                    if exc is not None:
                        o.check("phase_coefficient_spelling", False, sub=sub, detail=exc)
                        continue
                    o.close("phase_coefficient_spelling", _diff_nan(numpy.asarray(got, dtype=float), want), tol, sub=sub)
                    same = numpy.array_equal(keep, arg) if isinstance(arg, numpy.ndarray) else list(arg) == keep
                    o.check("phase_coefficients_unchanged", bool(same), sub=sub)
            # no coefficients: the empty combination is the zero phase (an implementation may refuse it)
            got, exc = _call(z.phaseFromZernikes, [], N, norm=norm)
            o.stat("lib_calls", 1)
            if exc is not None:
                o.stat("phase_empty_vector_rejected_not_claimed", 1)
            else:
                got = numpy.asarray(got, dtype=float)
                o.check("phase_empty_vector_is_zero", got.shape == (N, N) and _maxabs(got) == 0.0, sub=norm,
                        detail="shape %s" % (got.shape,))
    if _need(o, "zernikeRadialFunc"):
        r = numpy.sqrt(numpy.add.outer(numpy.linspace(0, 1, 9) ** 2, numpy.linspace(0, 1, 9) ** 2) / 2.0)
        ro = r.copy()
        ro.flags.writeable = False
        for n, m in ((6, 2), (7, 1), (5, 5), (4, 0)):
            ref = zern.radial_eval(n, m, r)
            for name, arg in (("read_only", ro), ("fortran", numpy.asfortranarray(r)),
                              ("strided", numpy.repeat(r, 2, axis=1)[:, ::2])):
                got, exc = _call(z.zernikeRadialFunc, n, m, arg)
                o.stat("lib_calls", 1)
                sub = "%s:n=%d:m=%d" % (name, n, m)
                if exc is not None:
                    o.check("radial_argument_storage", False, sub=sub, detail=exc)
                    continue
                o.close("radial_argument_storage", _diff_nan(numpy.asarray(got, dtype=float), ref), TOL_VAL, sub=sub)
                o.check("radial_argument_unchanged", bool(numpy.array_equal(arg, r)), sub=sub)
    o.stat("nontrivial", 1)
    return o


# ------------------------------------------------------------------------------ call histories

HIST_OPS = ["zernIndex", "zernike_nm", "zernike_noll", "zernike_noll_rot", "array_noll", "array_p2v", "array_rms",
            "array_rot", "list_noll", "list_p2v", "phase_noll", "phase_rms", "makegammas4", "makegammas3",
            "zernikeRadialFunc"]
HIST_J = 21


def _hist_call(name, N):
    z = _zmod()
    t = zern.noll_table(5)
    c = [((k * 5) % 7 - 3) * 0.5 for k in range(HIST_J)]
    if name == "zernIndex":
        return [z.zernIndex(j) for j in range(1, 37)]
    if name == "zernike_nm":
        return [z.zernike_nm(t[j][0], t[j][1], N) for j in range(1, HIST_J + 1)]
    if name == "zernike_noll":
        return [z.zernike_noll(j, N) for j in range(1, HIST_J + 1)]
    if name == "zernike_noll_rot":
        return [z.zernike_noll(j, N, 0.3) for j in range(1, HIST_J + 1)]
    if name in ("array_noll", "array_p2v", "array_rms"):
        return z.zernikeArray(HIST_J, N, norm=name[6:])
    if name == "array_rot":
        return z.zernikeArray(HIST_J, N, rot=0.3)
    if name in ("list_noll", "list_p2v"):
        return z.zernikeArray([4, 2, 7, 11, 3], N, norm=name[5:])
    if name in ("phase_noll", "phase_rms"):
        return z.phaseFromZernikes(c, N, norm=name[6:])
    if name == "makegammas4":
        return z.makegammas(4)
    if name == "makegammas3":
        return z.makegammas(3)
    if name == "zernikeRadialFunc":
        return z.zernikeRadialFunc(6, 2, numpy.linspace(0.0, 1.0, 17).reshape(1, -1))
    raise KeyError(name)


def _scribble(r, depth=0):
    """the caller owns what a call returned: overwrite it in place"""
    if isinstance(r, numpy.ndarray):
        if r.flags.writeable and r.size:
            r[...] = r * 2 + 1
        return
    if isinstance(r, list) and depth < 4:
        if r and all(isinstance(v, (int, float, numpy.integer, numpy.floating)) for v in r):
            for i in range(len(r)):
                r[i] = 99 if i % 2 else -99
            return
        for v in r:
            _scribble(v, depth + 1)
    elif isinstance(r, tuple) and depth < 4:
        for v in r:
            _scribble(v, depth + 1)


def _canon(r):
    """result -> list of float arrays"""
    if isinstance(r, numpy.ndarray):
        return [numpy.array(r, dtype=float)]
    if isinstance(r, (list, tuple)):
        if r and all(isinstance(v, (int, float, numpy.integer, numpy.floating)) for v in r):
            return [numpy.array([float(v) for v in r])]
        out = []
        for v in r:
            out.extend(_canon(v))
        return out
    return [numpy.array([float(r)])]


def _hist_child(N, first, second):
    """runs in a forked child: `first` (result overwritten by the caller), then `second`"""
    try:
        with _quiet():
            if first is not None:
                _scribble(_hist_call(first, N))
            return ("ok", _canon(_hist_call(second, N)))
    except Exception as e:
        return ("exc", _exc(e))


def _history(o, N, first):
    """B after A equals B in a pristine process, for every B: the entry points are functions of their arguments
    (no mode list that grows across calls, no memo handed out by reference, no stack normalised in place in a
    cache).  Every run is a fresh fork of this (library-free) case process."""
    from mc.isolate import isolated
    if not _need(o, *ENTRY_POINTS):
        return o
    for second in HIST_OPS:
        k0, pristine = isolated(_hist_child, N, None, second)
        k1, after = isolated(_hist_child, N, first, second)
        o.stat("lib_calls", 3)
        sub = "then=%s" % second
        if k0 != "ok":
            o.stat("history_pristine_call_failed_not_claimed", 1)     # reported by the value cases
            continue
        if k1 != "ok":
            o.check("result_independent_of_call_history", False, sub=sub, detail=after)
            continue
        if len(pristine) != len(after) or any(a.shape != b.shape for a, b in zip(pristine, after)):
            o.check("result_independent_of_call_history", False, sub=sub,
                    detail="shapes %s after %s, %s in a fresh process" % ([a.shape for a in after][:3], first,
                                                                         [a.shape for a in pristine][:3]))
            continue
        worst = max([0.0] + [_diff_nan(a, b) for a, b in zip(after, pristine)])
        o.close("result_independent_of_call_history", worst, TOL_VAL, sub=sub)
    o.stat("nontrivial", 1)
    return o
