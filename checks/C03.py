"""C03 Covariance construction is independent of process count and scheduling.

E4 + E3: the real CovarianceMatrix object is driven through every history of rebuilds
(thread count toggled) and, inside every multi-process build, through every completion
order a k-worker FIFO pool can produce (controlled pool substituted for
`slopecovariance.multiprocessing`).  Every schedule is also replayed on the REAL
multiprocessing.Pool with injected delays that force that order, and the scheduler model
is cross-checked against a TLA+ model explored by TLC.
"""
import itertools
import os
import re
import shutil
import subprocess
import tempfile
import time

import numpy

from mc import Out, Case
from mc import sched
from mc.core import digest, VERIF

PROPERTY = "C03"
LEVEL = "model_checking"
OWN_SCHEDULING = True      # this check drives the pools itself
ENGINES = ["E4-schedule-exploration", "E3-explicit-state-history-search"]
TECHNIQUE = ("stateless schedule exploration (all completion orders of a k-worker FIFO pool, "
             "deviation-bounded where stated) of the real builder under a controlled pool, over all rebuild "
             "histories to a depth bound; every schedule replayed on the real multiprocessing.Pool; "
             "scheduler model cross-checked with TLC")
RULE = ("case = (configuration, history of thread counts); inside a case every choice sequence of the "
        "controlled pool (which running chunk finishes next, at every map call of every build) is "
        "enumerated; an execution is non-trivial when at least one completion differs from FIFO order")
ASSUMPTIONS = [
    "pool model: FIFO task queue, k workers, chunking as multiprocessing.Pool.map; nondeterminism = which "
    "running chunk completes next (validated against the real pool by forced-order replays and against TLC)",
    "tasks are executed in-process in completion order by the controlled pool; pickling of float64 arrays is "
    "exact (exercised by the real-pool replays)",
    "geometries: the 4 configurations listed in bounds; worker counts 1..4; history depth bound per tier",
]
LEVEL_TEXT = ("Every completion order of the per-WFS-pair tasks for worker counts 1..4 and every rebuild history "
              "up to the depth bound is executed on the real CovarianceMatrix code under a controlled scheduler "
              "(complete for 2-sensor geometries and for 3-sensor single-layer builds; deviation-bounded otherwise) "
              "and compared bit for bit with the single-process reference; all schedules of the small "
              "configurations are replayed on the real multiprocessing.Pool, and the scheduler model's set of "
              "completion orders equals TLC's for the same (n,k).")
LEVEL_NOTE = ("Trusted: the FIFO/chunking pool model (bound to the real pool by replay: observed completion order "
              "must equal the scheduled one), numpy bit comparison. Not covered: other start methods than fork, "
              "more than 3 sensors, worker crashes.")

UNIT = 0.04   # seconds between forced completions on the real pool
MAX_RUNS = {"quick": 8000, "thorough": 60000}


def _mask(rows):
    return numpy.array(rows, dtype=int)


CONFIGS = {
    # every task returns a block of a different shape or value (unequal n_subaps, mixed NGS/LGS)
    "A2": dict(n_wfs=2, masks=[[[1, 1], [0, 1]], [[1, 1], [1, 1]]], D=1.0, sd=[0.5, 0.5],
               gsalt=[0, 90000.], gspos=[[0, 0], [20., -10.]], wl=[500e-9, 700e-9],
               layers=[(0., 0.2, 25.), (5000., 0.3, 10.)]),
    "B3": dict(n_wfs=3, masks=[[[1, 0], [0, 0]], [[1, 1], [0, 0]], [[1, 1], [0, 1]]], D=1.0, sd=[0.5, 0.5, 0.5],
               gsalt=[0, 90000., 20000.], gspos=[[0, 0], [15., 5.], [-10., 20.]], wl=[500e-9, 600e-9, 700e-9],
               layers=[(5000., 0.3, 10.)]),
    "C2": dict(n_wfs=2, masks=[[[1, 0, 0], [1, 0, 0], [1, 1, 1]], [[1, 1, 1], [1, 1, 1], [1, 1, 1]]], D=1.5,
               sd=[0.5, 0.5], gsalt=[90000., 0], gspos=[[5., 0], [0., -8.]], wl=[500e-9, 500e-9],
               layers=[(0., 0.2, 25.), (5000., 0.3, 10.), (12000., 0.5, 100.)]),
    "D3": dict(n_wfs=3, masks=[[[1, 1], [1, 0]], [[0, 1], [1, 1]], [[1, 1], [1, 1]]], D=1.0, sd=[0.5, 0.5, 0.5],
               gsalt=[0, 0, 90000.], gspos=[[0, 0], [30., 0.], [0., -30.]], wl=[500e-9, 500e-9, 589e-9],
               layers=[(0., 0.2, 25.), (12000., 0.5, 100.)]),
    # many layers (a layer loop that works in blocks shows only above the block length), every argument handed
    # over as a float64 / int64 ndarray owned by the caller instead of a list
    "E2": dict(n_wfs=2, masks=[[[1, 1], [1, 0]], [[1, 1], [1, 1]]], D=1.0, sd=[0.5, 0.5],
               gsalt=[90000., 0], gspos=[[12., -7.], [0., 25.]], wl=[589e-9, 700e-9],
               layers=[(1500. * k, 0.2 + 0.03 * k, 10. + 5. * (k % 3)) for k in range(10)], forms="ndarray"),
    # a low (Rayleigh) laser guide star with a layer above its altitude (negative cone factor), unequal
    # sub-aperture sizes in every pair
    "F2": dict(n_wfs=2, masks=[[[1, 1], [1, 1]], [[1, 1, 0], [1, 1, 1], [0, 1, 1]]], D=1.2, sd=[0.6, 0.4],
               gsalt=[13500., 0], gspos=[[10., 4.], [-6., 0.]], wl=[532e-9, 700e-9],
               layers=[(0., 0.2, 25.), (9000., 0.4, 30.), (16000., 0.5, 50.)]),
}
THREADS = [1, 2, 3, 4]


def BOUNDS(tier):
    return {"configs": {k: {"n_wfs": v["n_wfs"], "n_layers": len(v["layers"]),
                            "n_subaps": [int(numpy.sum(m)) for m in v["masks"]]} for k, v in CONFIGS.items()},
            "threads": THREADS, "plan": [list(map(str, p)) for p in _plan(tier)],
            "tlc": _tlc_pairs(tier), "real_pool_unit_s": UNIT}


def _plan(tier):
    """(config, depth, deviation bound or None=all)"""
    if tier == "quick":
        return [("A2", 2, None), ("B3", 1, None), ("B3", 2, 2), ("C2", 2, 2), ("D3", 1, 2), ("E2", 2, 1), ("F2", 2, 1)]
    return [("A2", 3, 3), ("A2", 2, None), ("B3", 1, None), ("B3", 2, 3), ("C2", 2, None), ("C2", 3, 2),
            ("D3", 1, 4), ("D3", 2, 2), ("B3", 3, 2), ("E2", 2, 2), ("E2", 3, 1), ("F2", 2, None), ("F2", 3, 1)]


def _tlc_pairs(tier):
    return [(3, 2), (3, 3)] if tier == "quick" else [(3, 1), (3, 2), (3, 3), (3, 4), (6, 2), (6, 3), (6, 4)]


def cases(tier):
    seen = set()
    for cfg, depth, bound in _plan(tier):
        for d in range(1, depth + 1):
            for hist in itertools.product(THREADS, repeat=d):
                cid = "explore:%s:h=%s:dev=%s" % (cfg, "".join(map(str, hist)), "all" if bound is None else bound)
                key = (cfg, hist)
                # a complete exploration subsumes a bounded one of the same history
                if key in seen:
                    continue
                seen.add(key)
                yield Case(cid, {"kind": "explore", "cfg": cfg, "hist": list(hist), "bound": bound, "tier": tier},
                           any(t > 1 for t in hist))
    real = [("A2", 2), ("A2", 3), ("B3", 2)] if tier == "quick" else \
        [("A2", 2), ("A2", 3), ("A2", 4), ("B3", 2), ("B3", 3), ("C2", 2), ("C2", 3)]
    for cfg, k in real:
        yield Case("realpool:%s:k=%d" % (cfg, k), {"kind": "real", "cfg": cfg, "k": k,
                                                    "bound": None if CONFIGS[cfg]["n_wfs"] == 2 else 2})
    for n, k in _tlc_pairs(tier):
        yield Case("tlc:n=%d:k=%d" % (n, k), {"kind": "tlc", "n": n, "k": k})
    yield Case("selftest:order-sensitive-collectors", {"kind": "selftest"})


def _make(cfg):
    from aotools.turbulence import slopecovariance as sc
    c = CONFIGS[cfg]
    L = c["layers"]
    if c.get("forms") == "ndarray":
        A = numpy.array
        return sc.CovarianceMatrix(
            c["n_wfs"], A([_mask(m) for m in c["masks"]]), c["D"], A(c["sd"], dtype=float), A(c["gsalt"], dtype=float),
            A(c["gspos"], dtype=float), A(c["wl"], dtype=float), len(L), A([l[0] for l in L], dtype=float),
            A([l[1] for l in L], dtype=float), A([l[2] for l in L], dtype=float), threads=1)
    return sc.CovarianceMatrix(
        c["n_wfs"], [_mask(m) for m in c["masks"]], c["D"], list(c["sd"]), list(c["gsalt"]),
        [list(p) for p in c["gspos"]], list(c["wl"]), len(L), [l[0] for l in L], [l[1] for l in L],
        [l[2] for l in L], threads=1)


def _bits(m):
    m = numpy.asarray(m)
    return (str(m.dtype), m.shape, numpy.ascontiguousarray(m).tobytes())


def _geom_state(obj):
    return digest([[numpy.asarray(x) for x in lay] for lay in obj.subap_layer_positions] +
                  [[numpy.asarray(x, dtype=float) for x in lay] for lay in obj.subap_layer_diameters])


def _sizes(obj):
    out = {}
    for k, v in sorted(obj.__dict__.items()):
        if isinstance(v, (list, tuple)):
            out[k] = ("seq", len(v), tuple(len(x) if isinstance(x, (list, tuple)) else -1 for x in v))
        elif isinstance(v, numpy.ndarray):
            out[k] = ("arr", v.shape)
    return out


def _reference(cfg):
    obj = _make(cfg)
    ref = obj.make_covariance_matrix()
    return _bits(ref), _geom_state(obj)


def evaluate(p):
    kind = p["kind"]
    if kind == "explore":
        return _explore(p)
    if kind == "real":
        return _real(p)
    if kind == "tlc":
        return _tlc(p)
    return _selftest()


# ----------------------------------------------------------------------------- explorer

def _explore(p):
    from aotools.turbulence import slopecovariance as sc
    o = Out()
    cfg, hist, bound = p["cfg"], p["hist"], p["bound"]
    ref_bits, ref_geom = _reference(cfg)
    o.stat("lib_calls", 1)
    model_states = set()

    def run(prefix):
        ch = sched.Chooser(prefix)
        fake = sched.FakeMultiprocessing(ch)
        saved = sc.multiprocessing
        sc.multiprocessing = fake
        obs = []
        try:
            obj = _make(cfg)
            sizes_prev = None
            for step, t in enumerate(hist):
                obj.threads = t
                try:
                    m = obj.make_covariance_matrix()
                except Exception as e:      # a schedule-dependent crash is a violation of that schedule
                    obs.append((False, False, False, "raised %s: %s" % (type(e).__name__, str(e)[:200]), True))
                    break
                same_obj_attr = m is obj.covariance_matrix or numpy.array_equal(m, obj.covariance_matrix)
                obs.append((_bits(m) == ref_bits, _geom_state(obj) == ref_geom, same_obj_attr,
                            digest(m)))
                sz = _sizes(obj)
                if sizes_prev is not None and step >= 1 and hist[step] == hist[step - 1]:
                    obs[-1] = obs[-1] + (sz == sizes_prev,)
                else:
                    obs[-1] = obs[-1] + (True,)
                sizes_prev = sz
        finally:
            sc.multiprocessing = saved
        return ch, (obs, list(ch.orders), fake.pools_created)

    t0 = time.time()
    # the cap is far above anything the unchanged builder needs (<= 1296 schedules per history in the quick
    # tier, <= 46656 in the thorough one); it only bites when a changed builder submits many more tasks per call
    runs, capped = sched.explore(run, bound=bound, max_runs=MAX_RUNS[p.get("tier", "quick")], max_bad=40,
                                 is_bad=lambda ob: any(not (x[0] and x[1] and x[2] and x[4]) for x in ob[0]))
    if capped:
        o.stat("caps_hit", 1)
    o.stat("schedules_explored", len(runs))
    o.stat("builds_executed", len(runs) * len(hist))
    nontriv = 0
    for choices, (obs, orders, pools) in runs:
        tag = "sched=" + ("".join(map(str, choices)) or "-")
        if any(choices):
            nontriv += 1
        for step, ob in enumerate(obs):
            o.check("bit_identical_to_single_process", ob[0], sub="%s:build=%d" % (tag, step),
                    detail={"history": hist, "choices": list(choices), "orders": orders,
                            "observed": ob[3]})
            o.check("geometry_state_rebuilt", ob[1], sub="%s:build=%d" % (tag, step))
            o.check("returned_is_object_matrix", ob[2], sub="%s:build=%d" % (tag, step))
            o.check("no_state_growth_between_identical_builds", ob[4], sub="%s:build=%d" % (tag, step))
            o.outcome(ob[3])
        o.stat("transitions", len(choices) + len(obs))
        # scheduler states visited on this execution (per pool call: prefix of the completion order)
        for ci, od in enumerate(orders):
            for j in range(len(od["completion"]) + 1):
                model_states.add((ci, od["k"], len(od["chunks"]), tuple(od["completion"][:j])))
        expect_pools = sum(1 for t in hist if t != 1)
        o.check("one_pool_per_mp_build", pools == expect_pools, sub=tag,
                detail="pools created %d, multi-process builds %d" % (pools, expect_pools))
    o.stat("states", len(model_states) + len(hist) + 1)
    o.stat("nontrivial", max(0, nontriv - 1))
    o.note("example_orders", runs[-1][1][1][:2] if runs else None)
    return o


# ----------------------------------------------------------------------------- real pool

def _real(p):
    """replay every schedule of one multi-process build on the real multiprocessing.Pool"""
    from aotools.turbulence import slopecovariance as sc
    o = Out()
    cfg, k, bound = p["cfg"], p["k"], p["bound"]
    ref_bits, _ = _reference(cfg)
    # submission order of the tasks: record a single-process build
    keys = []
    orig = sc.wfs_covariance

    def rec(*a):
        keys.append(digest(list(a)))
        return orig(*a)
    sc.wfs_covariance = rec
    try:
        _make(cfg).make_covariance_matrix()
    finally:
        sc.wfs_covariance = orig
    nl = len(CONFIGS[cfg]["layers"])
    per_layer = len(keys) // nl
    index = {}
    for i, kk in enumerate(keys):
        index.setdefault(kk, []).append((i // per_layer, i % per_layer))
    chunks = sched.chunks_for(per_layer, k, "map")
    # schedules from the explorer (controlled pool)
    def run(prefix):
        ch = sched.Chooser(prefix)
        fake = sched.FakeMultiprocessing(ch)
        saved = sc.multiprocessing
        sc.multiprocessing = fake
        try:
            obj = _make(cfg)
            obj.threads = k
            obj.make_covariance_matrix()
        finally:
            sc.multiprocessing = saved
        # one record per pool (= per build); the builder maps layer after layer, so the chunk ids of layer l are
        # l*n .. (l+1)*n-1 and complete before those of layer l+1: split into per-layer completion orders
        n = len(chunks)
        comp = ch.orders[0]["completion"] if ch.orders else []
        return ch, [[q - l * n for q in comp if l * n <= q < (l + 1) * n] for l in range(nl)]
    runs, _ = sched.explore(run, bound=bound)
    tmp = tempfile.mkdtemp(prefix="c03_real_")
    validated = 0
    try:
        t_start = time.time()
        for choices, orders in runs:
            tag = "sched=" + ("".join(map(str, choices)) or "-")
            ok_order = False
            if time.time() - t_start > 45.0:
                # only reachable when replays need their slow retries (never on a tree where orders reproduce)
                o.stat("caps_hit", 1)
                o.note("real_pool_replay_time_cap_hit_after", validated)
                break
            for attempt, unit in enumerate((UNIT, UNIT * 3, UNIT * 8)):
                log = os.path.join(tmp, "log_%s_%d" % (tag, attempt))
                delays = {}
                for layer, order in enumerate(orders):
                    d = sched.delays_for(order, len(chunks), k, unit)
                    for ci, ch in enumerate(chunks):
                        delays[(layer, ch[0])] = d[ci]

                seen_count = {}

                def slow(*a, _log=log, _delays=delays):
                    kk = digest(list(a))
                    cands = index[kk]
                    # identical argument tuples (if any) are told apart by a per-process counter
                    c = seen_count.get(kk, 0)
                    seen_count[kk] = c + 1
                    layer, idx = cands[min(c, len(cands) - 1)]
                    time.sleep(_delays.get((layer, idx), 0.0))
                    r = orig(*a)
                    fd = os.open(_log, os.O_WRONLY | os.O_APPEND | os.O_CREAT, 0o600)
                    os.write(fd, ("%d %d %d\n" % (layer, idx, os.getpid())).encode())
                    os.close(fd)
                    return r
                sc.wfs_covariance = slow
                try:
                    obj = _make(cfg)
                    obj.threads = k
                    m = obj.make_covariance_matrix()
                finally:
                    sc.wfs_covariance = orig
                o.stat("real_pool_builds", 1)
                o.check("real_pool_bit_identical", _bits(m) == ref_bits, sub=tag,
                        detail={"orders": orders, "k": k})
                lines = [tuple(map(int, l.split())) for l in open(log).read().split("\n") if l]
                observed = []
                for layer in range(nl):
                    done_tasks = [idx for (ly, idx, pid) in lines if ly == layer]
                    # completion of a chunk = completion of its last task
                    observed.append([ci for t in done_tasks for ci, ch in enumerate(chunks) if ch[-1] == t])
                if observed == [list(x) for x in orders]:
                    ok_order = True
                    break
                if any(sorted(ob) != sorted(od) for ob, od in zip(observed, orders)) or len(observed) != len(orders):
                    break       # not a timing matter: the tasks that ran are not the tasks of the model
            if ok_order:
                validated += 1
            else:
                o.note("order_not_reproduced_" + tag, {"wanted": orders, "observed": observed})
            o.stat("real_pool_order_attempts", attempt + 1)
            # both directions: what the real pool did must be producible by the model
            for layer in range(nl):
                o.check("real_pool_order_feasible_in_model",
                        sched.feasible(observed[layer], len(chunks), k), sub="%s:layer=%d" % (tag, layer),
                        detail={"observed": observed[layer], "k": k})
    finally:
        shutil.rmtree(tmp, ignore_errors=True)
    o.stat("traces_validated_against_impl", validated)
    o.stat("real_pool_schedules", len(runs))
    o.stat("states", 1)
    o.stat("transitions", len(runs))
    # binding evidence, not a property clause: recorded, a miss is visible in the evidence
    o.note("real_pool_orders_reproduced_%s_k%d" % (cfg, k), "%d/%d" % (validated, len(runs)))
    return o


# ----------------------------------------------------------------------------- TLC

CFG = "SPECIFICATION Spec\nCONSTANTS\n N = %d\n K = %d\nINVARIANTS AtMostK Fifo NoLoss\n"


def _tlc(p):
    o = Out()
    n, k = p["n"], p["k"]
    orders, states, transitions = sched.all_completion_orders(n, k)
    py = sorted(tuple(c + 1 for c in od) for od, _ in orders)
    tlc = shutil.which("tlc")
    if tlc is None:
        o.note("tlc", "not on PATH; cross-check skipped")
        o.check("python_model_enumerated", len(py) > 0)
        return o
    tmp = tempfile.mkdtemp(prefix="c03_tlc_")
    try:
        shutil.copy(os.path.join(VERIF, "models", "Pool.tla"), os.path.join(tmp, "Pool.tla"))
        with open(os.path.join(tmp, "Pool.cfg"), "w") as f:
            f.write(CFG % (n, k))
        r = subprocess.run([tlc, "-workers", "1", "-noGenerateSpecTE", "-deadlock", "-metadir",
                            os.path.join(tmp, "meta"), "-dump", "dot,actionlabels", "out.dot", "Pool.tla"],
                           cwd=tmp, capture_output=True, text=True, timeout=600)
        txt = r.stdout
        ok = "No error has been found" in txt
        o.check("tlc_invariants_hold", ok, detail=txt[-600:])
        m = re.search(r"(\d+) states generated, (\d+) distinct states found", txt)
        dot = open(os.path.join(tmp, "out.dot")).read()
        term = set()
        edges = len(re.findall(r" -> ", dot))
        for mm in re.finditer(r'label="([^"]*)"', dot):
            lab = mm.group(1)
            d = re.search(r"done = <<([^>]*)>>", lab)
            if d is None:
                continue
            seq = tuple(int(x) for x in d.group(1).replace(" ", "").split(",") if x)
            if len(seq) == n:
                term.add(seq)
        o.check("tlc_orders_equal_python_orders", sorted(term) == py,
                detail={"tlc": len(term), "python": len(py)})
        if m:
            o.check("tlc_state_count_equals_python", int(m.group(2)) == states,
                    detail={"tlc_states": int(m.group(2)), "python_states": states})
            o.stat("tlc_states", int(m.group(2)))
        o.stat("tlc_transitions", edges)
        o.check("tlc_transition_count_equals_python", edges == transitions,
                detail={"tlc": edges, "python": transitions})
        o.stat("states", states)
        o.stat("transitions", transitions)
        o.stat("tlc_terminal_orders", len(term))
        o.note("tlc_n%d_k%d" % (n, k), {"orders": len(term), "states": states})
    finally:
        shutil.rmtree(tmp, ignore_errors=True)
    return o


# ----------------------------------------------------------------------------- self test

def _selftest():
    """The explorer must expose order-sensitive collectors (vacuity guard): three toy
    builders that are wrong in the ways the real one must not be."""
    o = Out()

    def work(x):
        return x * x

    def harness(collector, k, n=3):
        def run(prefix):
            ch = sched.Chooser(prefix)
            pool = sched.ControlledPool(ch, k)
            return ch, tuple(collector(pool, n))
        runs, _ = sched.explore(run)
        return runs

    def good(pool, n):
        return pool.map(work, range(n))

    def unordered(pool, n):
        return list(pool.imap_unordered(work, range(n)))

    def callbacks(pool, n):
        acc = []
        rs = [pool.apply_async(work, (i,), callback=acc.append) for i in range(n)]
        for r in rs:
            r.get()
        return acc
    def timeout_retry(pool, n):
        import multiprocessing
        waiting = [pool.apply_async(work, (i,)) for i in range(n)]
        got = []
        while waiting:
            r = waiting.pop(0)
            try:
                got.append(r.get(timeout=0.5))
            except multiprocessing.TimeoutError:
                waiting.append(r)
        return got

    def polling(pool, n):
        rs = [pool.apply_async(work, (i,)) for i in range(n)]
        got = []
        pending = list(range(n))
        while pending:
            for i in list(pending):
                if rs[i].ready():
                    got.append(rs[i].get())
                    pending.remove(i)
        return got
    for coll in (timeout_retry, polling):
        runs = harness(coll, 2)
        outs = set(r[1] for r in runs)
        o.check("selftest_timeout_and_polling_collectors_exposed", len(outs) > 1 and (0, 1, 4) in outs,
                sub=coll.__name__, detail={"outcomes": sorted(outs), "schedules": len(runs)})
    for k, want in ((1, 1), (2, 4), (3, 6)):
        runs = harness(good, k)
        o.check("selftest_schedule_count", len(runs) == want, sub="k=%d" % k, detail=len(runs))
        o.check("selftest_ordered_map_single_outcome", len(set(r[1] for r in runs)) == 1, sub="k=%d" % k)
        for coll in (unordered, callbacks):
            runs = harness(coll, k)
            outs = set(r[1] for r in runs)
            o.check("selftest_order_sensitive_collector_exposed", len(outs) == want,
                    sub="%s:k=%d" % (coll.__name__, k), detail={"outcomes": len(outs), "schedules": len(runs)})
    # enumeration agrees with the closed recursion
    for n, k in ((3, 2), (6, 2), (6, 3), (6, 6)):
        orders, _, _ = sched.all_completion_orders(n, k)
        def run(prefix, n=n, k=k):
            ch = sched.Chooser(prefix)
            sched.ControlledPool(ch, k).map(work, range(n), chunksize=1)
            return ch, tuple(ch.orders[0]["completion"])
        runs, _ = sched.explore(run)
        o.check("selftest_explorer_equals_recursion", sorted(set(r[1] for r in runs)) == sorted(od for od, _ in orders)
                and len(runs) == len(orders), sub="n=%d:k=%d" % (n, k), detail={"runs": len(runs), "orders": len(orders)})
        o.check("selftest_all_feasible", all(sched.feasible(od, n, k) for od, _ in orders), sub="n=%d:k=%d" % (n, k))
    # deviation bound 1 = FIFO + single swaps
    def run(prefix):
        ch = sched.Chooser(prefix)
        sched.ControlledPool(ch, 3).map(work, range(3), chunksize=1)
        return ch, None
    r1, _ = sched.explore(run, bound=1)
    o.check("selftest_deviation_bound", len(r1) == 4, detail=len(r1))
    o.stat("states", 1)
    o.stat("transitions", 1)
    return o


def replay_one(p, failure):
    """Re-executes exactly one recorded schedule of an `explore` case (no exploration): the history of
    builds with the recorded choice sequence under the controlled pool. -> (still_fails, description)"""
    import re as _re
    from aotools.turbulence import slopecovariance as sc
    if p["kind"] != "explore" or not failure.get("sub"):
        o = evaluate(p)
        ids = ["%s|%s" % (f["clause"], f["sub"]) for f in o.failures]
        return ("%s|%s" % (failure["clause"], failure["sub"])) in ids, "re-evaluated whole case"
    m = _re.match(r"sched=([0-9-]+)(?::build=(\d+))?", failure["sub"])
    choices = [] if m.group(1) == "-" else [int(c) for c in m.group(1)]
    ref_bits, ref_geom = _reference(p["cfg"])
    ch = sched.Chooser(choices)
    fake = sched.FakeMultiprocessing(ch)
    saved = sc.multiprocessing
    sc.multiprocessing = fake
    res = []
    try:
        obj = _make(p["cfg"])
        for t in p["hist"]:
            obj.threads = t
            try:
                mtx = obj.make_covariance_matrix()
                res.append(_bits(mtx) == ref_bits and _geom_state(obj) == ref_geom)
            except Exception as e:
                res.append("raised %s" % type(e).__name__)
                break
    finally:
        sc.multiprocessing = saved
    bad = [i for i, r in enumerate(res) if r is not True]
    return bool(bad), "history threads=%s, choices=%s, completion orders=%s, per-build identical=%s" % (
        p["hist"], choices, [od["completion"] for od in ch.orders], res)
