"""C03 Covariance construction is independent of process count and scheduling.

E4 + E3: the real CovarianceMatrix object is driven through every history of rebuilds
(thread count toggled, the caller editing the returned matrix in place between builds) and,
inside every multi-process build, through every completion order a k-worker FIFO pool can
produce (every way the library can reach a process pool or a concurrent.futures executor is
redirected to controlled ones, `mc.sched.patched_pools` / `patched_executors`).  Histories over
two live objects with different geometry, long FIFO histories with held results, builds on the
unpatched real pool, replays of every schedule on the REAL multiprocessing.Pool with injected
delays that force that order, and a cross-check of the scheduler model against a TLA+ model
explored by TLC complete it.
"""
import itertools
import os
import re
import shutil
import subprocess
import tempfile
import time

import numpy

from mc import Out, Case
from mc import sched
from mc.core import digest, VERIF

PROPERTY = "C03"
LEVEL = "model_checking"
OWN_SCHEDULING = True      # this check drives the pools itself
# every case runs in a forked child: controlled pools that a library keeps at module level, worker processes it
# leaves behind and anything else it remembers cannot reach the next case (the verdict of a case does not depend on
# which cases shared a worker with it, i.e. not on VERIF_SEED / VERIF_JOBS / --only)
ISOLATE_CASES = True
ENGINES = ["E4-schedule-exploration", "E3-explicit-state-history-search"]
TECHNIQUE = ("stateless schedule exploration (all completion orders of a k-worker FIFO pool, "
             "deviation-bounded where stated) of the real builder under a controlled pool, over all rebuild "
             "histories to a depth bound with the caller editing each returned matrix in place; histories over two "
             "live objects of different geometry; long FIFO histories with held results; every schedule of the small "
             "configurations replayed on the real multiprocessing.Pool; unpatched real-pool builds for every "
             "configuration and worker count; scheduler model cross-checked with TLC")
RULE = ("case = (configuration, history of thread counts [, which of two objects builds]); the first letter of a "
        "history constructs the object with that thread count, later letters assign `threads`; after every build the "
        "caller overwrites the returned matrix in place; inside a case every choice sequence of the "
        "controlled pool (which running chunk finishes next, at every map call of every build) is "
        "enumerated; an execution is non-trivial when at least one completion differs from FIFO order")
ASSUMPTIONS = [
    "pool model: FIFO task queue, k workers, chunking as multiprocessing.Pool.map; nondeterminism = which "
    "running chunk completes next (validated against the real pool by forced-order replays and against TLC)",
    "tasks are executed in-process in completion order by the controlled pool; task arguments and results pass "
    "through pickle in both directions as they do between processes (also exercised by the real-pool builds)",
    "the reference of every build is the single-process build of a fresh object with the same parameters in the same "
    "interpreter; object parameters other than `threads` are not edited between builds (the statement does not say "
    "what such an edit means)",
    "geometries: the configurations listed in bounds (1-4 sensors, 1-10 layers, up to 400 matrix rows); worker "
    "counts 1..4; history depth bound per tier",
]
LEVEL_TEXT = ("Every completion order of the per-WFS-pair tasks for worker counts 1..4 and every rebuild history "
              "up to the depth bound is executed on the real CovarianceMatrix code under a controlled scheduler "
              "(complete for the 1- and 2-sensor 2x2 geometries and for 3-sensor single-layer builds; "
              "deviation-bounded otherwise) "
              "and compared bit for bit with the single-process reference; all schedules of the small "
              "configurations are replayed on the real multiprocessing.Pool, and the scheduler model's set of "
              "completion orders equals TLC's for the same (n,k).")
LEVEL_NOTE = ("Trusted: the FIFO/chunking pool model (bound to the real pool by replay: observed completion order "
              "must equal the scheduled one; recorded as evidence, a miss is a note), numpy bit comparison. "
              "Not covered: other start methods than fork, more than 4 sensors, matrices above 400 rows, worker "
              "crashes, edits of object parameters other than `threads` between builds.")

UNIT = 0.04   # seconds between forced completions on the real pool
MAX_RUNS = {"quick": 8000, "thorough": 60000}
# wall-clock cap of the forced-order replays of one case (they sleep, they do not compute; the cap only limits how much
# binding evidence is collected, it never decides a verdict): every schedule of the plan fits when orders reproduce
# at the first attempt (the largest, C2 k=3, has 216 schedules of ~0.7 s)
REAL_CAP_S = {"quick": 40.0, "thorough": 300.0}


def _mask(rows):
    return numpy.array(rows, dtype=int)


def _disc(n, r2):
    y, x = numpy.mgrid[:n, :n]
    return (((x - (n - 1) / 2.) ** 2 + (y - (n - 1) / 2.) ** 2) <= r2).astype(int).tolist()


CONFIGS = {
    # every task returns a block of a different shape or value (unequal n_subaps, mixed NGS/LGS)
    "A2": dict(n_wfs=2, masks=[[[1, 1], [0, 1]], [[1, 1], [1, 1]]], D=1.0, sd=[0.5, 0.5],
               gsalt=[0, 90000.], gspos=[[0, 0], [20., -10.]], wl=[500e-9, 700e-9],
               layers=[(0., 0.2, 25.), (5000., 0.3, 10.)]),
    "B3": dict(n_wfs=3, masks=[[[1, 0], [0, 0]], [[1, 1], [0, 0]], [[1, 1], [0, 1]]], D=1.0, sd=[0.5, 0.5, 0.5],
               gsalt=[0, 90000., 20000.], gspos=[[0, 0], [15., 5.], [-10., 20.]], wl=[500e-9, 600e-9, 700e-9],
               layers=[(5000., 0.3, 10.)]),
    "C2": dict(n_wfs=2, masks=[[[1, 0, 0], [1, 0, 0], [1, 1, 1]], [[1, 1, 1], [1, 1, 1], [1, 1, 1]]], D=1.5,
               sd=[0.5, 0.5], gsalt=[90000., 0], gspos=[[5., 0], [0., -8.]], wl=[500e-9, 500e-9],
               layers=[(0., 0.2, 25.), (5000., 0.3, 10.), (12000., 0.5, 100.)]),
    "D3": dict(n_wfs=3, masks=[[[1, 1], [1, 0]], [[0, 1], [1, 1]], [[1, 1], [1, 1]]], D=1.0, sd=[0.5, 0.5, 0.5],
               gsalt=[0, 0, 90000.], gspos=[[0, 0], [30., 0.], [0., -30.]], wl=[500e-9, 500e-9, 589e-9],
               layers=[(0., 0.2, 25.), (12000., 0.5, 100.)]),
    # many layers (a layer loop that works in blocks shows only above the block length), every argument handed
    # over as a float64 / int64 ndarray owned by the caller instead of a list
    "E2": dict(n_wfs=2, masks=[[[1, 1], [1, 0]], [[1, 1], [1, 1]]], D=1.0, sd=[0.5, 0.5],
               gsalt=[90000., 0], gspos=[[12., -7.], [0., 25.]], wl=[589e-9, 700e-9],
               layers=[(1500. * k, 0.2 + 0.03 * k, 10. + 5. * (k % 3)) for k in range(10)], forms="ndarray"),
    # a low (Rayleigh) laser guide star with a layer above its altitude (negative cone factor), unequal
    # sub-aperture sizes in every pair
    "F2": dict(n_wfs=2, masks=[[[1, 1], [1, 1]], [[1, 1, 0], [1, 1, 1], [0, 1, 1]]], D=1.2, sd=[0.6, 0.4],
               gsalt=[13500., 0], gspos=[[10., 4.], [-6., 0.]], wl=[532e-9, 700e-9],
               layers=[(0., 0.2, 25.), (9000., 0.4, 30.), (16000., 0.5, 50.)]),
    # four sensors: 10 tasks per map call, so Pool.map cuts chunks of two tasks for k=2 (10 > 4k) - a batching rule
    # with the usual threshold lives here
    "G4": dict(n_wfs=4, masks=[[[1, 1], [1, 1]], [[1, 0], [1, 1]], [[1, 1], [0, 1]], [[0, 1], [1, 0]]], D=1.0,
               sd=[0.5, 0.5, 0.5, 0.5], gsalt=[0, 90000., 90000., 25000.],
               gspos=[[0, 0], [25., 0.], [-12., 21.], [-12., -21.]], wl=[500e-9, 589e-9, 589e-9, 532e-9],
               layers=[(0., 0.2, 25.), (8000., 0.4, 20.)]),
    # one sensor: a single task per map call, every worker count exceeds the number of pairs
    "H1": dict(n_wfs=1, masks=[[[1, 1], [1, 1]]], D=1.0, sd=[0.5], gsalt=[90000.], gspos=[[8., -3.]], wl=[589e-9],
               layers=[(0., 0.2, 25.), (6000., 0.35, 15.)]),
    # size class: two 12x12 sensors with 112 and 88 sub-apertures - a 400 x 400 matrix, blocks of 10^4 elements
    # returned by the workers (a transport or dtype that changes with size would show here)
    "S2": dict(n_wfs=2, masks=[_disc(12, 36.), _disc(12, 30.)], D=4.2, sd=[0.35, 0.35],
               gsalt=[90000., 0], gspos=[[10., 4.], [-6., 0.]], wl=[589e-9, 700e-9],
               layers=[(4000., 0.2, 25.), (9000., 0.4, 30.)]),
}
# a second asterism for the same sensors (same n_wfs, masks, layers): the object "<cfg>~" lives next to "<cfg>" in
# the two-object histories
ALT = {
    "A2": dict(gspos=[[0, 0], [-35., 40.]]),
    "B3": dict(gspos=[[0, 0], [-40., 12.], [22., -31.]]),
    "F2": dict(gspos=[[-30., 14.], [9., 26.]]),
    "E2": dict(gspos=[[-20., 15.], [33., -5.]]),
    "G4": dict(gspos=[[0, 0], [-31., 8.], [14., -27.], [19., 30.]]),
    "S2": dict(gspos=[[-25., 9.], [17., -30.]]),
}
THREADS = [1, 2, 3, 4]


def _cfg(name):
    if name.endswith("~"):
        c = dict(CONFIGS[name[:-1]])
        c.update(ALT[name[:-1]])
        return c
    return CONFIGS[name]


def BOUNDS(tier):
    return {"configs": {k: {"n_wfs": v["n_wfs"], "n_layers": len(v["layers"]),
                            "n_subaps": [int(numpy.sum(m)) for m in v["masks"]]} for k, v in CONFIGS.items()},
            "largest_matrix_rows": max(2 * sum(int(numpy.sum(m)) for m in v["masks"]) for v in CONFIGS.values()),
            "threads": THREADS, "plan": [list(map(str, p)) for p in _plan(tier)],
            "two_object_plan": [list(map(str, p)) for p in _pair_plan(tier)],
            "long_fifo_histories": {"configs": _deep_cfgs(tier), "depth": _deep_depth(tier)},
            "real_pool_forced_order": [list(map(str, p)) for p in _real_plan(tier)],
            "real_pool_unpatched": _realfifo_cfgs(tier),
            "tlc": _tlc_pairs(tier), "real_pool_unit_s": UNIT}


def _plan(tier):
    """(config, depth, deviation bound or None=all)"""
    if tier == "quick":
        return [("A2", 2, None), ("B3", 1, None), ("B3", 2, 2), ("C2", 2, 2), ("D3", 1, 2), ("E2", 2, 1), ("F2", 2, 1),
                ("H1", 2, None), ("G4", 2, 1), ("S2", 1, 1)]
    return [("A2", 3, 3), ("A2", 2, None), ("B3", 1, None), ("B3", 2, 3), ("C2", 2, None), ("C2", 3, 2),
            ("D3", 1, 4), ("D3", 2, 2), ("B3", 3, 2), ("E2", 2, 2), ("E2", 3, 1), ("F2", 2, None), ("F2", 3, 1),
            ("H1", 3, None), ("G4", 1, 2), ("G4", 2, 1), ("S2", 1, 2), ("S2", 2, 1)]


def _pair_plan(tier):
    """two live objects (config and its second asterism): (config, depth, deviation bound)"""
    if tier == "quick":
        return [("A2", 2, 1), ("B3", 2, 1), ("F2", 2, 1)]
    return [("A2", 3, 1), ("A2", 2, None), ("B3", 2, 2), ("B3", 3, 1), ("F2", 2, 2), ("E2", 2, 1), ("G4", 2, 1)]


def _deep_cfgs(tier):
    return ["A2", "B3", "C2", "D3", "F2", "G4", "H1"] + (["E2"] if tier != "quick" else [])


def _deep_depth(tier):
    return 4 if tier == "quick" else 5


def _real_plan(tier):
    if tier == "quick":
        return [("A2", 2), ("A2", 3), ("B3", 2)]
    return [("A2", 2), ("A2", 3), ("A2", 4), ("B3", 2), ("B3", 3), ("C2", 2), ("C2", 3)]


def _realfifo_cfgs(tier):
    return list(CONFIGS)


def _tlc_pairs(tier):
    return [(3, 2), (3, 3)] if tier == "quick" else [(3, 1), (3, 2), (3, 3), (3, 4), (6, 2), (6, 3), (6, 4)]


def cases(tier):
    seen = set()
    for cfg, depth, bound in _plan(tier):
        for d in range(1, depth + 1):
            for hist in itertools.product(THREADS, repeat=d):
                cid = "explore:%s:h=%s:dev=%s" % (cfg, "".join(map(str, hist)), "all" if bound is None else bound)
                key = (cfg, hist)
                # a complete exploration subsumes a bounded one of the same history
                if key in seen:
                    continue
                seen.add(key)
                yield Case(cid, {"kind": "explore", "cfg": cfg, "hist": list(hist), "bound": bound, "tier": tier},
                           any(t > 1 for t in hist))
    # two live objects a, b with different geometry building in turn (every history in which both build)
    seen = set()
    for cfg, depth, bound in _pair_plan(tier):
        for d in range(2, depth + 1):
            for objs in itertools.product((0, 1), repeat=d):
                if len(set(objs)) < 2:
                    continue
                for hist in itertools.product(THREADS, repeat=d):
                    key = (cfg, objs, hist)
                    if key in seen:
                        continue
                    seen.add(key)
                    word = "".join("ab"[oi] + str(t) for oi, t in zip(objs, hist))
                    cid = "pair:%s:h=%s:dev=%s" % (cfg, word, "all" if bound is None else bound)
                    yield Case(cid, {"kind": "explore", "cfg": cfg, "hist": list(hist), "objs": list(objs),
                                     "bound": bound, "tier": tier}, any(t > 1 for t in hist))
    for cfg in _deep_cfgs(tier):
        for t in THREADS:
            yield Case("deep:%s:first=%d:depth=%d" % (cfg, t, _deep_depth(tier)),
                       {"kind": "deep", "cfg": cfg, "first": t, "depth": _deep_depth(tier)})
    for cfg, k in _real_plan(tier):
        yield Case("realpool:%s:k=%d" % (cfg, k), {"kind": "real", "cfg": cfg, "k": k, "tier": tier,
                                                    "bound": None if CONFIGS[cfg]["n_wfs"] == 2 else 2})
    for cfg in _realfifo_cfgs(tier):
        yield Case("realfifo:%s" % cfg, {"kind": "realfifo", "cfg": cfg})
    for n, k in _tlc_pairs(tier):
        yield Case("tlc:n=%d:k=%d" % (n, k), {"kind": "tlc", "n": n, "k": k})
    yield Case("selftest:order-sensitive-collectors", {"kind": "selftest"})


def _make(cfg, threads=1):
    from aotools.turbulence import slopecovariance as sc
    c = _cfg(cfg)
    L = c["layers"]
    if c.get("forms") == "ndarray":
        A = numpy.array
        return sc.CovarianceMatrix(
            c["n_wfs"], A([_mask(m) for m in c["masks"]]), c["D"], A(c["sd"], dtype=float), A(c["gsalt"], dtype=float),
            A(c["gspos"], dtype=float), A(c["wl"], dtype=float), len(L), A([l[0] for l in L], dtype=float),
            A([l[1] for l in L], dtype=float), A([l[2] for l in L], dtype=float), threads=threads)
    return sc.CovarianceMatrix(
        c["n_wfs"], [_mask(m) for m in c["masks"]], c["D"], list(c["sd"]), list(c["gsalt"]),
        [list(p) for p in c["gspos"]], list(c["wl"]), len(L), [l[0] for l in L], [l[1] for l in L],
        [l[2] for l in L], threads=threads)


def _bits(m):
    m = numpy.asarray(m)
    return (str(m.dtype), m.shape, numpy.ascontiguousarray(m).tobytes())


def _sizes(obj):
    """observation only (never a clause): lengths of the sequences / shapes of the arrays the object holds"""
    out = {}
    try:
        for k, v in sorted(vars(obj).items()):
            if isinstance(v, (list, tuple)):
                out[k] = ("seq", len(v), tuple(len(x) if isinstance(x, (list, tuple)) else -1 for x in v))
            elif isinstance(v, numpy.ndarray):
                out[k] = ("arr", v.shape)
    except Exception:
        return None
    return out


def _reference(cfg):
    """bits of the single-process build of a fresh object (no pool involved)"""
    return _bits(_make(cfg).make_covariance_matrix())


def _caller_edit(m):
    """The caller owns the matrix it was handed and overwrites it in place (what adding a noise variance, scaling or
    zeroing before an inversion does).  Finite values: a builder that resets a kept buffer by arithmetic
    (`buf *= 0`) stays correct.  A result that cannot be written (a builder may protect what it hands out) is
    left alone."""
    try:
        if isinstance(m, numpy.ndarray) and m.size and m.flags.writeable:
            m[...] = 1.5
            return True
    except Exception:
        pass
    return False


def evaluate(p):
    kind = p["kind"]
    if kind == "explore":
        return _explore(p)
    if kind == "deep":
        return _deep(p)
    if kind == "real":
        return _real(p)
    if kind == "realfifo":
        return _realfifo(p)
    if kind == "tlc":
        return _tlc(p)
    return _selftest()


# ----------------------------------------------------------------------------- one execution of a history

class _controlled(object):
    """Every way of the library to a process pool or a concurrent.futures executor redirected to controlled ones
    (`sched.patched_pools`, `sched.patched_executors`) - once for all executions of a case (finding the names to
    redirect costs as much as a small build); `bind` hands the controlled pools the chooser of the execution that
    starts (`sched.set_current_chooser`: pools bind to the current chooser at their first use)."""

    def __enter__(self):
        self.pp = sched.patched_pools(None)
        self.pp.__enter__()
        try:
            self.pe = sched.patched_executors(self.pp.chooser)
            self.pe.__enter__()
        except BaseException:
            self.pp.__exit__(None, None, None)
            raise
        return self

    def bind(self, ch):
        del self.pp.chooser.orders[:]      # (pools register with the chooser they were made under; not used)
        sched.set_current_chooser(ch)
        return self.pp.pools_created

    def __exit__(self, *exc):
        try:
            self.pe.__exit__(*exc)
        finally:
            self.pp.__exit__(*exc)
        return False


def _execute(cfg, hist, objs, prefix, refs, edit=True, recon_steps=(), ctx=None):
    """One execution: the history of builds under the controlled pools driven by the choice sequence `prefix`.
    objs[i] says which of the two live objects (0: cfg, 1: cfg~) builds at step i; refs[oi] are the reference bits.
    -> (chooser, (observations, pool records, pools created, results still held by the caller))"""
    if ctx is None:
        with _controlled() as c:
            return _execute(cfg, hist, objs, prefix, refs, edit, recon_steps, c)
    ch = sched.Chooser(prefix)
    obs = []
    held = []
    pools0 = ctx.bind(ch)
    try:
        live = {}
        sizes_prev = {}
        for step, t in enumerate(hist):
            oi = objs[step]
            try:
                if oi not in live:
                    # the documented calling convention: the worker count is given at construction
                    live[oi] = _make(cfg + ("~" if oi else ""), threads=t)
                else:
                    live[oi].threads = t
                obj = live[oi]
                m = obj.make_covariance_matrix()
            except Exception as e:      # a schedule-dependent crash is a violation of that schedule
                obs.append({"bits": False, "attr": None, "digest": "raised %s: %s" % (type(e).__name__, str(e)[:200]),
                            "raised": True, "growth": None})
                break
            ob = {"bits": _bits(m) == refs[oi], "digest": digest(m), "raised": False, "attr": None, "growth": None}
            try:
                attr = getattr(obj, "covariance_matrix", None)
                if attr is not None:
                    ob["attr"] = bool(m is attr or (numpy.shape(attr) == numpy.shape(m) and
                                                    numpy.array_equal(m, attr, equal_nan=True)))
            except Exception:
                ob["attr"] = None
            if step in recon_steps:
                # the one other method that reads the object's matrix, between two builds
                try:
                    obj.make_tomographic_reconstructor()
                    ob["recon"] = True
                except Exception as e:
                    ob["recon"] = "%s: %s" % (type(e).__name__, str(e)[:120])
            sz = _sizes(obj)
            if sz is not None and sizes_prev.get(oi) is not None and sizes_prev[oi][0] == t:
                ob["growth"] = sz != sizes_prev[oi][1]
            sizes_prev[oi] = (t, sz)
            if edit:
                ob["edited"] = _caller_edit(m)
            else:
                held.append((oi, m))
            obs.append(ob)
    finally:
        sched.set_current_chooser(ctx.pp.chooser)
    # (every pool is made under the case-wide chooser and bound to this execution's at its first use, which the pool
    # records as a re-use: the flag says nothing here)
    orders = [{k: v for k, v in od.items() if k != "reused_pool"} for od in ch.orders]
    return ch, (obs, orders, ctx.pp.pools_created - pools0, held)


def _bad(ob):
    return ob["raised"] or not ob["bits"] or ob["attr"] is False


# ----------------------------------------------------------------------------- explorer

def _explore(p):
    o = Out()
    cfg, hist, bound = p["cfg"], p["hist"], p["bound"]
    objs = p.get("objs") or [0] * len(hist)
    refs = {oi: _reference(cfg + ("~" if oi else "")) for oi in sorted(set(objs))}
    o.stat("lib_calls", len(refs))
    if len(refs) == 2 and refs[0] == refs[1]:
        # vacuity observation of the two-object histories (the two geometries are meant to give different matrices)
        o.stat("observed_two_objects_with_identical_matrices", 1)
    model_states = set()

    # the cap is far above anything the unchanged builder needs (<= 1296 schedules per history in the quick
    # tier, <= 46656 in the thorough one); it only bites when a changed builder submits many more tasks per call
    with _controlled() as ctx:
        def run(prefix):
            ch, res = _execute(cfg, hist, objs, prefix, refs, ctx=ctx)
            return ch, res[:3]
        runs, capped = sched.explore(run, bound=bound, max_runs=MAX_RUNS[p.get("tier", "quick")], max_bad=40,
                                     is_bad=lambda ob: any(_bad(x) for x in ob[0]))
    if capped:
        o.stat("caps_hit", 1)
    o.stat("schedules_explored", len(runs))
    o.stat("builds_executed", len(runs) * len(hist))
    nontriv = 0
    for choices, (obs, orders, pools) in runs:
        tag = "sched=" + ("".join(map(str, choices)) or "-")
        if any(choices):
            nontriv += 1
        for step, ob in enumerate(obs):
            o.check("bit_identical_to_single_process", ob["bits"], sub="%s:build=%d" % (tag, step),
                    detail={"history": hist, "objects": objs, "choices": list(choices), "orders": orders,
                            "observed": ob["digest"]})
            if ob["attr"] is None:
                if not ob["raised"]:
                    o.stat("returned_is_object_matrix_not_claimed", 1)   # no `covariance_matrix` attribute to compare
            else:
                o.check("returned_is_object_matrix", ob["attr"], sub="%s:build=%d" % (tag, step))
            if ob["growth"]:
                o.stat("observed_state_growth_between_identical_builds", 1)      # observation, not a clause
            if ob.get("edited") is False:
                o.stat("caller_edit_not_possible", 1)
            o.outcome(ob["digest"])
        o.stat("transitions", len(choices) + len(obs))
        # scheduler states visited on this execution (per pool call: prefix of the completion order)
        for ci, od in enumerate(orders):
            for j in range(len(od["completion"]) + 1):
                model_states.add((ci, od["k"], len(od["chunks"]), tuple(od["completion"][:j])))
        # vacuity observation (not a clause: a builder may keep its pools or remember a result)
        if any(t != 1 for t in hist) and not any(od["chunks"] for od in orders):
            o.stat("observed_mp_history_without_pool_task", 1)
        o.stat("pools_created", pools)
    o.stat("states", len(model_states) + len(hist) + 1)
    o.stat("nontrivial", max(0, nontriv - 1))
    o.note("example_orders", runs[-1][1][1][:2] if runs else None)
    return o


# ----------------------------------------------------------------------------- long FIFO histories

def _deep(p):
    """Every history of `depth` builds that starts with `first` workers, FIFO schedule only, run twice:
    (edit) the caller overwrites every returned matrix, (hold) the caller keeps every returned matrix untouched and
    calls the tomographic reconstructor between builds - at the end every held matrix still has the reference bits
    (the parameters never change, so a builder that re-uses one buffer rewrites it with the same values)."""
    o = Out()
    cfg, first, depth = p["cfg"], p["first"], p["depth"]
    ref = _reference(cfg)
    refs = {0: ref}
    o.stat("lib_calls", 1)
    recon_ok = True
    try:
        probe = _make(cfg)
        probe.make_covariance_matrix()
        probe.make_tomographic_reconstructor()
    except Exception:
        recon_ok = False       # nothing is claimed about the reconstructor of this geometry (a single sensor has none)
        o.stat("reconstructor_letter_not_claimed", 1)
    with _controlled() as ctx:
        for rest in itertools.product(THREADS, repeat=depth - 1):
            hist = [first] + list(rest)
            word = "".join(map(str, hist))
            for mode in ("edit", "hold"):
                # (never after the last build, and a matrix the reconstructor has read is not among the held ones that
                # are compared: whether the reconstructor may touch its input is not this property's business)
                steps = tuple(range(0, depth - 1, 2)) if (mode == "hold" and recon_ok) else ()
                ch, (obs, orders, pools, held) = _execute(cfg, hist, [0] * depth, (), refs, edit=(mode == "edit"),
                                                          recon_steps=steps, ctx=ctx)
                o.stat("builds_executed", len(obs))
                o.stat("schedules_explored", 1)
                o.stat("transitions", len(obs))
                for step, ob in enumerate(obs):
                    o.check("bit_identical_to_single_process", ob["bits"], sub="h=%s:%s:build=%d" % (word, mode, step),
                            detail={"history": hist, "observed": ob["digest"], "mode": mode})
                    if ob["attr"] is not None:
                        o.check("returned_is_object_matrix", ob["attr"], sub="h=%s:%s:build=%d" % (word, mode, step))
                    if isinstance(ob.get("recon"), str):
                        o.stat("observed_reconstructor_exception", 1)
                        o.note("reconstructor_exception", ob["recon"])
                    o.outcome(ob["digest"])
                if mode == "hold" and len(obs) == depth:
                    for step, (oi, m) in enumerate(held):
                        if step in steps:
                            continue
                        o.check("held_result_unchanged_by_later_builds", _bits(m) == ref,
                                sub="h=%s:build=%d" % (word, step), detail={"history": hist})
    o.stat("states", depth + 1)
    return o


# ----------------------------------------------------------------------------- real pool

class _Task(object):
    """Picklable wrapper of one pool task for the forced-order replays on the real pool: sleeps as planned, runs the
    library's own callable on the library's own argument, appends a line to the log when the task is done."""

    def __init__(self, func, call, delays, log, mode):
        self.func, self.call, self.delays, self.log, self.mode = func, call, delays, log, mode

    def __call__(self, arg):
        i, item = arg
        d = self.delays.get(i, 0.0)
        if d > 0:
            time.sleep(d)
        if self.mode == "star":
            r = self.func(*item)
        elif self.mode == "apply":
            r = self.func(*item[0], **item[1])
        else:
            r = self.func(item)
        fd = os.open(self.log, os.O_WRONLY | os.O_APPEND | os.O_CREAT, 0o600)
        os.write(fd, ("%d %d %d\n" % (self.call, i, os.getpid())).encode())
        os.close(fd)
        return r


_RP = {"cls": None, "ctx": None, "plan": {}, "log": None, "calls": []}


class _RealPoolShim(object):
    """The REAL multiprocessing pool behind the interface `sched.patched_pools` hands to the library: what the
    builder submits (callable, arguments, chunk size, API) goes to a real pool of real processes unchanged, each
    task wrapped in a `_Task`."""

    def __init__(self, chooser, processes=None, *a, **kw):
        kw = dict(kw)
        kw.setdefault("context", _RP["ctx"])
        self._pool = _RP["cls"](processes, *a, **kw)

    def _task(self, func, n, api, chunksize, mode):
        call = len(_RP["calls"])
        _RP["calls"].append({"api": api, "n": n, "chunksize": chunksize})
        return _Task(func, call, dict(_RP["plan"].get(call, {})), _RP["log"], mode)

    def map(self, func, iterable, chunksize=None):
        items = list(iterable)
        return self._pool.map(self._task(func, len(items), "map", chunksize, "map"), list(enumerate(items)), chunksize)

    def starmap(self, func, iterable, chunksize=None):
        items = list(iterable)
        return self._pool.map(self._task(func, len(items), "starmap", chunksize, "star"), list(enumerate(items)),
                              chunksize)

    def map_async(self, func, iterable, chunksize=None, callback=None, error_callback=None):
        items = list(iterable)
        return self._pool.map_async(self._task(func, len(items), "map_async", chunksize, "map"),
                                    list(enumerate(items)), chunksize, callback, error_callback)

    def starmap_async(self, func, iterable, chunksize=None, callback=None, error_callback=None):
        items = list(iterable)
        return self._pool.map_async(self._task(func, len(items), "starmap_async", chunksize, "star"),
                                    list(enumerate(items)), chunksize, callback, error_callback)

    def imap(self, func, iterable, chunksize=1):
        items = list(iterable)
        return self._pool.imap(self._task(func, len(items), "imap", chunksize, "map"), list(enumerate(items)),
                               chunksize)

    def imap_unordered(self, func, iterable, chunksize=1):
        items = list(iterable)
        return self._pool.imap_unordered(self._task(func, len(items), "imap_unordered", chunksize, "map"),
                                         list(enumerate(items)), chunksize)

    def apply_async(self, func, args=(), kwds=None, callback=None, error_callback=None):
        t = self._task(func, 1, "apply_async", None, "apply")
        return self._pool.apply_async(t, ((0, (tuple(args), dict(kwds or {}))),), {}, callback, error_callback)

    def apply(self, func, args=(), kwds=None):
        return self.apply_async(func, args, kwds).get()

    def __enter__(self):
        self._pool.__enter__()
        return self

    def __exit__(self, *exc):
        return self._pool.__exit__(*exc)

    def __getattr__(self, name):
        return getattr(self._pool, name)


class _real_pools(object):
    """context manager: like `sched.patched_pools`, but the pools handed out are `_RealPoolShim`s (real processes).
    patched_pools builds its pools by calling the name `sched.ControlledPool`; that name is pointed at the shim for
    the duration of the block (cases of this check run in their own forked process, nobody else sees it)."""

    def __init__(self, plan, log):
        self.plan, self.log = plan, log

    def __enter__(self):
        import multiprocessing
        import multiprocessing.pool
        _RP.update(cls=multiprocessing.pool.Pool, ctx=multiprocessing.get_context("fork"), plan=self.plan,
                   log=self.log, calls=[])
        self._saved = sched.ControlledPool
        sched.ControlledPool = _RealPoolShim
        self._pp = sched.patched_pools(None)
        try:
            self._pp.__enter__()
        except BaseException:
            sched.ControlledPool = self._saved
            raise
        # the standard library's Pool refers to itself through the module attribute `multiprocessing.pool.Pool`
        # (Pool._handle_workers, Pool._get_tasks, ...): a real pool only works while that name is the real class.
        # Every other way to a pool stays redirected (a library that imports the class from multiprocessing.pool at
        # call time then gets an unwrapped real pool: no forced order, which is recorded as "not claimed").
        multiprocessing.pool.Pool = _RP["cls"]
        return self

    def __exit__(self, *exc):
        try:
            self._pp.__exit__(*exc)
        finally:
            sched.ControlledPool = self._saved
        return False


def _shutdown_real_pools():
    """Last act of a process that ran builds on real pools: pools the builder kept alive (a pool cache is
    legitimate) are shut down in an orderly way, maintenance thread first.  A live pool whose workers are killed
    from outside (as `mc.isolate` does with whatever is left when the process ends) refills itself, and a process
    that exits at that moment leaves workers behind that hold its parent's result pipe open for ever."""
    import gc
    import multiprocessing.pool
    cls = _RP["cls"] or multiprocessing.pool.Pool
    if not isinstance(cls, type):
        return
    for obj in gc.get_objects():
        try:
            if isinstance(obj, cls):
                obj.terminate()
        except Exception:
            pass


def _batches(orders):
    """The map calls of one controlled execution, from its pool records: [(k, chunks, local completion order)] in
    submission order, or None when the completions of different calls interleave (asynchronous submission: no forced
    replay is attempted)."""
    out = []
    for od in orders:
        starts = [i for i, chk in enumerate(od["chunks"]) if chk and chk[0] == 0]
        if od["chunks"] and (not starts or starts[0] != 0):
            return None
        bounds = starts + [len(od["chunks"])]
        comp = list(od["completion"])
        pos = 0
        for b in range(len(starts)):
            lo, hi = bounds[b], bounds[b + 1]
            part = comp[pos:pos + (hi - lo)]
            pos += hi - lo
            if sorted(part) != list(range(lo, hi)):
                return None
            out.append((od["k"], [list(c) for c in od["chunks"][lo:hi]], [q - lo for q in part]))
    return out


def _real_build(cfg, k, plan, log, ref_bits):
    """one build of a fresh object on the real pool, tasks delayed as planned; runs in its own forked process (the
    worker processes the build leaves behind end with it) -> (bit identical, exception text, calls seen)"""
    with _real_pools(plan, log):
        try:
            try:
                m = _make(cfg, threads=k).make_covariance_matrix()
            except Exception as e:
                return False, "raised %s: %s" % (type(e).__name__, str(e)[:300]), list(_RP["calls"])
            return _bits(m) == ref_bits, None, list(_RP["calls"])
        finally:
            _shutdown_real_pools()


def _real_schedules(cfg, k, bound, refs):
    with _controlled() as ctx:
        def run(prefix):
            ch, (obs, orders, pools, held) = _execute(cfg, [k], [0], prefix, refs, ctx=ctx)
            return ch, orders
        runs, _ = sched.explore(run, bound=bound, max_runs=MAX_RUNS["quick"])
    return runs


def _real(p):
    """replay every schedule of one multi-process build on the real multiprocessing.Pool"""
    from mc.isolate import isolated
    o = Out()
    cfg, k, bound = p["cfg"], p["k"], p["bound"]
    ref_bits = _reference(cfg)
    refs = {0: ref_bits}

    # schedules from the explorer (controlled pool): one build of a fresh object constructed with k workers.  In a
    # process of its own: a builder that keeps its pools would otherwise hand the controlled pool of the exploration
    # to the real builds below (which are forked from this process)
    runs = isolated(_real_schedules, cfg, k, bound, refs)
    tmp = tempfile.mkdtemp(prefix="c03_real_")
    validated = 0
    not_claimed = 0
    try:
        t_start = time.time()
        for choices, orders in runs:
            tag = "sched=" + ("".join(map(str, choices)) or "-")
            if time.time() - t_start > REAL_CAP_S[p.get("tier", "quick")]:
                # only reachable when replays need their slow retries (never on a tree where orders reproduce)
                o.stat("caps_hit", 1)
                o.note("real_pool_replay_time_cap_hit_after", validated)
                break
            try:
                batches = _batches(orders)
            except Exception:
                batches = None
            ok_order = False
            observed = None
            attempt = 0
            for attempt, unit in enumerate((UNIT, UNIT * 3, UNIT * 8)):
                log = os.path.join(tmp, "log_%s_%d" % (tag, attempt))
                plan = {}
                if batches is not None:
                    try:
                        for call, (bk, chunks, order) in enumerate(batches):
                            d = sched.delays_for(order, len(chunks), bk, unit)
                            plan[call] = {chk[0]: d[ci] for ci, chk in enumerate(chunks)}
                    except Exception:
                        plan, batches = {}, None       # the model's order cannot be forced by delays: plain build
                try:
                    same, raised, calls = isolated(_real_build, cfg, k, plan, log, ref_bits)
                except RuntimeError as e:
                    if "died without a result" in str(e):     # a hard crash of the build under real processes
                        same, raised, calls = False, "build process died", []
                    else:       # an exception outside the library call (this check's own instrumentation)
                        o.stat("real_pool_build_not_claimed", 1)
                        o.note("real_pool_instrumentation_exception", str(e)[-400:])
                        batches = None
                        break
                o.stat("real_pool_builds", 1)
                o.check("real_pool_bit_identical", raised is None and same, sub=tag,
                        detail={"orders": [b[2] for b in batches] if batches else None, "k": k, "raised": raised})
                if raised is not None or batches is None:
                    break
                # what ran on the real pool must be what ran on the controlled pool, call for call; if not (the
                # builder reaches its pool in a way the shim does not see, e.g. an executor) nothing is claimed
                if [c["n"] for c in calls] != [sum(len(chk) for chk in b[1]) for b in batches]:
                    batches = None
                    break
                try:
                    lines = [tuple(map(int, l.split())) for l in open(log).read().split("\n") if l]
                except Exception:
                    batches = None
                    break
                observed = []
                for call, (bk, chunks, order) in enumerate(batches):
                    done_tasks = [idx for (c, idx, pid) in lines if c == call]
                    # completion of a chunk = completion of its last task
                    observed.append([ci for t in done_tasks for ci, chk in enumerate(chunks) if chk[-1] == t])
                if observed == [list(b[2]) for b in batches]:
                    ok_order = True
                    break
                if any(sorted(ob) != sorted(b[2]) for ob, b in zip(observed, batches)):
                    break       # not a timing matter: the tasks that ran are not the tasks of the model
            o.stat("real_pool_order_attempts", attempt + 1)
            if batches is None:
                not_claimed += 1
                continue
            if ok_order:
                validated += 1
            elif observed is not None:
                o.note("order_not_reproduced_" + tag, {"wanted": [b[2] for b in batches], "observed": observed})
            # both directions: what the real pool did must be producible by the model
            if observed is not None:
                for call, (bk, chunks, order) in enumerate(batches):
                    if sorted(observed[call]) != list(range(len(chunks))):
                        continue
                    o.check("real_pool_order_feasible_in_model",
                            sched.feasible(observed[call], len(chunks), bk), sub="%s:layer=%d" % (tag, call),
                            detail={"observed": observed[call], "k": bk})
    finally:
        shutil.rmtree(tmp, ignore_errors=True)
    if not_claimed:
        o.stat("real_pool_forced_order_not_claimed", not_claimed)
    o.stat("traces_validated_against_impl", validated)
    o.stat("real_pool_schedules", len(runs))
    o.stat("states", 1)
    o.stat("transitions", len(runs))
    # binding evidence, not a property clause: recorded, a miss is visible in the evidence
    o.note("real_pool_orders_reproduced_%s_k%d" % (cfg, k), "%d/%d" % (validated, len(runs)))
    return o


def _realfifo_history(names, refs, letters):
    """runs in its own forked process (the worker processes a build leaves behind end with it)"""
    out = []
    live = {}
    try:
        for step, (oi, t) in enumerate(letters):
            try:
                if oi not in live:
                    live[oi] = _make(names[oi], threads=t)
                else:
                    live[oi].threads = t
                m = live[oi].make_covariance_matrix()
            except Exception as e:
                out.append((step, False, "raised %s: %s" % (type(e).__name__, str(e)[:300])))
                break
            out.append((step, _bits(m) == refs[oi], None))
            _caller_edit(m)
    finally:
        _shutdown_real_pools()
    return out


_HEAVY = ("S2",)


def _realfifo(p):
    """The library exactly as a user runs it - nothing patched, real processes, the schedule the OS produces:
    a fresh object per worker count, then rebuild histories on one object (the caller overwriting each returned
    matrix), then two objects of different geometry building in turn with the same worker counts."""
    from mc.isolate import isolated
    o = Out()
    cfg = p["cfg"]
    refs = {0: _reference(cfg)}
    names = {0: cfg}
    if cfg in ALT:
        refs[1] = _reference(cfg + "~")
        names[1] = cfg + "~"
    o.stat("lib_calls", len(refs))
    todo = [("fresh:k=%d" % k, [(0, k)]) for k in (2, 3, 4)]
    words = ((2, 2, 1, 1, 3), (1, 3, 3, 2, 1), (4, 1, 4, 2, 2)) if cfg not in _HEAVY else ((2, 2, 1, 3),)
    todo += [("h=%s" % "".join(map(str, w)), [(0, t) for t in w]) for w in words]
    if 1 in refs:
        todo.append(("pair=a2b2a3b3b2a2", [(0, 2), (1, 2), (0, 3), (1, 3), (1, 2), (0, 2)]))
        if cfg not in _HEAVY:
            todo.append(("pair=b4a4a1b1", [(1, 4), (0, 4), (0, 1), (1, 1)]))
    for tag, letters in todo:
        try:
            res = isolated(_realfifo_history, names, refs, letters)
        except RuntimeError as e:
            if "died without a result" in str(e):       # a hard crash of a build under real processes
                res = [(0, False, "history process died")]
            else:       # an exception outside the library calls (this check's own code)
                o.stat("real_pool_build_not_claimed", 1)
                o.note("real_pool_instrumentation_exception", str(e)[-400:])
                continue
        for step, ok, why in res:
            o.stat("real_pool_builds", 1 if letters[step][1] != 1 else 0)
            o.check("real_pool_bit_identical", ok, sub="%s:build=%d" % (tag, step),
                    detail=why or {"letters": [list(x) for x in letters]})
    o.stat("states", 1)
    o.stat("transitions", len(todo))
    return o


# ----------------------------------------------------------------------------- TLC

CFG = "SPECIFICATION Spec\nCONSTANTS\n N = %d\n K = %d\nINVARIANTS AtMostK Fifo NoLoss\n"


def _tlc(p):
    o = Out()
    n, k = p["n"], p["k"]
    orders, states, transitions = sched.all_completion_orders(n, k)
    py = sorted(tuple(c + 1 for c in od) for od, _ in orders)
    tlc = shutil.which("tlc")
    if tlc is None:
        o.note("tlc", "not on PATH; cross-check skipped")
        o.check("python_model_enumerated", len(py) > 0)
        return o
    tmp = tempfile.mkdtemp(prefix="c03_tlc_")
    try:
        shutil.copy(os.path.join(VERIF, "models", "Pool.tla"), os.path.join(tmp, "Pool.tla"))
        with open(os.path.join(tmp, "Pool.cfg"), "w") as f:
            f.write(CFG % (n, k))
        r = subprocess.run([tlc, "-workers", "1", "-noGenerateSpecTE", "-deadlock", "-metadir",
                            os.path.join(tmp, "meta"), "-dump", "dot,actionlabels", "out.dot", "Pool.tla"],
                           cwd=tmp, capture_output=True, text=True, timeout=600)
        txt = r.stdout
        ok = "No error has been found" in txt
        o.check("tlc_invariants_hold", ok, detail=txt[-600:])
        m = re.search(r"(\d+) states generated, (\d+) distinct states found", txt)
        dot = open(os.path.join(tmp, "out.dot")).read()
        term = set()
        edges = len(re.findall(r" -> ", dot))
        for mm in re.finditer(r'label="([^"]*)"', dot):
            lab = mm.group(1)
            d = re.search(r"done = <<([^>]*)>>", lab)
            if d is None:
                continue
            seq = tuple(int(x) for x in d.group(1).replace(" ", "").split(",") if x)
            if len(seq) == n:
                term.add(seq)
        o.check("tlc_orders_equal_python_orders", sorted(term) == py,
                detail={"tlc": len(term), "python": len(py)})
        if m:
            o.check("tlc_state_count_equals_python", int(m.group(2)) == states,
                    detail={"tlc_states": int(m.group(2)), "python_states": states})
            o.stat("tlc_states", int(m.group(2)))
        o.stat("tlc_transitions", edges)
        o.check("tlc_transition_count_equals_python", edges == transitions,
                detail={"tlc": edges, "python": transitions})
        o.stat("states", states)
        o.stat("transitions", transitions)
        o.stat("tlc_terminal_orders", len(term))
        o.note("tlc_n%d_k%d" % (n, k), {"orders": len(term), "states": states})
    finally:
        shutil.rmtree(tmp, ignore_errors=True)
    return o


# ----------------------------------------------------------------------------- self test

def _selftest():
    """The explorer must expose order-sensitive collectors (vacuity guard): three toy
    builders that are wrong in the ways the real one must not be."""
    o = Out()

    def work(x):
        return x * x

    def harness(collector, k, n=3):
        def run(prefix):
            ch = sched.Chooser(prefix)
            pool = sched.ControlledPool(ch, k)
            return ch, tuple(collector(pool, n))
        runs, _ = sched.explore(run)
        return runs

    def good(pool, n):
        return pool.map(work, range(n))

    def unordered(pool, n):
        return list(pool.imap_unordered(work, range(n)))

    def callbacks(pool, n):
        acc = []
        rs = [pool.apply_async(work, (i,), callback=acc.append) for i in range(n)]
        for r in rs:
            r.get()
        return acc
    def timeout_retry(pool, n):
        import multiprocessing
        waiting = [pool.apply_async(work, (i,)) for i in range(n)]
        got = []
        while waiting:
            r = waiting.pop(0)
            try:
                got.append(r.get(timeout=0.5))
            except multiprocessing.TimeoutError:
                waiting.append(r)
        return got

    def polling(pool, n):
        rs = [pool.apply_async(work, (i,)) for i in range(n)]
        got = []
        pending = list(range(n))
        while pending:
            for i in list(pending):
                if rs[i].ready():
                    got.append(rs[i].get())
                    pending.remove(i)
        return got
    for coll in (timeout_retry, polling):
        runs = harness(coll, 2)
        outs = set(r[1] for r in runs)
        o.check("selftest_timeout_and_polling_collectors_exposed", len(outs) > 1 and (0, 1, 4) in outs,
                sub=coll.__name__, detail={"outcomes": sorted(outs), "schedules": len(runs)})
    for k, want in ((1, 1), (2, 4), (3, 6)):
        runs = harness(good, k)
        o.check("selftest_schedule_count", len(runs) == want, sub="k=%d" % k, detail=len(runs))
        o.check("selftest_ordered_map_single_outcome", len(set(r[1] for r in runs)) == 1, sub="k=%d" % k)
        for coll in (unordered, callbacks):
            runs = harness(coll, k)
            outs = set(r[1] for r in runs)
            o.check("selftest_order_sensitive_collector_exposed", len(outs) == want,
                    sub="%s:k=%d" % (coll.__name__, k), detail={"outcomes": len(outs), "schedules": len(runs)})
    # enumeration agrees with the closed recursion
    for n, k in ((3, 2), (6, 2), (6, 3), (6, 6)):
        orders, _, _ = sched.all_completion_orders(n, k)
        def run(prefix, n=n, k=k):
            ch = sched.Chooser(prefix)
            sched.ControlledPool(ch, k).map(work, range(n), chunksize=1)
            return ch, tuple(ch.orders[0]["completion"])
        runs, _ = sched.explore(run)
        o.check("selftest_explorer_equals_recursion", sorted(set(r[1] for r in runs)) == sorted(od for od, _ in orders)
                and len(runs) == len(orders), sub="n=%d:k=%d" % (n, k), detail={"runs": len(runs), "orders": len(orders)})
        o.check("selftest_all_feasible", all(sched.feasible(od, n, k) for od, _ in orders), sub="n=%d:k=%d" % (n, k))
    # deviation bound 1 = FIFO + single swaps
    def run(prefix):
        ch = sched.Chooser(prefix)
        sched.ControlledPool(ch, 3).map(work, range(3), chunksize=1)
        return ch, None
    r1, _ = sched.explore(run, bound=1)
    o.check("selftest_deviation_bound", len(r1) == 4, detail=len(r1))
    o.stat("states", 1)
    o.stat("transitions", 1)
    return o


def replay_one(p, failure):
    """Re-executes exactly one recorded schedule of an `explore` / `pair` case (no exploration): the history of
    builds with the recorded choice sequence under the controlled pool. -> (still_fails, description)"""
    import re as _re
    m = _re.match(r"sched=([0-9-]+)(?::build=(\d+))?", failure.get("sub") or "")
    if p["kind"] != "explore" or m is None:
        o = evaluate(p)
        ids = ["%s|%s" % (f["clause"], f["sub"]) for f in o.failures]
        return ("%s|%s" % (failure["clause"], failure["sub"])) in ids, "re-evaluated whole case"
    choices = [] if m.group(1) == "-" else [int(c) for c in m.group(1)]
    hist = p["hist"]
    objs = p.get("objs") or [0] * len(hist)
    refs = {oi: _reference(p["cfg"] + ("~" if oi else "")) for oi in sorted(set(objs))}
    ch, (obs, orders, pools, held) = _execute(p["cfg"], hist, objs, choices, refs)
    res = [("raised" if ob["raised"] else (ob["bits"] and ob["attr"] is not False)) for ob in obs]
    bad = [i for i, r in enumerate(res) if r is not True]
    return bool(bad), "history threads=%s objects=%s, choices=%s, completion orders=%s, per-build identical=%s" % (
        hist, objs, choices, [od["completion"] for od in ch.orders], res)
