"""C13 Karhunen-Loeve modes are orthonormal and diagonalise the Kolmogorov covariance.

E1 (product enumeration): every (ri, nr, nfunc) of the alphabets inside the resolution limit for the
polar clauses (all pairs of modes, all node pairs of the native polar grid), every
(dim, mask, ri, nr, nmax) for the Cartesian rendering (every pixel).  The oracle is
mc/refmodels/kl.py: Kolmogorov structure function from its textbook constant, equal-weight double
average over the equal-area polar nodes, exact-rational annulus indicator, and the tolerance-free
"value within the range of the polar function over the enclosing polar cell and its neighbours".
"""
import contextlib
import io
import warnings

import numpy

from mc import Out, Case
from mc.refmodels import kl as ref

PROPERTY = "C13"
LEVEL = "exploration"
TECHNIQUE = ("bounded exhaustive enumeration of (obscuration, radial sampling, mode count) and of "
             "(array size, masking, obscuration, radial sampling, mode count); per configuration all pairs "
             "of modes, all pairs of polar nodes and all pixels are evaluated against an independent "
             "Kolmogorov structure-function model and exact annulus geometry")
RULE = ("polar cases = product(ri, nr, nfunc) restricted to the resolution limit (nr*npp/nfunc >= 8 as "
        "announced by the module, npp = 5 nr, and nfunc <= 5 nr - 2, the azimuthal Nyquist limit of the "
        "module's 5nr-point kernel); configurations inside the announced limit but beyond the Nyquist "
        "limit are enumerated as `edge` cases: their clauses are evaluated when the basis can be built "
        "and the outcome is only recorded when gkl_fcom runs out of azimuthal orders (IndexError); "
        "constructible cases = every (ri, nr) of a dense lattice and of the alphabets: the two-function basis "
        "must be returned (reported once per (ri, nr); polar / cartesian cases of such a pair are skipped and "
        "counted); cartesian cases = product(dim, mask, ri, nr, nmax) with the same restriction for "
        "npp = int(2 pi nr); non-trivial = nfunc >= 3 (more than the tip/tilt pair)")
ASSUMPTIONS = [
    "returned variances are for D/r0 = 1 with the structure function 2(24/5 Gamma(6/5))^(5/6) (rho/D)^(5/3); "
    "the module's rounded constant 6.8839 differs by 3.3e-6 relative, inside the 1e-4 tolerance",
    "the 'native polar grid' is nr equal-area radial nodes x npp = 5 nr equidistant azimuths (the module "
    "default, which is also the sampling of its kernel); all nodes carry the same weight.  For another npp "
    "(make_kl uses int(2 pi nr)) the discrete double average is a different quadrature of a kernel that is "
    "not smooth at coincident points (measured deviation of the diagonal 1e-5 ... 0.25 growing with mode "
    "order), so the diagonalisation clause is decided for npp = 5 nr only; Gram and zero-mean clauses are "
    "decided for both samplings",
    "resolution limit: see RULE; 'edge' configurations that raise IndexError are recorded, not judged",
    "Cartesian rendering: x along axis 1, y along axis 0, theta = atan2(y, x), pixel centres at "
    "(2k - dim + 1)/dim; 'within the resampling error' is the tolerance-free statement that each in-pupil "
    "pixel lies within [min, max] of the polar function over the enclosing polar cell and its neighbours "
    "(+-1 index radially, clipped, and azimuthally, wrapped) plus 1e-12",
    "values outside the (ri, nr, nfunc, dim) alphabets are not covered",
]
ENGINES = ["E1-product-enumeration"]
LEVEL_TEXT = ("Every obscuration ratio x radial sampling x mode count of the alphabets (inside the resolution "
              "limit) is built by the real gkl_basis / gkl_sfi; for each, the complete Gram matrix, the means, and "
              "the complete matrix -1/2 <K_i D K_j> over all pairs of polar nodes are compared with the identity, "
              "zero and diag(returned variances); make_kl is run for every array size (odd and even), masking, "
              "obscuration, sampling and mode count and every pixel is compared with exact annulus geometry and "
              "with the local range of the polar function.")
LEVEL_NOTE = ("Trusted: numpy linear algebra, the reference structure function and geometry in mc/refmodels/kl.py. "
              "Not covered: von Karman statistics (the module itself documents them as not working), values "
              "outside the alphabets, azimuthal samplings other than 5 nr for the diagonalisation clause.")

TOL_GRAM = 1e-9       # measured <= 3e-14
TOL_MEAN = 1e-9       # measured <= 3e-15
TOL_DIAG = 1e-4       # measured 3.3e-6 (rounding of the constant 6.8839 in the module)
TOL_OFF = 1e-9        # relative to the largest variance; measured <= 3e-15
TOL_EQ = 1e-10        # tip/tilt variances equal, non-increasing order (relative)
TOL_AZ = 1e-9         # energy outside azimuthal order 1 for the first two functions
RANGE_SLACK = 1e-12


def _alph(tier):
    if tier == "quick":
        return {"ri": [0.05, 0.1, 0.3, 0.6, 0.9, 0.99], "nr": [6, 7, 8, 12, 13, 16, 24],
                "nfunc": [1, 2, 3, 6, 10, 20, 40],
                "dim": [8, 16, 17, 32, 64], "mask": [True, False],
                "c_ri": [0.1, 0.3, 0.6, 0.9], "c_nr": [8, 16, 40], "c_nmax": [1, 3, 10, 20]}
    return {"ri": [0.01, 0.05, 0.1, 0.2, 0.3, 0.5, 0.6, 0.75, 0.9, 0.95, 0.99, 0.999],
            "nr": [4, 5, 6, 7, 8, 9, 12, 13, 15, 16, 24, 32, 40],
            "nfunc": [1, 2, 3, 4, 5, 6, 7, 10, 15, 20, 30, 40, 60, 100, 150],
            "dim": [8, 9, 16, 17, 32, 33, 64, 127, 128], "mask": [True, False],
            "c_ri": [0.05, 0.1, 0.3, 0.6, 0.9, 0.99], "c_nr": [8, 16, 24, 40], "c_nmax": [1, 2, 3, 6, 10, 20, 40]}


def BOUNDS(tier):
    a = _alph(tier)
    return {"polar": {"ri": a["ri"], "nr": a["nr"], "nfunc": a["nfunc"], "npp": "5*nr (module default)"},
            "cartesian": {"dim": a["dim"], "mask": a["mask"], "ri": a["c_ri"], "nr": a["c_nr"],
                          "nmax": a["c_nmax"], "npp": "int(2*pi*nr) (make_kl)"},
            "constructible_scan": {"ri": "k/%d, 0 < k < %d" % ((20, 20) if tier == "quick" else (100, 100)),
                                   "nr": [_scan(tier)[1][0], _scan(tier)[1][-1]], "nfunc": 2},
            "resolution_limit": "nr*npp/nfunc >= 8 and nfunc <= 5*nr - 2"}


def _announced(nr, npp, nf):
    return (nr * npp) / float(nf) >= 8


def _nyquist(nr, nf):
    return nf <= 5 * nr - 2


def _scan(tier):
    """(list of ri, list of nr) of the dense constructibility scan"""
    if tier == "quick":
        return [k / 20.0 for k in range(1, 20)], list(range(2, 41))
    return [k / 100.0 for k in range(1, 100)], list(range(2, 61))


def cases(tier):
    a = _alph(tier)
    sri, snr = _scan(tier)
    for nr in sorted(set(snr) | set(a["nr"]) | set(a["c_nr"])):
        ris = sorted(set(sri if nr in snr else []) | set(a["ri"] if nr in a["nr"] else [])
                     | set(a["c_ri"] if nr in a["c_nr"] else []))
        yield Case("constructible:nr=%d" % nr, {"kind": "constructible", "nr": nr, "ris": ris}, nr >= 4)
    for ri in a["ri"]:
        for nr in a["nr"]:
            for nf in a["nfunc"]:
                if not _announced(nr, 5 * nr, nf):
                    continue
                edge = not _nyquist(nr, nf)
                yield Case("%s:ri=%g:nr=%d:nf=%d" % ("edge" if edge else "polar", ri, nr, nf),
                           {"kind": "polar", "ri": ri, "nr": nr, "nf": nf, "edge": edge}, nf >= 3 and not edge)
    for dim in a["dim"]:
        for mask in a["mask"]:
            for ri in a["c_ri"]:
                for nr in a["c_nr"]:
                    for nm in a["c_nmax"]:
                        if not _announced(nr, int(2 * numpy.pi * nr), nm) or not _nyquist(nr, nm):
                            continue
                        yield Case("cart:dim=%d:mask=%d:ri=%g:nr=%d:nmax=%d" % (dim, mask, ri, nr, nm),
                                   {"kind": "cart", "dim": dim, "mask": mask, "ri": ri, "nr": nr, "nmax": nm},
                                   nm >= 3)
    for c in _extra_cases(tier):
        yield c


def _extra_cases(tier):
    """sizes beyond the product lattice: radial samplings above 64 (not a multiple of 64) and mode counts above
    64 - block-wise implementations change behaviour there; and mask flags that are true without being `True`"""
    # many modes on a fine radial grid (more than 1000 candidate eigenvalues; variances down to 1e-7 of the first)
    for ri, nr, nf in ((0.2, 40, 400), (0.2, 40, 900), (0.1, 50, 250)) if tier == "quick" else ((0.2, 40, 400), (0.2, 40, 900), (0.1, 50, 250), (0.3, 64, 250), (0.2, 70, 160)):
        yield Case("polar:ri=%g:nr=%d:nf=%d" % (ri, nr, nf), {"kind": "polar", "ri": ri, "nr": nr, "nf": nf, "edge": False}, True)
    for ri, nr, nf in ((0.2, 70, 3), (0.3, 65, 6)) if tier == "quick" else ((0.2, 70, 3), (0.3, 65, 6), (0.1, 96, 10), (0.5, 130, 4)):
        yield Case("polar:ri=%g:nr=%d:nf=%d" % (ri, nr, nf), {"kind": "polar", "ri": ri, "nr": nr, "nf": nf, "edge": False}, True)
    for dim, ri, nr, nm in ((16, 0.2, 16, 70), (17, 0.3, 24, 100), (32, 0.3, 32, 250), (24, 0.2, 40, 300), (20, 0.14, 40, 280)) if tier == "quick" else \
            ((16, 0.2, 16, 70), (17, 0.3, 24, 100), (32, 0.1, 40, 150), (32, 0.3, 32, 250), (24, 0.2, 40, 300), (20, 0.14, 40, 280), (33, 0.2, 40, 600)):
        for mask in (1, 0):
            yield Case("cart:dim=%d:mask=%d:ri=%g:nr=%d:nmax=%d" % (dim, mask, ri, nr, nm),
                       {"kind": "cart", "dim": dim, "mask": bool(mask), "ri": ri, "nr": nr, "nmax": nm}, True)
    for ri, nr, nf, dim in ((0.2, 8, 6, 16), (0.3, 12, 10, 17)):
        yield Case("ownership:ri=%g:nr=%d:nf=%d" % (ri, nr, nf), {"kind": "ownership", "ri": ri, "nr": nr, "nf": nf, "dim": dim}, True)
    for flag in ("numpy_bool", "int_one"):
        yield Case("cart:dim=16:mask=%s:ri=0.3:nr=16:nmax=10" % flag,
                   {"kind": "cart", "dim": 16, "mask": flag, "ri": 0.3, "nr": 16, "nmax": 10}, True)


@contextlib.contextmanager
def _quiet():
    with warnings.catch_warnings(), numpy.errstate(all="ignore"), contextlib.redirect_stdout(io.StringIO()):
        warnings.simplefilter("ignore")
        yield


def _maxabs(a):
    a = numpy.asarray(a)
    return float(numpy.max(numpy.abs(a))) if a.size else 0.0


def _klmod():
    import aotools.functions.karhunenLoeve as m
    return m


_CONSTR = {}


def _constructible(ri, nr):
    """None when the smallest basis (tip and tilt) of this pupil / sampling can be built, else a diagnosis"""
    key = (ri, nr)
    if key not in _CONSTR:
        m = _klmod()
        try:
            m.gkl_basis(ri, nr, None, 2)
            _CONSTR[key] = None
        except Exception as e:
            msg = "gkl_basis(%r, %d, None, 2) raises %s: %s" % (ri, nr, type(e).__name__, e)
            try:
                k = numpy.asarray(m.gkl_kernel(ri, nr, m.gkl_radii(ri, nr)))
                bad = numpy.argwhere(~numpy.isfinite(k[:, :, 0]))
                if bad.size:
                    msg += "; gkl_kernel has %d non-finite entries, e.g. kernel[%d, %d, :]" % (
                        int((~numpy.isfinite(k)).sum()), bad[0][0], bad[0][1])
            except Exception:
                pass
            _CONSTR[key] = msg
    return _CONSTR[key]


def _skip_unconstructible(o, ri, nr):
    if _constructible(ri, nr) is not None:
        o.stat("skipped_basis_not_constructible", 1)     # reported by the case constructible:nr=..
        o.note("skipped_because", _constructible(ri, nr))
        return True
    return False


def _constr_case(o, nr, ris):
    for ri in ris:
        _CONSTR.pop((ri, nr), None)
        msg = _constructible(ri, nr)
        o.stat("lib_calls", 1)
        o.check("basis_constructible", msg is None, sub="ri=%g" % ri, detail=msg)
    return o


def evaluate(p):
    o = Out()
    with _quiet():
        if p["kind"] == "constructible":
            return _constr_case(o, p["nr"], p["ris"])
        if _skip_unconstructible(o, p["ri"], p["nr"]):
            return o
        if p["kind"] == "ownership":
            return _ownership(o, p["ri"], p["nr"], p["nf"], p["dim"])
        if p["kind"] == "polar":
            return _polar(o, p["ri"], p["nr"], p["nf"], p["edge"])
        return _cart(o, p["dim"], p["mask"], p["ri"], p["nr"], p["nmax"])


# ------------------------------------------------------------------------------ results belong to the caller

def _snapshot(r):
    from mc.variants import _result_arrays
    return [a.copy() for a in _result_arrays(r)]


def _ownership(o, ri, nr, nf, dim):
    """whatever the library returns belongs to the caller: rescaling the returned variances or modes in place
    (varKL *= (D/r0)**(5/3) is the first thing a user does) and calling again gives the original values; a result
    still held is not touched by later calls with other parameters"""
    from mc.variants import _result_arrays
    m = _klmod()
    calls = {"gkl_basis": lambda: m.gkl_basis(ri, nr, None, nf), "make_kl": lambda: m.make_kl(nf, dim, ri=ri, nr=nr),
             "make_kl:nomask": lambda: m.make_kl(nf, dim, ri=ri, nr=nr, mask=False),
             "gkl_kernel": lambda: m.gkl_kernel(ri, nr, m.gkl_radii(ri, nr)), "gkl_radii": lambda: m.gkl_radii(ri, nr)}
    for name, f in calls.items():
        r1 = f()
        first = _snapshot(r1)
        r2 = f()
        same2 = all(numpy.array_equal(a, b, equal_nan=True) for a, b in zip(_snapshot(r2), first))
        o.check("repeated_call_equal_result", same2 and len(_snapshot(r2)) == len(first), sub=name)
        for a in _result_arrays(r1):
            if a.flags.writeable and a.size:
                if a.dtype.kind in "fc":
                    a *= 755.0
                else:
                    a[...] = 7
        o.check("held_result_not_overwritten_by_next_call", all(numpy.array_equal(a, b, equal_nan=True) for a, b in zip(_snapshot(r2), first)), sub=name)
        r3 = f()
        s3 = _snapshot(r3)
        ok = len(s3) == len(first) and all(numpy.array_equal(a, b, equal_nan=True) for a, b in zip(s3, first))
        o.check("result_owned_by_caller", ok, sub=name,
                detail=None if ok else "after the caller rescaled the first result in place, the same call returns other values")
        o.stat("lib_calls", 3)
    return o


# ------------------------------------------------------------------------------ polar clauses

def _functions(o, m, basis, nf):
    nr, npp = basis["nr"], basis["np"]
    fs = []
    for i in range(nf):
        f = numpy.asarray(m.gkl_sfi(basis, i), dtype=float)
        o.stat("lib_calls", 1)
        if f.shape != (nr, npp):
            o.check("polar_function_shape", False, sub="i=%d" % i, detail="shape %s" % (f.shape,))
            return None
        fs.append(f)
    o.check("polar_function_shape", True, n=nf)
    return numpy.array(fs)


def _grid_and_basic_clauses(o, basis, F, ri, nr, nf):
    """equal-area grid, Gram, zero mean, variance order: valid for every azimuthal sampling"""
    npp = basis["np"]
    radp = numpy.asarray(basis["radp"], dtype=float)
    ev = numpy.asarray(basis["evals"], dtype=float)
    ok_shapes = radp.shape == (nr,) and ev.shape == (nf,)
    o.check("basis_shapes", ok_shapes, detail="radp %s evals %s" % (radp.shape, ev.shape))
    if not ok_shapes:
        return None
    d = (1.0 - ri * ri) / nr
    r2 = radp ** 2
    o.close("grid_equal_area_rings", _maxabs(numpy.diff(r2) - d) if nr > 1 else 0.0, 1e-12)
    o.check("grid_inside_annulus", bool(r2[0] >= ri * ri - 1e-15 and r2[0] <= ri * ri + d and r2[-1] < 1.0),
            detail="r^2 from %r to %r" % (float(r2[0]), float(r2[-1])))
    K = F.reshape(nf, -1)
    M = K.shape[1]
    G = K @ K.T / float(M)
    E = numpy.abs(G - numpy.eye(nf))
    w = _maxabs(E)
    ij = numpy.unravel_index(int(numpy.argmax(E)), E.shape)
    o.check("orthonormal_gram", w <= TOL_GRAM, measure=w, tol=TOL_GRAM, n=nf * (nf + 1) // 2,
            detail="<K_%d K_%d> = %r" % (ij[0], ij[1], float(G[ij])))
    mu = K.mean(axis=1)
    o.check("zero_mean", _maxabs(mu) <= TOL_MEAN, measure=_maxabs(mu), tol=TOL_MEAN, n=nf,
            detail="mean of K_%d = %r" % (int(numpy.argmax(numpy.abs(mu))), float(mu[numpy.argmax(numpy.abs(mu))])))
    o.check("variances_positive", bool(numpy.all(ev > 0)), measure=float(-ev.min()), tol=0.0, n=nf,
            detail="min variance %r at i=%d" % (float(ev.min()), int(numpy.argmin(ev))))
    if nf >= 2:
        inc = (ev[1:] - ev[:-1]) / ev.max()
        o.check("variances_non_increasing", bool(numpy.all(inc <= TOL_EQ)), measure=float(inc.max()), tol=TOL_EQ,
                n=nf - 1, detail="largest increase at i=%d: %r -> %r" %
                (int(numpy.argmax(inc)), float(ev[numpy.argmax(inc)]), float(ev[numpy.argmax(inc) + 1])))
        o.close("tip_tilt_variances_equal", abs(ev[0] - ev[1]) / abs(ev[0]), TOL_EQ)
    for i in range(min(nf, 2)):
        o.close("tip_tilt_first_azimuthal_order_1", 1.0 - ref.azimuthal_order_fraction(F[i], 1), TOL_AZ,
                sub="i=%d" % i)
    return K, ev, radp, npp


def _polar(o, ri, nr, nf, edge):
    m = _klmod()
    try:
        basis = m.gkl_basis(ri, nr, None, nf)
    except IndexError as e:
        if edge:
            # beyond the azimuthal Nyquist limit of the 5nr-point kernel: recorded, not judged
            o.stat("edge_configs_raising_IndexError", 1)
            o.note("edge_IndexError_example", "gkl_basis(%r, %d, None, %d): %s" % (ri, nr, nf, e))
            return o
        raise
    o.stat("lib_calls", 1)
    if edge:
        o.stat("edge_configs_constructed", 1)
    F = _functions(o, m, basis, nf)
    if F is None:
        return o
    o.check("native_npp_is_5nr", basis["np"] == 5 * nr, detail="np = %r" % (basis["np"],))
    got = _grid_and_basic_clauses(o, basis, F, ri, nr, nf)
    if got is None:
        return o
    K, ev, radp, npp = got
    x, y = ref.polar_nodes(radp, npp)
    A = ref.covariance_matrix(K, x, y)
    dg = numpy.abs(numpy.diag(A) - ev) / numpy.abs(ev)
    i = int(numpy.argmax(dg))
    o.check("covariance_diagonal_equals_variances", float(dg.max()) <= TOL_DIAG, measure=float(dg.max()),
            tol=TOL_DIAG, n=nf, detail="-1/2<K_%d D K_%d> = %r, returned variance %r" %
            (i, i, float(A[i, i]), float(ev[i])))
    if nf >= 2:
        Off = numpy.abs(A - numpy.diag(numpy.diag(A))) / ev.max()
        ij = numpy.unravel_index(int(numpy.argmax(Off)), Off.shape)
        o.check("covariance_offdiagonal_zero", float(Off.max()) <= TOL_OFF, measure=float(Off.max()), tol=TOL_OFF,
                n=nf * (nf - 1) // 2, detail="-1/2<K_%d D K_%d> = %r (largest variance %r)" %
                (ij[0], ij[1], float(A[ij]), float(ev.max())))
    o.outcome(numpy.round(ev / ev[0], 9))
    return o


# ------------------------------------------------------------------------------ Cartesian clauses

def _cart(o, dim, mask, ri, nr, nmax):
    m = _klmod()
    flag = mask
    if mask == "numpy_bool":          # a true mask flag that is not the literal True ("when masked")
        flag, mask = numpy.bool_(True), True
    elif mask == "int_one":
        flag, mask = 1, True
    out = m.make_kl(nmax, dim, ri=ri, nr=nr, mask=flag)
    o.stat("lib_calls", 1)
    if not o.check("make_kl_returns_four", isinstance(out, tuple) and len(out) == 4):
        return o
    klc, var, pupil, basis = out
    klc = numpy.asarray(klc, dtype=float)
    pupil = numpy.asarray(pupil)
    var = numpy.asarray(var, dtype=float)
    ok = klc.shape == (nmax, dim, dim) and pupil.shape == (dim, dim) and var.shape == (nmax,)
    o.check("cartesian_shapes", ok, detail="kl %s pupil %s var %s" % (klc.shape, pupil.shape, var.shape))
    if not ok:
        return o
    inside, near = ref.annulus(dim, ri)
    if near.any():
        o.stat("pixels_on_the_annulus_edge_skipped", int(near.sum()))
    dec = ~near
    bad = (pupil != inside.astype(float)) & dec
    o.check("pupil_is_annulus_indicator", not bad.any(), measure=int(bad.sum()), tol=0, n=int(dec.sum()),
            detail="first differing pixel (row, col) %s" % (tuple(int(v) for v in numpy.argwhere(bad)[0]),)
            if bad.any() else None)
    outside = (~inside) & dec
    if mask:
        w = _maxabs(klc[:, outside]) if outside.any() else 0.0
        o.check("masked_zero_outside_annulus", w == 0.0, measure=w, tol=0.0, n=nmax * int(outside.sum()))
    o.check("cartesian_finite", bool(numpy.isfinite(klc).all()))
    o.close("variances_are_polar_evals", _maxabs(var - numpy.asarray(basis["evals"], dtype=float)), 0.0)
    # the polar functions the rendering has to follow
    F = _functions(o, m, basis, nmax)
    if F is None:
        return o
    npp = basis["np"]
    got = _grid_and_basic_clauses(o, basis, F, ri, nr, nmax)
    if got is None:
        return o
    radp = got[2]
    r2, th = ref.pixel_polar(dim)
    sel = inside & dec
    rr = numpy.sqrt(r2[sel])
    tt = th[sel]
    worst = 0.0
    nbad = 0
    first = None
    dev = 0.0
    for i in range(nmax):
        lo, hi = ref.polar_window_range(F[i], radp, rr, tt)
        v = klc[i][sel]
        exc = numpy.maximum(lo - v, v - hi)
        k = int(numpy.argmax(exc)) if exc.size else 0
        if exc.size and exc[k] > RANGE_SLACK:
            nbad += int((exc > RANGE_SLACK).sum())
            if first is None:
                rc = numpy.argwhere(sel)[k]
                first = "mode %d pixel (row %d, col %d): value %r outside [%r, %r]" % (
                    i, rc[0], rc[1], float(v[k]), float(lo[k]), float(hi[k]))
        if exc.size:
            worst = max(worst, float(exc.max()))
            dev = max(dev, float((hi - lo).max()))
    o.check("pixel_within_local_range_of_polar_function", nbad == 0, measure=max(worst, 0.0), tol=RANGE_SLACK,
            n=nmax * int(sel.sum()), detail=first)
    o.note("largest_local_range_width", dev)
    o.outcome(numpy.round(klc[:, ::max(1, dim // 8), ::max(1, dim // 8)], 6))
    return o
