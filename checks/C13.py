"""C13 Karhunen-Loeve modes are orthonormal and diagonalise the Kolmogorov covariance.

E1 (product enumeration): every (ri, nr, nfunc) of the alphabets inside the resolution limit for the
polar clauses (all pairs of modes, all node pairs of the native polar grid), every
(dim, mask, ri, nr, nmax) for the Cartesian rendering (every pixel).  The oracle is
mc/refmodels/kl.py: Kolmogorov structure function from its textbook constant, equal-weight double
average over the equal-area polar nodes (with an allowance for the discretisation error of that quadrature,
measured per mode by refining it), exact-rational annulus indicator, and "value within the range of the polar
function over the polar nodes surrounding the pixel, widened by a curvature allowance".
"""
import contextlib
import io
import math
import warnings

import numpy

from mc import Out, Case
from mc.refmodels import kl as ref

PROPERTY = "C13"
LEVEL = "exploration"
TECHNIQUE = ("bounded exhaustive enumeration of (obscuration, radial sampling, mode count) and of "
             "(array size, masking, obscuration, radial sampling, mode count); per configuration all pairs "
             "of modes, all pairs of polar nodes and all pixels are evaluated against an independent "
             "Kolmogorov structure-function model and exact annulus geometry")
RULE = ("polar cases = product(ri, nr, nfunc) restricted to the resolution limit (nr*npp/nfunc >= 8 as "
        "announced by the module, npp = 5 nr, and nfunc <= 5 nr - 2, the azimuthal Nyquist limit of the "
        "module's 5nr-point kernel); configurations inside the announced limit but beyond the Nyquist "
        "limit are enumerated as `edge` cases: what happens there (any exception, or a basis and how far it is "
        "from the clauses) is only recorded, never judged; "
        "constructible cases = every (ri, nr) of a dense lattice and of the alphabets: the two-function basis "
        "must be returned (reported once per (ri, nr); polar / cartesian cases of such a pair are skipped and "
        "counted); cartesian cases = product(dim, mask, ri, nr, nmax) with the same restriction for "
        "npp = int(2 pi nr), plus a dense scan of the output size (dim 2..79 and spot sizes up to 520 / 1030) "
        "with three modes and a dense scan of the radial sampling through the Cartesian driver (every nr = 4..72 quick / "
        "4..140 thorough at dim 16, ri 0.25, three modes: the driver's own azimuthal sampling int(2 pi nr) and "
        "polar-to-Cartesian geometry); variances cases = every (ri, nr, nmax) of the cartesian alphabets: the variances "
        "returned by make_kl (default, stf given by either alias, outer scale given) against the modal "
        "covariances of the native-grid basis; non-trivial = nfunc >= 3 (more than the tip/tilt pair)")
ASSUMPTIONS = [
    "returned variances are for D/r0 = 1 with the structure function 2(24/5 Gamma(6/5))^(5/6) (rho/D)^(5/3); "
    "the constant is a convention known to 3 digits in the literature (6.88, 6.8839, 6.88388): one common "
    "scale factor between the returned variances and the modal covariances is fitted and must be within 1e-3 of 1",
    "the 'native polar grid' is nr equal-area radial nodes x the number of equidistant azimuths that gkl_basis "
    "chooses when none is given (5 nr in the module); all nodes carry the same weight.  The double pupil average "
    "of the statement is evaluated as the equal-weight double sum over those nodes.  That sum is a quadrature "
    "of a kernel that is not smooth at coincident points; a mode's covariance is therefore only defined up to "
    "the discretisation error of the quadrature, which the check measures per mode (3 x the change of the "
    "modal covariance when the azimuthal sum is refined 4 times + the size of the coincident-point term) and "
    "allows on top of the 1e-6 spread; for the module as it is (kernel = the same 5nr-point sum) the identity "
    "holds to 4e-12 and the allowance is not used.  For npp = int(2 pi nr) (make_kl) the diagonalisation is "
    "decided through the variances: make_kl's variances must be the modal covariances of the native-grid "
    "basis of the same (ri, nr, nmax); Gram and zero-mean clauses are decided for both samplings and for "
    "explicit samplings nr, 2nr+1, 5nr, 7nr that resolve every azimuthal order of the basis",
    "resolution limit: see RULE; 'edge' configurations are recorded, not judged",
    "Cartesian rendering: x along axis 1, y along axis 0, theta = atan2(y, x), pixel centres at "
    "(2k - dim + 1)/dim; 'within the resampling error' means that each in-pupil pixel lies within [min, max] "
    "of the polar function over the polar nodes surrounding the pixel (radial nodes q0..q0+2 where q0 is the "
    "last node not beyond the pixel - the rendering may register the radial nodes anywhere in their ring -, "
    "azimuthal nodes p0, p0+1 with wrap-around; one more node towards the inside at the outermost node, at "
    "the azimuthal seam cell and at exact node angles), widened by 0.75 x the largest second difference of the "
    "polar function over the surrounding 4x4 nodes (higher-order or analytic rendering overshoots the node "
    "values by up to 1/4 of it) plus 1e-12",
    "results belong to the caller (harness-wide convention, not in the statement): every call returns the "
    "values the property demands whatever the caller did in place to arrays returned by earlier calls, and a "
    "result still held is not changed by later calls (ownership / history cases)",
    "calling conventions: numpy scalar types, positional arguments and the alias 'kolstf' may be rejected by "
    "the library (recorded); when accepted the result must be that of the plain call",
    "the layout of the basis dictionary ('np', 'radp', 'evals') is read when present; a missing field is "
    "recorded and the clauses that need it fall back to an observable equivalent or are skipped",
    "values outside the (ri, nr, nfunc, dim) alphabets are not covered; dim = 1 is not covered",
]
ENGINES = ["E1-product-enumeration"]
LEVEL_TEXT = ("Every obscuration ratio x radial sampling x mode count of the alphabets (inside the resolution "
              "limit) is built by the real gkl_basis / gkl_sfi; for each, the complete Gram matrix, the means, and "
              "the complete matrix -1/2 <K_i D K_j> over all pairs of polar nodes are compared with the identity, "
              "zero and diag(returned variances); make_kl is run for every array size (odd and even), masking, "
              "obscuration, sampling and mode count and every pixel is compared with exact annulus geometry and "
              "with the local range of the polar function; the variances returned by make_kl are compared with "
              "the modal covariances of the native-grid basis.")
LEVEL_NOTE = ("Trusted: numpy linear algebra, the reference structure function and geometry in mc/refmodels/kl.py. "
              "Not covered: von Karman statistics (the module itself documents them as not working), values "
              "outside the alphabets, the diagonalisation clause on azimuthal samplings other than the native one "
              "(decided through the variances instead), configurations between the announced resolution limit "
              "and nfunc <= 5 nr - 2 (recorded only), dim = 1.")

TOL_GRAM = 1e-9       # measured <= 3e-14
TOL_MEAN = 1e-9       # measured <= 3e-15
TOL_SCALE = 1e-3      # common scale factor variances / modal covariances: the module's 6.8839 gives 3.3e-6, the
#                       equally conventional 6.88 gives 5.6e-4
TOL_SPREAD = 1e-6     # per mode, after the common factor; measured <= 4e-12
AZ_REFINE = 4         # refinement of the azimuthal sum that measures the discretisation error
AZ_FACTOR = 3.0       # a kernel built on a 10nr-point sum measures <= 0.95 x that change (margin > 3)
TOL_OFF = 1e-9        # relative to the largest variance; measured <= 3e-15 (allowance as for the diagonal;
#                       the 10nr-point kernel measures <= 0.04 x the allowance)
TOL_EQ = 1e-10        # tip/tilt variances equal, non-increasing order (relative)
TOL_AZ = 1e-9         # energy outside azimuthal order 1 for the first two functions
TOL_VAR_SAME = 1e-6   # variances of make_kl / of calling variants vs those of the plain gkl_basis, relative to the
#                       largest; measured 0 (numpy scalars: 0; float32 result arrays would give 6e-8)
TOL_REPEAT = 1e-9     # same call twice, relative to the largest value; measured 0
RANGE_SLACK = 1e-12
CURV_ALLOW = 0.75     # x largest second difference of the polar function around the pixel: cubic-spline rendering
#                       measures 0.18, exact evaluation of cos(m theta) at most 0.25; the module (bilinear) 0


def _alph(tier):
    if tier == "quick":
        return {"ri": [0.05, 0.1, 0.3, 0.6, 0.9, 0.99], "nr": [6, 7, 8, 12, 13, 16, 24],
                "nfunc": [1, 2, 3, 6, 10, 20, 40],
                "dim": [8, 16, 17, 32, 64], "mask": [True, False],
                "c_ri": [0.1, 0.3, 0.6, 0.9], "c_nr": [8, 16, 40], "c_nmax": [1, 3, 10, 20]}
    return {"ri": [0.01, 0.05, 0.1, 0.2, 0.3, 0.5, 0.6, 0.75, 0.9, 0.95, 0.99, 0.999],
            "nr": [4, 5, 6, 7, 8, 9, 12, 13, 15, 16, 24, 32, 40],
            "nfunc": [1, 2, 3, 4, 5, 6, 7, 10, 15, 20, 30, 40, 60, 100, 150],
            "dim": [8, 9, 16, 17, 32, 33, 64, 127, 128], "mask": [True, False],
            "c_ri": [0.05, 0.1, 0.3, 0.6, 0.9, 0.99], "c_nr": [8, 16, 24, 40], "c_nmax": [1, 2, 3, 6, 10, 20, 40]}


def _dim_scan(tier):
    """output sizes of the dense scan (three modes, ri = 0.2, nr = 8) and spot sizes (dim, ri, nr, nmax)"""
    dense = list(range(2, 80)) + [100, 127, 128, 129, 130, 255, 256, 257]
    spots = [(65, 0.2, 16, 10), (130, 0.2, 16, 10), (257, 0.2, 40, 20), (520, 0.3, 40, 10)]
    if tier != "quick":
        dense += list(range(80, 127)) + [513, 1025]
        spots += [(1030, 0.2, 40, 6)]
    return sorted(set(dense)), spots


def BOUNDS(tier):
    a = _alph(tier)
    dense, spots = _dim_scan(tier)
    return {"polar": {"ri": a["ri"] + [1e-6, 0.999999], "nr": a["nr"], "nfunc": a["nfunc"],
                      "npp": "native (module default 5*nr); explicit nr, 2nr+1, 5nr, 7nr for the Gram / mean clauses"},
            "cartesian": {"dim": a["dim"], "mask": a["mask"], "ri": a["c_ri"] + [1e-6, 0.999999], "nr": a["c_nr"],
                          "nmax": a["c_nmax"], "npp": "int(2*pi*nr) (make_kl)"},
            "dim_scan": {"dense": "2..%d and %s" % (79 if tier == "quick" else 126, [d for d in dense if d > 126]),
                         "spot (dim, ri, nr, nmax)": spots, "largest_dim": max(max(dense), max(s[0] for s in spots))},
            "cartesian_nr_scan": {"nr": "4..%d" % (72 if tier == "quick" else 140), "dim": 16, "ri": 0.25, "nmax": 3,
                                  "npp": "int(2*pi*nr) (make_kl)"},
            "constructible_scan": {"ri": "k/%d, 0 < k < %d" % ((20, 20) if tier == "quick" else (100, 100)),
                                   "nr": [_scan(tier)[1][0], _scan(tier)[1][-1]], "nfunc": 2},
            "resolution_limit": "nr*npp/nfunc >= 8 and nfunc <= 5*nr - 2"}


def _announced(nr, npp, nf):
    return (nr * npp) / float(nf) >= 8


def _nyquist(nr, nf):
    return nf <= 5 * nr - 2


def _scan(tier):
    """(list of ri, list of nr) of the dense constructibility scan"""
    if tier == "quick":
        return [k / 20.0 for k in range(1, 20)], list(range(2, 41))
    return [k / 100.0 for k in range(1, 100)], list(range(2, 61))


def cases(tier):
    seen = set()
    for c in _all_cases(tier):
        if c.id not in seen:            # the extra lists may name a configuration of the product lattice again
            seen.add(c.id)
            yield c


def _all_cases(tier):
    a = _alph(tier)
    sri, snr = _scan(tier)
    for nr in sorted(set(snr) | set(a["nr"]) | set(a["c_nr"])):
        ris = sorted(set(sri if nr in snr else []) | set(a["ri"] if nr in a["nr"] else [])
                     | set(a["c_ri"] if nr in a["c_nr"] else []))
        yield Case("constructible:nr=%d" % nr, {"kind": "constructible", "nr": nr, "ris": ris}, nr >= 4)
    for ri in a["ri"]:
        for nr in a["nr"]:
            for nf in a["nfunc"]:
                if not _announced(nr, 5 * nr, nf):
                    continue
                edge = not _nyquist(nr, nf)
                yield Case("%s:ri=%g:nr=%d:nf=%d" % ("edge" if edge else "polar", ri, nr, nf),
                           {"kind": "polar", "ri": ri, "nr": nr, "nf": nf, "edge": edge}, nf >= 3 and not edge)
    for dim in a["dim"]:
        for mask in a["mask"]:
            for ri in a["c_ri"]:
                for nr in a["c_nr"]:
                    for nm in a["c_nmax"]:
                        if not _announced(nr, int(2 * numpy.pi * nr), nm) or not _nyquist(nr, nm):
                            continue
                        yield Case("cart:dim=%d:mask=%d:ri=%g:nr=%d:nmax=%d" % (dim, mask, ri, nr, nm),
                                   {"kind": "cart", "dim": dim, "mask": mask, "ri": ri, "nr": nr, "nmax": nm},
                                   nm >= 3)
    for ri in a["c_ri"]:
        for nr in a["c_nr"]:
            for nm in a["c_nmax"]:
                if not _announced(nr, int(2 * numpy.pi * nr), nm) or not _nyquist(nr, nm) \
                        or not _announced(nr, 5 * nr, nm):
                    continue
                yield Case("variances:ri=%g:nr=%d:nmax=%d" % (ri, nr, nm),
                           {"kind": "variances", "ri": ri, "nr": nr, "nmax": nm}, nm >= 3)
    for c in _extra_cases(tier):
        yield c


def _extra_cases(tier):
    """sizes beyond the product lattice: radial samplings above 64 (not a multiple of 64) and mode counts above
    64 - block-wise implementations change behaviour there; and mask flags that are true without being `True`"""
    # many modes on a fine radial grid (more than 1000 candidate eigenvalues; variances down to 1e-7 of the first)
    for ri, nr, nf in ((0.2, 40, 400), (0.2, 40, 900), (0.1, 50, 250)) if tier == "quick" else ((0.2, 40, 400), (0.2, 40, 900), (0.1, 50, 250), (0.3, 64, 250), (0.2, 70, 160)):
        yield Case("polar:ri=%g:nr=%d:nf=%d" % (ri, nr, nf), {"kind": "polar", "ri": ri, "nr": nr, "nf": nf, "edge": False}, True)
    for ri, nr, nf in ((0.2, 70, 3), (0.3, 65, 6)) if tier == "quick" else ((0.2, 70, 3), (0.3, 65, 6), (0.1, 96, 10), (0.5, 130, 4)):
        yield Case("polar:ri=%g:nr=%d:nf=%d" % (ri, nr, nf), {"kind": "polar", "ri": ri, "nr": nr, "nf": nf, "edge": False}, True)
    for dim, ri, nr, nm in ((16, 0.2, 16, 70), (17, 0.3, 24, 100), (32, 0.3, 32, 250), (24, 0.2, 40, 300), (20, 0.14, 40, 280)) if tier == "quick" else \
            ((16, 0.2, 16, 70), (17, 0.3, 24, 100), (32, 0.1, 40, 150), (32, 0.3, 32, 250), (24, 0.2, 40, 300), (20, 0.14, 40, 280), (33, 0.2, 40, 600)):
        for mask in (1, 0):
            yield Case("cart:dim=%d:mask=%d:ri=%g:nr=%d:nmax=%d" % (dim, mask, ri, nr, nm),
                       {"kind": "cart", "dim": dim, "mask": bool(mask), "ri": ri, "nr": nr, "nmax": nm}, True)
    for ri, nr, nf, dim in ((0.2, 8, 6, 16), (0.3, 12, 10, 17)):
        yield Case("ownership:ri=%g:nr=%d:nf=%d" % (ri, nr, nf), {"kind": "ownership", "ri": ri, "nr": nr, "nf": nf, "dim": dim}, True)
    # mask flags that are true without being `True`, and false without being `False` (which side the library
    # takes for the latter is recorded; every other clause applies)
    for flag in ("numpy_bool", "int_one", "numpy_false", "int_zero"):
        yield Case("cart:dim=16:mask=%s:ri=0.3:nr=16:nmax=10" % flag,
                   {"kind": "cart", "dim": 16, "mask": flag, "ri": 0.3, "nr": 16, "nmax": 10}, True)
    # mode counts just below the resolution limit (announced limit and nfunc <= 5nr - 2)
    for nr in (6, 7, 8):
        top = min(5 * nr - 2, (5 * nr * nr) // 8)
        for nf in ((top - 1, top) if tier == "quick" else range(top - 8, top + 1)):
            for ri in (0.1, 0.6, 0.99):
                if _announced(nr, 5 * nr, nf) and _nyquist(nr, nf):
                    yield Case("polar:ri=%g:nr=%d:nf=%d" % (ri, nr, nf),
                               {"kind": "polar", "ri": ri, "nr": nr, "nf": nf, "edge": False}, True)
    # obscurations next to 0 and to 1
    for ri in (1e-6, 0.999999):
        yield Case("polar:ri=%g:nr=8:nf=10" % ri, {"kind": "polar", "ri": ri, "nr": 8, "nf": 10, "edge": False}, True)
        yield Case("cart:dim=16:mask=1:ri=%g:nr=8:nmax=10" % ri,
                   {"kind": "cart", "dim": 16, "mask": True, "ri": ri, "nr": 8, "nmax": 10}, True)
    # azimuthal samplings chosen by the caller
    for ri, nr, nf in ((0.3, 8, 6), (0.1, 12, 10)) if tier == "quick" else ((0.3, 8, 6), (0.1, 12, 10), (0.6, 16, 20), (0.2, 13, 6)):
        for npp in (nr, 2 * nr + 1, 5 * nr, 7 * nr):
            yield Case("polar:ri=%g:nr=%d:nf=%d:npp=%d" % (ri, nr, nf, npp),
                       {"kind": "polar_npp", "ri": ri, "nr": nr, "nf": nf, "npp": npp}, True)
    # output sizes
    dense, spots = _dim_scan(tier)
    for dim in dense:
        for mask in (1, 0):
            yield Case("cart:dim=%d:mask=%d:ri=0.2:nr=8:nmax=3" % (dim, mask),
                       {"kind": "cart", "dim": dim, "mask": bool(mask), "ri": 0.2, "nr": 8, "nmax": 3}, True)
    for dim, ri, nr, nm in spots:
        yield Case("cart:dim=%d:mask=1:ri=%g:nr=%d:nmax=%d" % (dim, ri, nr, nm),
                   {"kind": "cart", "dim": dim, "mask": True, "ri": ri, "nr": nr, "nmax": nm}, True)
    # every radial sampling of a dense range through the Cartesian driver (its azimuthal sampling int(2 pi nr)
    # and its polar-to-Cartesian geometry are built from nr; the polar lattice above does not reach them)
    for nr in (range(4, 73) if tier == "quick" else range(4, 141)):
        yield Case("cart:dim=16:mask=1:ri=0.25:nr=%d:nmax=3" % nr,
                   {"kind": "cart", "dim": 16, "mask": True, "ri": 0.25, "nr": nr, "nmax": 3}, True)
    # the way the arguments are passed
    for ri, nr, nf, dim in ((0.3, 8, 6, 16), (0.25, 12, 10, 17)):
        yield Case("calling:ri=%g:nr=%d:nf=%d" % (ri, nr, nf),
                   {"kind": "calling", "ri": ri, "nr": nr, "nf": nf, "dim": dim}, True)
    # call histories in one process: the same output size with other radial samplings, the same sampling again
    for dim, ri, nm, nrs in ((16, 0.3, 6, (8, 16, 8, 12)), (17, 0.2, 10, (16, 8, 16))):
        yield Case("history:dim=%d:ri=%g:nmax=%d:nr=%s" % (dim, ri, nm, "-".join(map(str, nrs))),
                   {"kind": "history", "dim": dim, "ri": ri, "nmax": nm, "nrs": list(nrs)}, True)


@contextlib.contextmanager
def _quiet():
    with warnings.catch_warnings(), numpy.errstate(all="ignore"), contextlib.redirect_stdout(io.StringIO()):
        warnings.simplefilter("ignore")
        yield


def _maxabs(a):
    a = numpy.asarray(a)
    return float(numpy.max(numpy.abs(a))) if a.size else 0.0


def _klmod():
    import aotools.functions.karhunenLoeve as m
    return m


_CONSTR = {}


def _constructible(ri, nr):
    """None when the smallest basis (tip and tilt) of this pupil / sampling can be built, else a diagnosis"""
    key = (ri, nr)
    if key not in _CONSTR:
        m = _klmod()
        try:
            m.gkl_basis(ri, nr, None, 2)
            _CONSTR[key] = None
        except Exception as e:
            msg = "gkl_basis(%r, %d, None, 2) raises %s: %s" % (ri, nr, type(e).__name__, e)
            try:
                k = numpy.asarray(m.gkl_kernel(ri, nr, m.gkl_radii(ri, nr)))
                bad = numpy.argwhere(~numpy.isfinite(k[:, :, 0]))
                if bad.size:
                    msg += "; gkl_kernel has %d non-finite entries, e.g. kernel[%d, %d, :]" % (
                        int((~numpy.isfinite(k)).sum()), bad[0][0], bad[0][1])
            except Exception:
                pass
            _CONSTR[key] = msg
    return _CONSTR[key]


def _skip_unconstructible(o, ri, nr):
    if _constructible(ri, nr) is not None:
        o.stat("skipped_basis_not_constructible", 1)     # reported by the case constructible:nr=..
        o.note("skipped_because", _constructible(ri, nr))
        return True
    return False


def _constr_case(o, nr, ris):
    for ri in ris:
        _CONSTR.pop((ri, nr), None)
        msg = _constructible(ri, nr)
        o.stat("lib_calls", 1)
        o.check("basis_constructible", msg is None, sub="ri=%g" % ri, detail=msg)
    return o


def evaluate(p):
    o = Out()
    with _quiet():
        if p["kind"] == "constructible":
            return _constr_case(o, p["nr"], p["ris"])
        if p["kind"] == "history":
            return _history(o, p["dim"], p["ri"], p["nmax"], p["nrs"])
        if _skip_unconstructible(o, p["ri"], p["nr"]):
            return o
        if p["kind"] == "ownership":
            return _ownership(o, p["ri"], p["nr"], p["nf"], p["dim"])
        if p["kind"] == "polar":
            return _polar(o, p["ri"], p["nr"], p["nf"], p["edge"])
        if p["kind"] == "polar_npp":
            return _polar_npp(o, p["ri"], p["nr"], p["nf"], p["npp"])
        if p["kind"] == "variances":
            return _variances(o, p["ri"], p["nr"], p["nmax"])
        if p["kind"] == "calling":
            return _calling(o, p["ri"], p["nr"], p["nf"], p["dim"])
        return _cart(o, p["dim"], p["mask"], p["ri"], p["nr"], p["nmax"])


def _field(o, basis, key):
    """a field of the basis dictionary, or None (recorded) when the layout is another one"""
    try:
        return basis[key]
    except Exception:
        o.stat("basis_field_%s_not_claimed" % key, 1)
        return None


# ------------------------------------------------------------------------------ results belong to the caller

def _snapshot(r):
    from mc.variants import _result_arrays
    return [a.copy() for a in _result_arrays(r)]


def _same_values(xs, ys, tol=TOL_REPEAT):
    """two lists of arrays hold the same values up to rounding (relative to the largest value of each array)"""
    if len(xs) != len(ys):
        return False
    for a, b in zip(xs, ys):
        if a.shape != b.shape:
            return False
        if not a.size:
            continue
        if a.dtype.kind not in "fc" or b.dtype.kind not in "fc":
            if not numpy.array_equal(a, b):
                return False
            continue
        nan = numpy.isnan(a)
        if not numpy.array_equal(nan, numpy.isnan(b)):
            return False
        d = numpy.where(nan, 0.0, a - b)
        scale = float(numpy.max(numpy.abs(numpy.where(nan, 0.0, b)))) if (~nan).any() else 0.0
        if not _maxabs(d) <= tol * max(scale, 1e-300):
            return False
    return True


def _ownership(o, ri, nr, nf, dim):
    """whatever the library returns belongs to the caller: rescaling the returned variances or modes in place
    (varKL *= (D/r0)**(5/3) is the first thing a user does) and calling again gives the original values; a result
    still held is not touched by later calls with other parameters"""
    from mc.variants import _result_arrays
    m = _klmod()
    calls = {"gkl_basis": lambda: m.gkl_basis(ri, nr, None, nf), "make_kl": lambda: m.make_kl(nf, dim, ri=ri, nr=nr),
             "make_kl:nomask": lambda: m.make_kl(nf, dim, ri=ri, nr=nr, mask=False),
             "gkl_kernel": lambda: m.gkl_kernel(ri, nr, m.gkl_radii(ri, nr)), "gkl_radii": lambda: m.gkl_radii(ri, nr)}
    for name, f in calls.items():
        r1 = f()
        first = _snapshot(r1)
        r2 = f()
        o.check("repeated_call_equal_result", _same_values(_snapshot(r2), first), sub=name)
        for a in _result_arrays(r1):
            if a.flags.writeable and a.size:
                if a.dtype.kind in "fc":
                    a *= 755.0
                else:
                    a[...] = 7
        o.check("held_result_not_overwritten_by_next_call", _same_values(_snapshot(r2), first), sub=name)
        r3 = f()
        ok = _same_values(_snapshot(r3), first)
        o.check("result_owned_by_caller", ok, sub=name,
                detail=None if ok else "after the caller rescaled the first result in place, the same call returns other values")
        o.stat("lib_calls", 3)
    return o


def _history(o, dim, ri, nmax, nrs):
    """several make_kl calls in one process, same output size, radial samplings as listed (a sampling may come
    back): every call is judged by all the Cartesian and polar clauses, failures carry the position in the history"""
    for k, nr in enumerate(nrs):
        if _constructible(ri, nr) is not None:
            o.stat("skipped_basis_not_constructible", 1)
            continue
        o2 = _cart(Out(), dim, True, ri, nr, nmax)
        for f in o2.failures:
            f["sub"] = "call=%d:nr=%d" % (k, nr) + ("" if f["sub"] is None else ":" + f["sub"])
        o.merge(o2)
    return o


# ------------------------------------------------------------------------------ polar clauses

def _functions(o, m, basis, nf, nr, npp_given=None):
    """(nf, nr, npp) array of the polar functions; npp is the one given to the library, else the basis' own field,
    else whatever the first function has"""
    npp = npp_given if npp_given is not None else _field(o, basis, "np")
    fs = []
    for i in range(nf):
        f = numpy.asarray(m.gkl_sfi(basis, i), dtype=float)
        o.stat("lib_calls", 1)
        if npp is None and f.ndim == 2:
            npp = f.shape[1]
        if f.shape != (nr, npp):
            o.check("polar_function_shape", False, sub="i=%d" % i, detail="shape %s" % (f.shape,))
            return None
        fs.append(f)
    o.check("polar_function_shape", True, n=nf)
    return numpy.array(fs)


def _radial_nodes(o, m, basis, ri, nr):
    radp = _field(o, basis, "radp")
    if radp is None:
        try:
            radp = m.gkl_radii(ri, nr)
        except Exception:
            o.stat("radial_nodes_not_available_not_claimed", 1)
            return None
    return numpy.asarray(radp, dtype=float)


def _grid_and_basic_clauses(o, m, basis, F, ri, nr, nf, ev=None):
    """equal-area grid, Gram, zero mean, variance order: valid for every azimuthal sampling that resolves the
    azimuthal orders of the basis"""
    npp = F.shape[2]
    radp = _radial_nodes(o, m, basis, ri, nr)
    if ev is None:
        ev = _field(o, basis, "evals")
    if radp is None or ev is None:
        return None
    ev = numpy.asarray(ev, dtype=float)
    ok_shapes = radp.shape == (nr,) and ev.shape == (nf,)
    o.check("basis_shapes", ok_shapes, detail="radp %s evals %s" % (radp.shape, ev.shape))
    if not ok_shapes:
        return None
    d = (1.0 - ri * ri) / nr
    r2 = radp ** 2
    o.close("grid_equal_area_rings", _maxabs(numpy.diff(r2) - d) if nr > 1 else 0.0, 1e-12)
    o.check("grid_inside_annulus", bool(r2[0] >= ri * ri - 1e-15 and r2[0] <= ri * ri + d and r2[-1] < 1.0),
            detail="r^2 from %r to %r" % (float(r2[0]), float(r2[-1])))
    K = F.reshape(nf, -1)
    M = K.shape[1]
    G = K @ K.T / float(M)
    E = numpy.abs(G - numpy.eye(nf))
    w = _maxabs(E)
    ij = numpy.unravel_index(int(numpy.argmax(E)), E.shape)
    o.check("orthonormal_gram", w <= TOL_GRAM, measure=w, tol=TOL_GRAM, n=nf * (nf + 1) // 2,
            detail="<K_%d K_%d> = %r" % (ij[0], ij[1], float(G[ij])))
    mu = K.mean(axis=1)
    o.check("zero_mean", _maxabs(mu) <= TOL_MEAN, measure=_maxabs(mu), tol=TOL_MEAN, n=nf,
            detail="mean of K_%d = %r" % (int(numpy.argmax(numpy.abs(mu))), float(mu[numpy.argmax(numpy.abs(mu))])))
    o.check("variances_positive", bool(numpy.all(ev > 0)), measure=float(-ev.min()), tol=0.0, n=nf,
            detail="min variance %r at i=%d" % (float(ev.min()), int(numpy.argmin(ev))))
    if nf >= 2:
        inc = (ev[1:] - ev[:-1]) / ev.max()
        o.check("variances_non_increasing", bool(numpy.all(inc <= TOL_EQ)), measure=float(inc.max()), tol=TOL_EQ,
                n=nf - 1, detail="largest increase at i=%d: %r -> %r" %
                (int(numpy.argmax(inc)), float(ev[numpy.argmax(inc)]), float(ev[numpy.argmax(inc) + 1])))
        o.close("tip_tilt_variances_equal", abs(ev[0] - ev[1]) / abs(ev[0]), TOL_EQ)
    for i in range(min(nf, 2)):
        o.close("tip_tilt_first_azimuthal_order_1", 1.0 - ref.azimuthal_order_fraction(F[i], 1), TOL_AZ,
                sub="i=%d" % i)
    return K, ev, radp, npp


def _harmonics(F):
    """per function of F (nf, nr, npp): its dominant azimuthal harmonic m, the complex radial amplitude a with
    F[i][q, p] = Re(a[q] exp(i m theta_p)), and whether the function IS that single resolved harmonic"""
    nf, nr, npp = F.shape
    H = numpy.fft.rfft(F, axis=2)
    ms = (numpy.abs(H) ** 2).sum(axis=1).argmax(axis=1)
    amp = numpy.zeros((nf, nr), dtype=complex)
    pure = numpy.zeros(nf, dtype=bool)
    for i in range(nf):
        one = numpy.zeros_like(H[i])
        one[:, ms[i]] = H[i][:, ms[i]]
        rec = numpy.fft.irfft(one, n=npp, axis=1)
        pure[i] = bool(2 * ms[i] < npp and _maxabs(rec - F[i]) <= 1e-9 * _maxabs(F[i]))
        amp[i] = H[i][:, ms[i]] / float(npp) * (1.0 if ms[i] == 0 else 2.0)
    return ms, amp, pure


def _modal_covariance_azimuthal(radp, ms, amp, N):
    """-1/2 <K_i D K_i> of single-harmonic functions with the azimuthal sum taken over N equidistant angles
    (the radial sum stays the equal-weight sum over the nodes); N = npp reproduces the plain double sum"""
    r = numpy.asarray(radp, dtype=float)
    nr = r.size
    mmax = int(ms.max())
    C = numpy.empty((nr, nr, mmax + 1))
    cosk = numpy.cos(numpy.arange(N) * (2.0 * math.pi / N))
    for q in range(nr):
        d2 = r[q] ** 2 + r[:, None] ** 2 - 2.0 * r[q] * r[:, None] * cosk[None, :]
        D = ref.structure_function(0.5 * numpy.sqrt(numpy.maximum(d2, 0.0)))
        C[q] = numpy.fft.rfft(D, axis=1)[:, :mmax + 1].real / float(N)
    out = numpy.empty(ms.size)
    for i in range(ms.size):
        a = amp[i]
        w = 1.0 if ms[i] == 0 else 0.5
        out[i] = -0.5 * w * float(numpy.real(numpy.conj(a) @ C[:, :, ms[i]] @ a)) / nr ** 2
    return out


def _quadrature_allowance(o, F, radp, ri, dg):
    """per mode: how far the equal-weight double sum over the native nodes is from other, equally legitimate
    discretisations of the double pupil average (absolute).  Two terms: AZ_FACTOR x the change of the modal
    covariance when the azimuthal sum is refined AZ_REFINE times (available for functions that are a single
    resolved azimuthal harmonic, and only used when the same routine reproduces the plain double sum), and the
    size of the coincident-point term (the plain sum takes D = 0 there, a cell average takes D of about a
    quarter of the cell diagonal).  Any failure of this instrumentation leaves the allowance at zero for the
    modes concerned (recorded) - for the module as it is the clause holds without any allowance."""
    nf, nr, npp = F.shape
    allow = numpy.zeros(nf)
    try:
        d = (1.0 - ri * ri) / nr
        dr = numpy.sqrt(radp ** 2 + d) - radp
        half_diag = 0.5 * numpy.hypot(dr, radp * (2.0 * math.pi / npp))
        Dc = ref.structure_function(half_diag / 2.0)
        allow = allow + 0.5 * (F ** 2 * Dc[None, :, None]).sum(axis=(1, 2)) / float(nr * npp) ** 2
        ms, amp, pure = _harmonics(F)
        same = _modal_covariance_azimuthal(radp, ms, amp, npp)
        valid = pure & (numpy.abs(same - dg) <= 1e-9 * numpy.abs(dg))
        fine = _modal_covariance_azimuthal(radp, ms, amp, AZ_REFINE * npp)
        allow = allow + numpy.where(valid, AZ_FACTOR * numpy.abs(fine - dg), 0.0)
        if not valid.all():
            o.stat("modes_without_azimuthal_refinement_allowance", int((~valid).sum()))
    except Exception as e:
        o.stat("quadrature_allowance_not_available", 1)
        o.note("quadrature_allowance_error", "%s: %s" % (type(e).__name__, e))
    return numpy.where(numpy.isfinite(allow), allow, 0.0)


def _judge_variances(o, clause, ev, dg, allow, sub=None, what="returned variance"):
    """ev (returned variances) against dg (modal covariances -1/2<K_i D K_i> on the native nodes): one common
    factor within TOL_SCALE of 1, then every mode within TOL_SPREAD plus the quadrature allowance"""
    ev = numpy.asarray(ev, dtype=float)
    nf = ev.size
    den = float((ev * ev).sum())
    s = float((dg * ev).sum()) / den if den > 0 and numpy.isfinite(den) else float("nan")
    i0 = int(numpy.argmax(numpy.abs(dg)))
    stol = TOL_SCALE + float(allow[i0] / abs(dg[i0]))
    ok = bool(abs(s - 1.0) <= stol)
    o.check(clause, ok, sub=("scale" if sub is None else sub + ":scale"), measure=abs(s - 1.0), tol=stol,
            detail="common factor modal covariance / %s = %r" % (what, s))
    if not ok:
        s = 1.0
    tol = TOL_SPREAD * numpy.abs(dg) + allow
    err = numpy.abs(dg - s * ev)
    err = numpy.where(numpy.isfinite(err), err, numpy.inf)
    i = int(numpy.argmax(err / numpy.maximum(tol, 1e-300)))
    o.check(clause, bool(numpy.all(err <= tol)), sub=sub, measure=float(err[i] / abs(dg[i])),
            tol=float(tol[i] / abs(dg[i])), n=nf,
            detail="-1/2<K_%d D K_%d> = %r, %s %r (common factor %r)" % (i, i, float(dg[i]), what, float(ev[i]), s))


def _covariance_clauses(o, F, K, ev, radp, ri):
    """diagonalisation on the native nodes"""
    nf = K.shape[0]
    x, y = ref.polar_nodes(radp, F.shape[2])
    A = ref.covariance_matrix(K, x, y)
    dg = numpy.diag(A).copy()
    allow = _quadrature_allowance(o, F, radp, ri, dg)
    _judge_variances(o, "covariance_diagonal_equals_variances", ev, dg, allow)
    exact = bool(numpy.all(numpy.abs(dg - ev) <= 1e-4 * numpy.abs(ev)))
    o.stat("diagonal_exact_on_native_nodes" if exact else "diagonal_not_exact_on_native_nodes", 1)
    if nf >= 2:
        scale = float(numpy.max(numpy.abs(ev)))
        Off = numpy.abs(A - numpy.diag(dg))
        tol = TOL_OFF * scale + numpy.maximum(allow[:, None], allow[None, :])
        ij = numpy.unravel_index(int(numpy.argmax(Off / numpy.maximum(tol, 1e-300))), Off.shape)
        o.check("covariance_offdiagonal_zero", bool(numpy.all(Off <= tol)), measure=float(Off[ij] / scale),
                tol=float(tol[ij] / scale), n=nf * (nf - 1) // 2,
                detail="-1/2<K_%d D K_%d> = %r (largest variance %r)" % (ij[0], ij[1], float(A[ij]), scale))


def _polar(o, ri, nr, nf, edge):
    m = _klmod()
    if edge:
        # inside the announced limit, beyond the azimuthal Nyquist limit of a 5nr-point kernel: what the library
        # does there is recorded, never judged (the module as it is raises IndexError for some of them; a finer
        # kernel builds modes that the native nodes cannot resolve)
        try:
            o2 = _polar_clauses(Out(), m, ri, nr, nf)
            o.stat("edge_configs_constructed", 1)
            o.stat("edge_configs_constructed_meeting_all_clauses" if not o2.failures
                   else "edge_configs_constructed_missing_some_clause", 1)
            o.stat("lib_calls", o2.stats.get("lib_calls", 0))
            if o2.failures:
                o.note("edge_deviation_example", "gkl_basis(%r, %d, None, %d): %s" % (
                    ri, nr, nf, sorted(set(f["clause"] for f in o2.failures))))
        except Exception as e:
            o.stat("edge_configs_raising_%s" % type(e).__name__, 1)
            o.note("edge_exception_example", "gkl_basis(%r, %d, None, %d): %s: %s" % (ri, nr, nf, type(e).__name__, e))
        return o
    return _polar_clauses(o, m, ri, nr, nf)


def _polar_clauses(o, m, ri, nr, nf):
    basis = m.gkl_basis(ri, nr, None, nf)
    o.stat("lib_calls", 1)
    F = _functions(o, m, basis, nf, nr)
    if F is None:
        return o
    if F.shape[2] != 5 * nr:
        o.stat("native_azimuthal_sampling_not_5nr", 1)       # an internal choice: recorded, not demanded
    got = _grid_and_basic_clauses(o, m, basis, F, ri, nr, nf)
    if got is None:
        return o
    K, ev, radp, npp = got
    _covariance_clauses(o, F, K, ev, radp, ri)
    o.outcome(numpy.round(ev / ev[0], 9))
    return o


def _polar_npp(o, ri, nr, nf, npp):
    """azimuthal sampling chosen by the caller: grid, Gram, mean and order clauses, when the sampling resolves
    every azimuthal order of the basis (orders read from the native-grid functions of the same basis)"""
    m = _klmod()
    nat = m.gkl_basis(ri, nr, None, nf)
    Fn = _functions(Out(), m, nat, nf, nr)
    o.stat("lib_calls", 1 + nf)
    if Fn is None:
        o.stat("azimuthal_orders_not_available_not_claimed", 1)
        return o
    ms, _, pure = _harmonics(Fn)
    if not pure.all() or npp <= 2 * int(ms.max()):
        o.stat("sampling_does_not_resolve_the_orders_skipped", 1)
        o.note("largest_azimuthal_order", int(ms.max()))
        return o
    basis = m.gkl_basis(ri, nr, npp, nf)
    o.stat("lib_calls", 1)
    F = _functions(o, m, basis, nf, nr, npp_given=npp)
    if F is None:
        return o
    got = _grid_and_basic_clauses(o, m, basis, F, ri, nr, nf)
    if got is not None:
        # the variances do not depend on the azimuthal sampling of the synthesis
        evn = _field(o, nat, "evals")
        if evn is not None:
            evn = numpy.asarray(evn, dtype=float)
            o.close("variances_independent_of_azimuthal_sampling",
                    _maxabs(got[1] - evn) / _maxabs(evn) if evn.shape == got[1].shape else float("inf"), TOL_VAR_SAME)
        o.outcome(numpy.round(got[1] / got[1][0], 9))
    return o


# ------------------------------------------------------------------------------ variances returned by make_kl

def _variances(o, ri, nr, nmax):
    """the variances that make_kl returns (whatever way the Kolmogorov statistics are asked for) are the modal
    covariances -1/2 <K_i D K_i> of the native-grid basis of the same pupil, sampling and mode count"""
    m = _klmod()
    basis = m.gkl_basis(ri, nr, None, nmax)
    o.stat("lib_calls", 1)
    F = _functions(o, m, basis, nmax, nr)
    if F is None:
        return o
    radp = _radial_nodes(o, m, basis, ri, nr)
    if radp is None or radp.shape != (nr,):
        o.stat("variances_anchor_not_available_not_claimed", 1)
        return o
    K = F.reshape(nmax, -1)
    x, y = ref.polar_nodes(radp, F.shape[2])
    dg = numpy.diag(ref.covariance_matrix(K, x, y)).copy()
    allow = _quadrature_allowance(o, F, radp, ri, dg)
    dim = 8
    variants = [("default", {}, False), ("stf=kolmogorov", {"stf": "kolmogorov"}, False),
                ("stf=kolstf", {"stf": "kolstf"}, True), ("outerscale=3", {"outerscale": 3.0}, True),
                ("stf=kolmogorov:outerscale=3", {"stf": "kolmogorov", "outerscale": 3.0}, True)]
    for name, kw, may_reject in variants:
        try:
            out = m.make_kl(nmax, dim, ri=ri, nr=nr, **kw)
        except Exception as e:
            if not may_reject:
                raise
            # an alias / an outer scale together with Kolmogorov statistics may be refused by the library
            o.stat("make_kl_variant_rejected_not_claimed", 1)
            o.note("make_kl_variant_rejected", "%s: %s: %s" % (name, type(e).__name__, e))
            continue
        o.stat("lib_calls", 1)
        try:
            var = numpy.asarray(out[1], dtype=float)
        except Exception:
            o.check("make_kl_returns_four", False, sub=name)
            continue
        if not o.check("make_kl_variances_shape", var.shape == (nmax,), sub=name, detail="shape %s" % (var.shape,)):
            continue
        _judge_variances(o, "make_kl_variances_are_modal_covariances", var, dg, allow, sub=name,
                         what="variance returned by make_kl")
    o.outcome(numpy.round(dg / dg[0], 9))
    return o


# ------------------------------------------------------------------------------ calling conventions

def _modes_equal_up_to_sign(A, B):
    """largest deviation between two stacks of modes, each mode compared up to its sign, relative to the largest
    value"""
    A = numpy.asarray(A, dtype=float).reshape(len(A), -1)
    B = numpy.asarray(B, dtype=float).reshape(len(B), -1)
    if A.shape != B.shape:
        return float("inf")
    d = numpy.minimum(numpy.abs(A - B).max(axis=1), numpy.abs(A + B).max(axis=1))
    return float(d.max()) / max(_maxabs(B), 1e-300)


def _calling(o, ri, nr, nf, dim):
    """numpy scalar types, positional arguments, the alias of the structure function, the default azimuthal
    sampling given explicitly: a variant the library accepts must give the variances and modes of the plain call
    (a variant it refuses is recorded)"""
    m = _klmod()
    b0 = m.gkl_basis(ri, nr, None, nf)
    ev0 = _field(o, b0, "evals")
    F0 = _functions(o, m, b0, nf, nr)
    k0 = m.make_kl(nf, dim, ri=ri, nr=nr)
    o.stat("lib_calls", 2)
    if F0 is None:
        return o
    rf = float(numpy.float32(ri))
    polar = [("numpy_scalars", lambda: m.gkl_basis(numpy.float64(ri), numpy.int64(nr), None, numpy.int32(nf)), b0),
             ("keywords", lambda: m.gkl_basis(ri=ri, nr=nr, npp=None, nfunc=nf), b0),
             ("stf=kolstf", lambda: m.gkl_basis(ri, nr, None, nf, "kolstf"), b0),
             ("stf=kolmogorov", lambda: m.gkl_basis(ri, nr, None, nf, stf="kolmogorov"), b0),
             ("npp_explicit", lambda: m.gkl_basis(ri, nr, F0.shape[2], nf), b0),
             ("npp_numpy_int", lambda: m.gkl_basis(ri, nr, numpy.int64(F0.shape[2]), nf), b0),
             ("float32_ri", lambda: m.gkl_basis(numpy.float32(ri), nr, None, nf), None)]
    for name, f, want in polar:
        try:
            b = f()
            Fb = _functions(Out(), m, b, nf, nr)
        except Exception as e:
            o.stat("calling_variant_rejected_not_claimed", 1)
            o.note("calling_variant_rejected:" + name, "%s: %s" % (type(e).__name__, e))
            continue
        o.stat("lib_calls", 1)
        if want is None:
            # single-precision obscuration: the result for the value it holds
            want = m.gkl_basis(rf, nr, None, nf)
        evw, ev = _field(o, want, "evals"), _field(o, b, "evals")
        if evw is not None and ev is not None:
            evw, ev = numpy.asarray(evw, dtype=float), numpy.asarray(ev, dtype=float)
            o.close("calling_variant_same_variances", _maxabs(ev - evw) / _maxabs(evw) if ev.shape == evw.shape
                    else float("inf"), TOL_VAR_SAME, sub="gkl_basis:" + name)
        Fw = F0 if want is b0 else _functions(Out(), m, want, nf, nr)
        if Fw is not None:
            o.close("calling_variant_same_modes", _modes_equal_up_to_sign(Fb, Fw) if Fb is not None else float("inf"),
                    TOL_VAR_SAME, sub="gkl_basis:" + name)
    cart = [("positional", lambda: m.make_kl(nf, dim, ri, nr)),
            ("numpy_scalars", lambda: m.make_kl(numpy.int64(nf), numpy.int32(dim), ri=numpy.float64(ri), nr=numpy.int64(nr))),
            ("stf=kolstf", lambda: m.make_kl(nf, dim, ri=ri, nr=nr, stf="kolstf")),
            ("mask_keyword_true", lambda: m.make_kl(nf, dim, ri=ri, nr=nr, mask=True))]
    for name, f in cart:
        try:
            k = f()
        except Exception as e:
            o.stat("calling_variant_rejected_not_claimed", 1)
            o.note("calling_variant_rejected:make_kl:" + name, "%s: %s" % (type(e).__name__, e))
            continue
        o.stat("lib_calls", 1)
        try:
            v0, v = numpy.asarray(k0[1], dtype=float), numpy.asarray(k[1], dtype=float)
            c0, c = numpy.asarray(k0[0], dtype=float), numpy.asarray(k[0], dtype=float)
            p0, p = numpy.asarray(k0[2], dtype=float), numpy.asarray(k[2], dtype=float)
        except Exception:
            o.check("make_kl_returns_four", False, sub=name)
            continue
        o.close("calling_variant_same_variances", _maxabs(v - v0) / _maxabs(v0) if v.shape == v0.shape else float("inf"),
                TOL_VAR_SAME, sub="make_kl:" + name)
        o.close("calling_variant_same_modes", _modes_equal_up_to_sign(c, c0) if c.shape == c0.shape else float("inf"),
                TOL_VAR_SAME, sub="make_kl:" + name)
        o.check("calling_variant_same_pupil", p.shape == p0.shape and bool(numpy.array_equal(p, p0)), sub="make_kl:" + name)
    if ev0 is not None:
        o.outcome(numpy.round(numpy.asarray(ev0, dtype=float), 9))
    return o


# ------------------------------------------------------------------------------ Cartesian clauses

def _local_window(pol, radii, r, theta):
    """(lo, hi, curv) of the polar function pol (nr, npp) around points (r, theta), 1-d arrays.
    [lo, hi]: range over the radial nodes q0..q0+2 (clipped; q0 = last node with radius <= r; also q0-1 when q0 is
    the outermost node, where a rendering may clamp towards the inside) and the azimuthal nodes p0, p0+1 (wrapped;
    also p0-1 in the seam cell before 2 pi, where a rendering may clamp instead of wrapping, and at exact node angles,
    where rounding decides the cell).  curv: the largest |second difference| of pol, radial or azimuthal, over the
    nodes q0-1..q0+2 x p0-1..p0+2."""
    pol = numpy.asarray(pol, dtype=float)
    nr, npp = pol.shape
    q0 = numpy.searchsorted(numpy.asarray(radii, dtype=float), r, side="right") - 1
    u = theta * npp / (2.0 * math.pi)
    p0 = numpy.floor(u).astype(int)
    at_node = numpy.abs(u - numpy.round(u)) < 1e-9
    seam = p0 >= npp - 1
    last = q0 >= nr - 1
    every = numpy.ones(r.shape, dtype=bool)
    lo = numpy.full(r.shape, numpy.inf)
    hi = numpy.full(r.shape, -numpy.inf)
    d2 = numpy.abs(numpy.roll(pol, -1, axis=1) - 2.0 * pol + numpy.roll(pol, 1, axis=1))
    if nr >= 3:
        d2r = numpy.empty_like(pol)
        d2r[1:-1] = numpy.abs(pol[2:] - 2.0 * pol[1:-1] + pol[:-2])
        d2r[0], d2r[-1] = d2r[1], d2r[-2]
        d2 = numpy.maximum(d2, d2r)
    curv = numpy.zeros(r.shape)
    for dq in (-1, 0, 1, 2):
        q = numpy.clip(q0 + dq, 0, nr - 1)
        use_q = last if dq < 0 else every
        for dp in (-1, 0, 1, 2):
            pp = (p0 + dp) % npp
            curv = numpy.maximum(curv, d2[q, pp])
            if dp == 2:
                continue
            use = use_q & ((at_node | seam) if dp < 0 else every)
            v = pol[q, pp]
            lo = numpy.where(use, numpy.minimum(lo, v), lo)
            hi = numpy.where(use, numpy.maximum(hi, v), hi)
    return lo, hi, curv


def _cart(o, dim, mask, ri, nr, nmax):
    m = _klmod()
    flag = mask
    if mask == "numpy_bool":          # a true mask flag that is not the literal True ("when masked")
        flag, mask = numpy.bool_(True), True
    elif mask == "int_one":
        flag, mask = 1, True
    elif mask == "numpy_false":       # false without being the literal False: which side is taken is recorded
        flag, mask = numpy.bool_(False), None
    elif mask == "int_zero":
        flag, mask = 0, None
    out = m.make_kl(nmax, dim, ri=ri, nr=nr, mask=flag)
    o.stat("lib_calls", 1)
    if not o.check("make_kl_returns_four", isinstance(out, tuple) and len(out) == 4):
        return o
    klc, var, pupil, basis = out
    klc = numpy.asarray(klc, dtype=float)
    pupil = numpy.asarray(pupil)
    var = numpy.asarray(var, dtype=float)
    ok = klc.shape == (nmax, dim, dim) and pupil.shape == (dim, dim) and var.shape == (nmax,)
    o.check("cartesian_shapes", ok, detail="kl %s pupil %s var %s" % (klc.shape, pupil.shape, var.shape))
    if not ok:
        return o
    inside, near = ref.annulus(dim, ri)
    if near.any():
        o.stat("pixels_on_the_annulus_edge_skipped", int(near.sum()))
    dec = ~near
    bad = (pupil != inside.astype(float)) & dec
    o.check("pupil_is_annulus_indicator", not bad.any(), measure=int(bad.sum()), tol=0, n=int(dec.sum()),
            detail="first differing pixel (row, col) %s" % (tuple(int(v) for v in numpy.argwhere(bad)[0]),)
            if bad.any() else None)
    outside = (~inside) & dec
    w = _maxabs(klc[:, outside]) if outside.any() else 0.0
    if mask:
        o.check("masked_zero_outside_annulus", w == 0.0, measure=w, tol=0.0, n=nmax * int(outside.sum()))
    elif mask is None and outside.any():
        o.stat("falsy_mask_flag_treated_as_masked" if w == 0.0 else "falsy_mask_flag_treated_as_unmasked", 1)
    o.check("cartesian_finite", bool(numpy.isfinite(klc).all()))
    evb = _field(o, basis, "evals")
    if evb is not None:
        # the variances returned twice (on their own and inside the basis) are the same numbers
        evb = numpy.asarray(evb, dtype=float)
        o.close("variances_are_polar_evals",
                _maxabs(var - evb) / max(_maxabs(var), 1e-300) if evb.shape == var.shape else float("inf"), TOL_VAR_SAME)
    # ... and they are those of the native-grid basis of the same pupil / sampling / mode count (whose modal
    # covariances the polar and variances cases decide): the variances do not depend on the azimuthal sampling
    try:
        nat = m.gkl_basis(ri, nr, None, nmax)
        o.stat("lib_calls", 1)
        evn = _field(o, nat, "evals")
    except Exception:
        o.stat("native_basis_not_available_not_claimed", 1)
        evn = None
    if evn is not None:
        evn = numpy.asarray(evn, dtype=float)
        o.close("make_kl_variances_equal_native_basis_variances",
                _maxabs(var - evn) / max(_maxabs(evn), 1e-300) if evn.shape == var.shape else float("inf"), TOL_VAR_SAME)
    # the polar functions the rendering has to follow
    F = _functions(o, m, basis, nmax, nr)
    if F is None:
        return o
    got = _grid_and_basic_clauses(o, m, basis, F, ri, nr, nmax, ev=var)
    if got is None:
        return o
    radp = got[2]
    r2, th = ref.pixel_polar(dim)
    sel = inside & dec
    rr = numpy.sqrt(r2[sel])
    tt = th[sel]
    worst = 0.0
    nbad = 0
    first = None
    dev = 0.0
    for i in range(nmax):
        lo, hi, curv = _local_window(F[i], radp, rr, tt)
        v = klc[i][sel]
        exc = numpy.maximum(lo - v, v - hi) - CURV_ALLOW * curv
        k = int(numpy.argmax(exc)) if exc.size else 0
        if exc.size and exc[k] > RANGE_SLACK:
            nbad += int((exc > RANGE_SLACK).sum())
            if first is None:
                rc = numpy.argwhere(sel)[k]
                first = "mode %d pixel (row %d, col %d): value %r outside [%r, %r] widened by %r" % (
                    i, rc[0], rc[1], float(v[k]), float(lo[k]), float(hi[k]), float(CURV_ALLOW * curv[k]))
        if exc.size:
            worst = max(worst, float(exc.max()))
            dev = max(dev, float((hi - lo + 2 * CURV_ALLOW * curv).max()))
    o.check("pixel_within_local_range_of_polar_function", nbad == 0, measure=max(worst, 0.0), tol=RANGE_SLACK,
            n=nmax * int(sel.sum()), detail=first)
    o.note("largest_local_range_width", dev)
    o.outcome(numpy.round(klc[:, ::max(1, dim // 8), ::max(1, dim // 8)], 6))
    return o
