"""C11 Propagators form a group and agree with each other and with theory.

Seven families of cases.

group:  (model checking) the PROGRAM STATE GRAPH of unit-magnification angular-spectrum steps.
        A program is a sequence of steps dz in {-2,-1,+1,+2,+3}*z0; the state of a program is the
        total distance it has covered (an integer multiple of z0).  The operator T(dz) of every
        step is extracted from the REAL angularSpectrum by E2 (all N^2 unit inputs), and a breadth
        first search enumerates ALL programs of <= DEPTH steps, level by level, composing the real
        per-step operators along each program.  Every state carries the operator of the first
        (shortest) program that reached it.  INVARIANT: every path into the same state yields the
        same operator (state 0: the identity).  Because the operators are complete this is the
        group law for ALL input fields on that grid.  Additionally every program is EXECUTED step
        by step on the real function, starting from a fixed non-symmetric complex field, and the
        field it returns is compared with the prediction of the composed operator (this binds the
        graph to the implementation: traces_validated_against_impl).  Each state's operator is
        also compared with one direct real call over the total distance, z == 0 must return the
        input, T(-z) T(z) = I, and non-lattice splits z = t z + (1-t) z compose to T(z).
magrt:  magnified round trip  T(d2->d1, -z, 1/m) T(d1->d2, z, m) = e^{i phi} I  (E2, all inputs).
op:     cross-propagator / Fresnel-integral identities on complete operators (E2, all inputs):
        one-step == direct quadrature of the Fresnel integral on its own grid (z < 0: on the
        descending grid x2 = lambda z f or on the ascending one, the same for the lens); lens ==
        one-step after a thin lens; two-step == chain of two Fresnel quadratures through its
        intermediate plane (z/(1-m) or z/(1+m)); angular spectrum (m = 1) == Fresnel transfer
        function exp(-i pi lambda z f^2); angular spectrum (m != 1) == two-step through z/(1-m) on
        the identical grids (Schmidt derives one from the other, the discrete operators coincide),
        up to a constant phase; magnifications 1 +- 1e-3, 1 +- 1e-6 against the scaled-convolution
        form of the integral; caller-owned arrays and storage variants for every propagator.
history: P(A); P(B); P(A) for every propagator, B = A with ONE parameter edited (wavelength, z,
        sign of z, input spacing, output spacing): each operator against the reference of its own
        parameters (a memoised kernel / grid keyed without that parameter).
fullband: inverse, split and magnified round trip on one full-band field at N = 64, 257, 600 (1030).
beam:   (exploration) lattice of off-centre Gaussian beams that every sampled plane of the method
        resolves (window margin >= 5.5 beam radii => truncation below 1e-13): each propagator
        against the closed form q -> q + z, incl. Gouy phase and orientation; pairs of propagators
        on coinciding grids against each other.
airy:   (exploration) circular aperture -> lensAgainst -> Airy pattern (peak, profile, first dark
        ring, encircled energy, displacement by a tilt).
"""
import fractions
import itertools

import numpy

from mc import Out, Case
from mc import linear
from mc.refmodels import dft
from mc.refmodels import fresnel as fr

PROPERTY = "C11"
LEVEL = "model_checking"
TECHNIQUE = ("explicit-state breadth-first exploration of the program state graph of angular-spectrum steps "
             "(all programs <= depth over a 5-letter step alphabet; state = total distance; state label = "
             "operator composed from the real per-step operators obtained by basis exhaustion; invariant: "
             "path independence), every program also executed on the real function; plus bounded exhaustive "
             "enumeration of operator identities (E2) and of a lattice of resolved Gaussian beams / Airy "
             "patterns against closed forms")
RULE = ("group cases = product(N in {4,5,6,7,8}, wavelength, spacing, z0); per case ALL 5 + 5^2 + ... + 5^depth "
        "programs are enumerated (transitions = program extensions explored, states = distinct total "
        "distances, traces = programs executed step by step on the real angularSpectrum); magrt/op cases = "
        "product(N in {4,6,8}, wavelength, spacing, z, magnification incl. 1 +- 1e-3 and 1 +- 1e-6); history cases = "
        "product(N in {4,6}, single-parameter edit) x 5 propagators; fullband cases = product(N, 2 parameter points); "
        "beam cases = product(N in {64,128}, wavelength, "
        "spacing, waist, asymmetric centre, input plane) x (distance, magnification, propagator) filtered by the "
        "resolvedness predicate; non-trivial = every case except none (all steps have non-unit transfer "
        "functions, all beams are off-centre with |x0| != |y0|)")
ASSUMPTIONS = [
    "group law: decided for all inputs on the enumerated grids (N <= 8) and for all programs up to the depth "
    "bound over the step alphabet {-2,-1,1,2,3} z0 (plus three non-lattice splits); longer programs are "
    "covered by induction over the state graph only within the accumulated tolerance",
    "parameter values outside the (wavelength, spacing, z0, magnification) lattice are not covered",
    "physics clauses are decided on a finite lattice of Gaussian beams resolved by every plane the method "
    "samples (margin >= 5.5 beam radii, spectral margin for the convolution form); Fresnel (paraxial) regime only",
    "one-step / lens outputs for z < 0 (f < 0) are accepted on the grid x2 = lambda z f read literally (signed "
    "spacing, descending coordinates) or on the ascending grid of spacing lambda |z| / (N d1) (the same plane "
    "mirrored through the origin), whichever reproduces the integral - but the same one in every clause and case "
    "(negative_z_grid_is_one_convention); the comparison with the other propagators is made on the ascending grid",
    "two-step: the intermediate plane may be z/(1-m) (the statement's anchor) or z/(1+m), the two planes from which "
    "a second single-transform step lands on spacing m d1; which one is used is read off the complete 4x4 / NxN "
    "operator; equality of the complete two-step and angular-spectrum operators is claimed only for z/(1-m) "
    "(for z/(1+m) the two agree on resolved beams only, which the beam cases decide)",
    "the operator identities are asserted for ALL inputs of the grid (quantifier 'all input fields'), i.e. also for "
    "inputs no plane resolves; this holds for the discretisations named in the statement's anchors and would not "
    "hold for an implementation with additional anti-aliasing (band limit, zero padding)",
    "theory and cross-propagator clauses use even N only (sample N/2 on the axis); odd N is covered by the group and "
    "round-trip clauses (N = 5, 7, 257), which do not depend on where the origin lies: on odd grids the library's "
    "coordinate grids arange(-N/2, N/2) lie half a sample off the origin N//2 of its own centred FFT, a reported "
    "finding that is not part of this check",
    "spacings are metre-scale (>= 4 mm): the constant phase k(1-m)1e-10/(2z) that angularSpectrum carries for m != 1 "
    "stays below the 1e-4 / 1e-5 rad bounds on this lattice only (reported finding for micrometre spacings)",
    "z == 0 'returns the input' and the group clauses are equalities of values to 1e-10, not of bits or objects",
    "Airy clauses are a bounded surrogate: pixelated aperture of radius N/16 or N/12 samples (N = 256, 512), tolerances from the "
    "pixelation error (recorded in the evidence)",
    "a constant phase is allowed where the statement allows it (magnified round trip) and between propagators; "
    "its size is bounded separately (1e-4 rad) and the Gouy phase is checked to 1e-5 rad",
]
ENGINES = ["E1-product-enumeration", "E2-basis-exhaustion", "E3-explicit-state-history-search"]
LEVEL_TEXT = ("Group clauses: for every grid N in {4,5,6,7,8} x 2 wavelengths x 2 spacings x 2 unit distances the state "
              "graph of all programs of <= 4 (quick) / 6 (thorough) angular-spectrum steps over the alphabet "
              "{-2,-1,1,2,3} z0 is explored breadth-first; each state (total distance) carries the operator composed "
              "from the real per-step operators (extracted from all unit inputs), and the invariant 'every path into "
              "a state yields the same operator' is checked on every program; every program is also executed step "
              "by step on the real function and compared with the model. Physics clauses (Gaussian beam, Airy, "
              "cross-propagator agreement on resolved beams) are exploration level; the operator identities "
              "(one-step/lens/two-step vs Fresnel quadrature, angular spectrum vs transfer function and vs two-step) "
              "are decided for all inputs at N <= 8 by basis exhaustion, as are the call histories over two parameter "
              "sets (N in {4,6}, five single-parameter edits, all five propagators). Full-band fields at N = 64..1030 "
              "are single-input exploration.")
LEVEL_NOTE = ("The model is the labelled state graph built from operators measured on the implementation, not a "
              "hand-written abstraction: soundness rests on linearity (C10) and numpy matrix products. Conformance: "
              "every enumerated program is replayed on the real angularSpectrum (traces_validated_against_impl = "
              "number of programs). 'transitions' counts program extensions explored (5 + ... + 5^depth per case), "
              "'states' the distinct total distances per case. Not covered: depth beyond the bound except by "
              "induction, N > 8 for operator identities, beams outside the lattice, odd N for the theory clauses, "
              "histories over more than two parameter sets.")

TOL = 1e-10
TOL_BEAM = 1e-9
TOL_PHASE = 1e-4       # constant phase between propagators (rad)
TOL_GOUY = 1e-5        # rad
MARGIN = 5.5           # window margin in beam radii (1/e amplitude): exp(-5.5^2) = 7e-14

STEPS = [-2, -1, 1, 2, 3]
WVLS = [0.5e-6, 1.5e-6]
D1S = [0.01, 0.05]
Z0S = [100.0, 2500.0]
NS_OP = [4, 6, 8]
MAGS_RT = [0.5, 2.0, 1.3, 0.8]
ZS_OP = [100.0, -100.0, 2500.0, -2500.0, 1.0e4, 137.0, -731.0]   # last two: d^2/(lambda z) not an integer
MAGS_OP = [1.0, 0.5, 0.8, 1.3, 2.0]
NEAR_UNIT = [1e-3, -1e-3, 1e-6, -1e-6]      # magnifications 1 + eps
SPLITS = [(1, 0.37), (-2, 1.0 / 3.0), (3, 0.9), (1, 1e-6), (2, 5e-6), (-1, 1e-4), (3, 1.0 - 2e-5)]
MANY_LEGS = [(1, 64), (-1, 1024), (2, 4096)]      # total (in z0) walked in that many equal legs

# beam lattice (lengths in input samples, distances in Rayleigh ranges)
BEAM_D1 = [0.01, 0.004]
W0PX = [4.2, 5.5, 7.0]
CENTRES = {"A": (3.3, -5.6), "B": (-6.4, 2.2)}
ZA_F = [0.0, -0.6, 0.8]
Z_F = [0.4, -0.4, 1.0, -1.0, 2.5, -2.5, 4.0, -4.0]
MAGS_BEAM = [1.0, 0.5, 0.8, 1.3, 2.0]
NEAR_UNIT_BEAM = [1e-3, -1e-6]             # magnifications 1 + eps (full lattice only)


# call histories: first parameter set and the single-parameter edits (z values with d^2/(lambda z) not an integer)
NS_HISTORY = [4, 6]
HISTORY_BASE = {"wvl": 0.5e-6, "d1": 0.01, "d2": 0.013, "z": 137.0}
HISTORY_EDITS = [("wvl", 1.5e-6), ("z", 731.0), ("z", -137.0), ("d1", 0.05), ("d2", 0.008)]
FULLBAND_POINTS = [(0.5e-6, 0.01, 100.0), (1.5e-6, 0.05, -2500.0)]
FULLBAND_SPLITS = [0.37, 1e-4]
TOL_FULLBAND = 1e-11


def NS_FULLBAND(tier):
    return [64, 257, 600] if tier == "quick" else [64, 257, 600, 1030]


def DEPTH(tier):
    return 4 if tier == "quick" else 6


def NS_BEAM(tier):
    return [64, 128] if tier == "quick" else [64, 128, 256]


def NS_AIRY(tier):
    return [256] if tier == "quick" else [256, 512]


def BOUNDS(tier):
    return {"group": {"N": NS_OP + [5, 7], "wavelengths": WVLS, "spacings": D1S, "z0": Z0S, "step_alphabet_z0": STEPS,
                      "depth": DEPTH(tier), "non_lattice_splits(total_z0, fraction)": SPLITS, "many_equal_legs(total_z0, legs)": MANY_LEGS},
            "magnified_round_trip": {"N": NS_OP, "magnifications": MAGS_RT, "z": ZS_OP[:4]},
            "operator_identities": {"N": NS_OP, "z": ZS_OP, "magnifications": MAGS_OP,
                                    "magnifications_near_unit": [1.0 + e for e in NEAR_UNIT],
                                    "storage": "caller-owned array history and layouts/dtypes per propagator"},
            "call_histories": {"N": NS_HISTORY, "first": HISTORY_BASE, "single_parameter_edits": HISTORY_EDITS,
                               "propagators": 5},
            "fullband": {"N": NS_FULLBAND(tier), "points(wavelength, spacing, z)": FULLBAND_POINTS,
                         "split_fractions": FULLBAND_SPLITS, "magnifications": [1.3, 0.5], "largest_N": max(NS_FULLBAND(tier))},
            "beams": {"N": NS_BEAM(tier), "N_reduced_lattice": [600, 1024] if tier == "quick" else [600, 1024, 1030, 2050], "wavelengths": WVLS, "spacings": BEAM_D1, "waist_px": W0PX,
                      "centres_px": CENTRES, "input_plane_zR": ZA_F, "distance_zR": Z_F,
                      "magnifications": MAGS_BEAM + [1.0 + e for e in NEAR_UNIT_BEAM], "margin_beam_radii": MARGIN},
            "airy": {"N": NS_AIRY(tier), "aperture_radius_px": ["N/16", "N/12"], "focal": [2.5, -2.5]}}


def cases(tier):
    # the group clauses do not depend on a grid convention, so odd grids are explored too
    for N, wvl, d, z0 in itertools.product(NS_OP + [5, 7], WVLS, D1S, Z0S):
        yield Case("group:N=%d:lam=%g:d=%g:z0=%g" % (N, wvl, d, z0),
                   {"kind": "group", "N": N, "wvl": wvl, "d": d, "z0": z0, "depth": DEPTH(tier)})
    for N, wvl, d in itertools.product(NS_OP, WVLS, D1S):
        for z in ZS_OP[:4]:
            yield Case("magrt:N=%d:lam=%g:d1=%g:z=%g" % (N, wvl, d, z),
                       {"kind": "magrt", "N": N, "wvl": wvl, "d1": d, "z": z})
        for z in ZS_OP:
            yield Case("op:N=%d:lam=%g:d1=%g:z=%g" % (N, wvl, d, z),
                       {"kind": "op", "N": N, "wvl": wvl, "d1": d, "z": z})
    for N, wvl, d, w0, c, za in itertools.product(NS_BEAM(tier), WVLS, BEAM_D1, W0PX, sorted(CENTRES), ZA_F):
        yield Case("beam:N=%d:lam=%g:d1=%g:w0=%gpx:c=%s:za=%gzR" % (N, wvl, d, w0, c, za),
                   {"kind": "beam", "N": N, "wvl": wvl, "d1": d, "w0px": w0, "c": c, "za_f": za})
    # grids above 512 / 1024 / 2048 rows (reduced distance / magnification lattice)
    for N in ((600, 1024) if tier == "quick" else (600, 1024, 1030, 2050)):
        for c, w0 in (("A", 7.0), ("B", 5.5)):
            yield Case("beam:N=%d:lam=%g:d1=%g:w0=%gpx:c=%s:za=%gzR:reduced" % (N, 0.5e-6, 0.01, w0, c, -0.6),
                       {"kind": "beam", "N": N, "wvl": 0.5e-6, "d1": 0.01, "w0px": w0, "c": c, "za_f": -0.6,
                        "z_f": [1.0, -2.5], "mags": [1.0, 1.3]})
    # micrometre and nanometre-scale sampling (a detector plane, a fibre tip): "all wavelengths / spacings"; judged
    # since the repair c18cb4e of /repo (angularSpectrum had added 1e-10 m^2 to the squared radius: a constant phase
    # of 0.04 rad between the propagators at 10 um pixels)
    for d_small in (1e-5, 2.5e-6, 4e-4):
        for c, w0 in (("A", 7.0), ("B", 5.5)):
            yield Case("beam:N=%d:lam=%g:d1=%g:w0=%gpx:c=%s:za=%gzR:reduced" % (128, 0.5e-6, d_small, w0, c, -0.6),
                       {"kind": "beam", "N": 128, "wvl": 0.5e-6, "d1": d_small, "w0px": w0, "c": c, "za_f": -0.6,
                        "z_f": [1.0, -2.5, 0.4], "mags": [1.0, 1.3, 0.5, 2.0]})
    for N in NS_AIRY(tier):
        for wvl, f, div in ((0.5e-6, 2.5, 16), (1.5e-6, -2.5, 12)):
            yield Case("airy:N=%d:lam=%g:f=%g:a=N/%d" % (N, wvl, f, div),
                       {"kind": "airy", "N": N, "wvl": wvl, "f": f, "div": div})
    # call histories over two parameter sets that differ in ONE parameter (complete operators, even N)
    for N, (key, val) in itertools.product(NS_HISTORY, HISTORY_EDITS):
        yield Case("history:N=%d:%s->%g" % (N, key, val), {"kind": "history", "N": N, "key": key, "val": val})
    # full-band (not band-limited, not smooth) fields at the sizes propagations are run at
    for N, (wvl, d, z) in itertools.product(NS_FULLBAND(tier), FULLBAND_POINTS):
        yield Case("fullband:N=%d:lam=%g:d=%g:z=%g" % (N, wvl, d, z),
                   {"kind": "fullband", "N": N, "wvl": wvl, "d": d, "z": z})


def evaluate(p):
    return {"group": _group, "magrt": _magrt, "op": _op, "beam": _beam, "airy": _airy, "history": _history,
            "fullband": _fullband}[p["kind"]](p)


def _maxabs(a):
    a = numpy.asarray(a)
    return float(numpy.max(numpy.abs(a))) if a.size else 0.0


def _op_module():
    import aotools.opticalpropagation as op
    return op


def _phase_aligned(X, Y):
    """(max |X e^{-i phi} - Y| / max|Y|, phi) with phi the best constant phase of X against Y"""
    phi = float(numpy.angle(numpy.vdot(numpy.ravel(Y), numpy.ravel(X))))
    s = _maxabs(Y)
    return _maxabs(X * numpy.exp(-1j * phi) - Y) / (s if s > 0 else 1.0), phi


def _rel(X, Y):
    if X.shape != Y.shape:
        return float("inf")
    return _maxabs(X - Y) / _maxabs(Y)


# ---------------------------------------------------------------------------------- reference operators (E2)
# All on row-major flattened N x N fields whose sample j sits at (j - N//2) * spacing (even N only: see
# ASSUMPTIONS for odd grids).

def _tf_ref(N, wvl, d, z):
    """unit magnification: Fresnel transfer function exp(-i pi lambda z f^2) between centred DFTs"""
    f = fr.coords(N, 1.0 / (N * d))
    H = numpy.exp(-1j * numpy.pi * wvl * z * (f[None, :] ** 2 + f[:, None] ** 2)).reshape(-1)
    return dft.kron2(dft.centred_idft(N, 1.0 / (N * d))) @ (H[:, None] * dft.kron2(dft.centred_dft(N, d)))


def _as_ref(N, wvl, d1, d2, z):
    """Fresnel integral from the grid of spacing d1 to the grid of spacing d2 = m d1 as a scaled convolution:
    (x2 - x1)^2 = m (x2/m - x1)^2 + (1 - m) x1^2 + (m - 1)/m x2^2, hence
    U2(x2) = exp(i pi (m-1) x2^2 / (m lambda z)) / m * [Fresnel convolution over z/m of U1 exp(i pi (1-m) x1^2 / (lambda z))](x2/m)
    and x2/m runs over the input grid.  Well conditioned for m -> 1 (unlike a chain through the plane z/(1-m))."""
    m = float(d2) / d1
    x1, x2 = fr.coords(N, d1), fr.coords(N, d2)
    r1 = (x1[None, :] ** 2 + x1[:, None] ** 2).reshape(-1)
    r2 = (x2[None, :] ** 2 + x2[:, None] ** 2).reshape(-1)
    q1 = numpy.exp(1j * numpy.pi * (1.0 - m) * r1 / (wvl * z))
    q3 = numpy.exp(1j * numpy.pi * (m - 1.0) * r2 / (m * wvl * z))
    return q3[:, None] * _tf_ref(N, wvl, d1, z / m) * q1[None, :] / m


def _two_step_planes(m, z):
    """the intermediate planes from which a second single-transform step lands on spacing m d1:
    |z - Dz1| / |Dz1| = m  <=>  Dz1 = z/(1-m) (the plane the statement's anchor names) or z/(1+m) (between source
    and observation plane; the only one for m = 1)"""
    if m == 1.0:
        return [("between", z / 2.0)]
    return [("conjugate", z / (1.0 - m)), ("between", z / (1.0 + m))]


def _chain(N, wvl, d1, d2, z, Dz1):
    """two Fresnel quadratures through the plane Dz1 (sampled with the single-transform spacing of the first)"""
    d1a = abs(fr.one_step_spacing(N, wvl, d1, Dz1))
    return fr.fresnel_matrix_2d(N, wvl, d1a, d2, z - Dz1) @ fr.fresnel_matrix_2d(N, wvl, d1, d1a, Dz1)


def _best_two_step_plane(T2, N, wvl, d1, d2, z):
    """(error, plane name, Dz1, chain) of the candidate intermediate plane whose chain reproduces T2 best"""
    best = None
    for name, Dz1 in _two_step_planes(float(d2) / d1, z):
        C = _chain(N, wvl, d1, d2, z, Dz1)
        e = _rel(T2, C)
        if not e == e:
            e = float("inf")
        if best is None or e < best[0]:
            best = (e, name, Dz1, C)
    return best


def _probe_two_step_planes(o, op, wvl, d1, d2, z):
    """Which intermediate plane does twoStepFresnel use for these parameters?  Decided on the complete 4 x 4 grid
    operator (16 calls).  Returns the list of Dz1 the resolvedness predicate has to test: the identified plane, or
    every candidate when none is identified (never a violation here: the op cases decide that clause)."""
    m = float(d2) / d1
    cands = _two_step_planes(m, z)
    try:
        T2, c = linear.operator(lambda U: op.twoStepFresnel(U, wvl, d1, d2, z), (4, 4), out_shape=(4, 4))
        o.stat("lib_calls", c)
        e, name, Dz1, _ = _best_two_step_plane(T2, 4, wvl, d1, d2, z)
        # rounding of a chain through z/(1-m) grows like 1/|1-m| (measured 4e-8 at |1-m| = 1e-6)
        if e <= max(1e-8, 1e-11 / max(abs(1.0 - m), 1e-300)):
            o.stat("two_step_plane_" + name, 1)
            return [Dz1]
    except Exception:
        pass
    o.stat("two_step_plane_not_identified", 1)
    return [Dz1 for _, Dz1 in cands]


# ================================================================================== group (model checking)

def _field(N):
    j, k = numpy.meshgrid(numpy.arange(N), numpy.arange(N), indexing="ij")
    return (((3 * j + 5 * k) % 7) - 2.5) + 1j * (((2 * j * k + j + 3) % 5) - 1.7)


def _prog(steps):
    return ",".join("%+d" % s for s in steps)


def _group(p):
    o = Out()
    op = _op_module()
    N, wvl, d, z0, depth = p["N"], p["wvl"], p["d"], p["z0"], p["depth"]
    shape, n = (N, N), N * N
    I = numpy.eye(n)

    def step(z):
        return lambda U: op.angularSpectrum(U, wvl, d, d, z)

    def extract(z):
        T, c = linear.operator(step(z), shape, out_shape=shape)
        o.stat("lib_calls", c)
        return T

    # ---- distance 0 returns the input (all spellings of zero), as a complete operator
    u0 = _field(N)
    uscale = _maxabs(u0)
    for name, zero in (("int0", 0), ("0.0", 0.0), ("-0.0", -0.0), ("np0", numpy.float64(0.0))):
        T0 = extract(zero)
        # "distance 0 returns the input": equality of values; bit identity would only follow from an early return,
        # an implementation that applies the unit transfer function returns the input to rounding (~2e-16 * |u|)
        o.close("z0_returns_input", _maxabs(T0 - I), TOL, sub="zero=" + name)
        y = numpy.asarray(step(zero)(u0.copy()))
        o.stat("lib_calls", 1)
        o.close("z0_returns_input", _maxabs(y - u0) / uscale if y.shape == u0.shape else float("inf"), TOL,
                sub="field:zero=" + name)

    # ---- a field stored in a real dtype (a transmission mask, an amplitude at its waist) is the same field
    ur = numpy.round(u0.real * 4.0) + 3.0
    for s_ in STEPS:
        for mag in (1.0, 1.3):
            want = numpy.asarray(op.angularSpectrum(ur.astype(complex), wvl, d, mag * d, s_ * z0))
            for dt in (numpy.float64, numpy.int64, numpy.float32):
                got = numpy.asarray(op.angularSpectrum(ur.astype(dt), wvl, d, mag * d, s_ * z0))
                o.stat("lib_calls", 1)
                o.close("real_dtype_field_is_the_same_field", _maxabs(got - want) / _maxabs(want) if got.shape == want.shape else float("inf"),
                        1e-5 if dt is numpy.float32 else TOL, sub="dz=%+d:mag=%g:%s" % (s_, mag, numpy.dtype(dt).name))
    # ---- real per-step operators (E2)
    T = {s: extract(s * z0) for s in STEPS}
    o.note("min_step_distance_from_identity", min(_maxabs(T[s] - I) for s in STEPS))
    o.outcome([numpy.round(T[s], 6) for s in STEPS])
    for s in STEPS:
        if -s in T:
            o.close("inverse_pair", max(_maxabs(T[-s] @ T[s] - I), _maxabs(T[s] @ T[-s] - I)), TOL,
                    sub="dz=%+d" % s)

    # ---- breadth-first search over ALL programs of <= depth steps; state = total distance
    canon = {0: I}          # state -> operator of the first (shortest) program that reached it
    first = {0: ()}
    progs = [()]            # current level: programs ...
    totals = numpy.zeros(1, dtype=int)
    ops = I[None, :, :].copy()           # ... their composed operators (from the real step operators)
    fields = u0[None, :, :].astype(complex)   # ... and the fields obtained by executing them on the real code
    transitions = 0
    traces = 0
    worst_path, worst_trace, worst_state_trace = 0.0, 0.0, 0.0
    uscale = _maxabs(u0)
    u0v = u0.reshape(-1)
    for level in range(1, depth + 1):
        last = level == depth
        new_progs, new_tot, new_ops, new_fields = [], [], [], []
        for s in STEPS:
            child_ops = numpy.matmul(T[s][None, :, :], ops)          # T(dz) . Op(program)
            fs = step(s * z0)
            for i, pr in enumerate(progs):
                transitions += 1
                child = pr + (s,)
                tot = int(totals[i]) + s
                C = child_ops[i]
                if tot not in canon:                 # new state: label it (BFS => shortest program)
                    canon[tot] = C.copy()
                    first[tot] = child
                dev = _maxabs(C - canon[tot])
                worst_path = max(worst_path, dev)
                if not dev <= TOL:
                    o.check("path_independence", False, measure=dev, tol=TOL, n=0,
                            sub="state=%+d:prog=%s" % (tot, _prog(child)),
                            detail="operator of this program differs from the operator of program [%s] "
                                   "reaching the same total distance" % _prog(first[tot]))
                # conformance: execute the program's last step on the real function (its prefix was
                # executed, step by step, on the previous levels)
                y = numpy.asarray(fs(fields[i].copy()))
                traces += 1
                dt = _maxabs(y.reshape(-1) - C @ u0v) / uscale
                ds = _maxabs(y.reshape(-1) - canon[tot] @ u0v) / uscale
                worst_trace = max(worst_trace, dt)
                worst_state_trace = max(worst_state_trace, ds)
                if not dt <= TOL:
                    o.check("trace_matches_model", False, measure=dt, tol=TOL, n=0,
                            sub="prog=%s" % _prog(child))
                if not ds <= TOL:
                    o.check("trace_matches_state", False, measure=ds, tol=TOL, n=0,
                            sub="state=%+d:prog=%s" % (tot, _prog(child)))
                if not last:
                    new_progs.append(child)
                    new_tot.append(tot)
                    new_fields.append(y)
            if not last:
                new_ops.append(child_ops)
        o.stat("lib_calls", len(STEPS) * len(progs))
        if not last:
            progs = new_progs
            totals = numpy.array(new_tot, dtype=int)
            ops = numpy.concatenate(new_ops, axis=0)
            fields = numpy.array(new_fields)
    o.check("path_independence", True, measure=worst_path, tol=TOL, n=transitions)
    o.check("trace_matches_model", True, measure=worst_trace, tol=TOL, n=traces)
    o.check("trace_matches_state", True, measure=worst_state_trace, tol=TOL, n=traces)
    o.stat("states", len(canon))
    o.stat("transitions", transitions)
    o.stat("traces_validated_against_impl", traces)
    o.note("states_range_z0", [min(canon), max(canon)])

    # ---- every state against ONE direct real call over the total distance (any split of z)
    for s in sorted(canon):
        if s == 0:
            continue
        o.close("state_equals_direct_call", _maxabs(canon[s] - extract(s * z0)), TOL, sub="state=%+d" % s)
    # ---- non-lattice splits
    for tot, t in SPLITS:
        Z = tot * z0
        a, b = t * Z, Z - t * Z
        o.close("split_any_fraction", _maxabs(extract(b) @ extract(a) - extract(Z)), TOL,
                sub="z=%+dz0:t=%.4g" % (tot, t))
    # ---- the same distance walked in very many short legs (the operator of k equal real steps is the k-th power
    #      of the extracted one-leg operator)
    for tot, legs in MANY_LEGS:
        Z = tot * z0
        o.close("split_into_many_short_legs", _maxabs(numpy.linalg.matrix_power(extract(Z / legs), legs) - extract(Z)),
                1e-9, sub="z=%+dz0:legs=%d" % (tot, legs))
    # ---- a caller-owned field handed to two calls in a row (the second call must see what the caller holds)
    from mc import variants
    for mag in (1.0, 1.3):
        k = variants.check_reuse(o, "input_field", lambda U: op.angularSpectrum(U, wvl, d, mag * d, 1.7 * z0), u0.astype(complex),
                                 TOL, sub="mag=%g" % mag, mutate=lambda a: a.__imul__(0.5 - 0.25j))
        o.stat("lib_calls", k)
    return o


# ================================================================================== magnified round trip

def _magrt(p):
    o = Out()
    op = _op_module()
    N, wvl, d1, z = p["N"], p["wvl"], p["d1"], p["z"]
    shape, n = (N, N), N * N
    I = numpy.eye(n)
    for m in MAGS_RT:
        d2 = m * d1
        F, c1 = linear.operator(lambda U: op.angularSpectrum(U, wvl, d1, d2, z), shape, out_shape=shape)
        B, c2 = linear.operator(lambda U: op.angularSpectrum(U, wvl, d2, d1, -z), shape, out_shape=shape)
        o.stat("lib_calls", c1 + c2)
        for name, M in (("back_after_forth", B @ F), ("forth_after_back", F @ B)):
            tr = numpy.trace(M) / n
            phi = numpy.angle(tr)
            o.close("magnified_round_trip", _maxabs(M * numpy.exp(-1j * phi) - I), TOL,
                    sub="m=%g:%s" % (m, name))
            o.close("magnified_round_trip_modulus", abs(abs(tr) - 1.0), TOL, sub="m=%g:%s" % (m, name))
        o.outcome(numpy.round(F, 6))
    return o


# ================================================================================== operator identities

def _one_step_grids(N, wvl, d1, z):
    """Output grids on which a single-transform Fresnel evaluation may return its samples.  z > 0: x2 = lambda z f
    ascending.  z < 0: the statement does not fix the order; x2 = lambda z f read literally is DESCENDING (signed
    spacing), a method that keeps coordinates ascending returns the same plane mirrored through the origin."""
    d2s = fr.one_step_spacing(N, wvl, d1, z)
    if d2s > 0:
        return [("ascending", d2s)]
    return [("descending", d2s), ("ascending", -d2s)]


def _op(p):
    o = Out()
    op = _op_module()
    N, wvl, d1, z = p["N"], p["wvl"], p["d1"], p["z"]
    shape = (N, N)

    def ext(fn):
        T, c = linear.operator(fn, shape, out_shape=shape)
        o.stat("lib_calls", c)
        return T

    rel = _rel

    # one-step: direct quadrature of the Fresnel integral on the grid the method defines (z < 0: either order of
    # the output coordinates, whichever the method uses - the lens clause below then has to use the same one)
    T1 = ext(lambda U: op.oneStepFresnel(U, wvl, d1, z))
    e1, orient, R1 = None, None, None
    for name, dd in _one_step_grids(N, wvl, d1, z):
        R = fr.fresnel_matrix_2d(N, wvl, d1, dd, z)
        e = rel(T1, R)
        if e1 is None or e < e1:
            e1, orient, R1 = e, name, R
    o.close("one_step_is_fresnel_integral", e1, TOL)
    if z < 0 and e1 <= TOL:
        o.note("negative_z_grid", [orient])
        o.stat("negative_z_grid_" + orient, 1)
    # lens (focal length f = z): same integral with the inner quadratic phase cancelled by the lens
    TL = ext(lambda U: op.lensAgainst(U, wvl, d1, z))
    lens = fr.lens_phase(N, wvl, d1, z)
    o.close("lens_equals_one_step_after_lens", rel(TL, T1 * lens[None, :]), TOL)
    o.close("lens_is_fresnel_integral", rel(TL, R1 * lens[None, :]), TOL)
    # angular spectrum, unit magnification: Fresnel transfer function
    TA1 = ext(lambda U: op.angularSpectrum(U, wvl, d1, d1, z))
    o.close("angular_spectrum_transfer_function", rel(TA1, _tf_ref(N, wvl, d1, z)), TOL)
    for m in MAGS_OP:
        d2 = m * d1
        sub = "m=%g" % m
        T2 = ext(lambda U: op.twoStepFresnel(U, wvl, d1, d2, z))
        # chain of two quadratures through the method's intermediate plane: z/(1-m) (anchor of the statement) or
        # z/(1+m), the two planes from which the second step lands on spacing m d1
        e2, plane, _, chain = _best_two_step_plane(T2, N, wvl, d1, d2, z)
        o.stat("two_step_plane_" + plane, 1)
        det = None
        if not e2 <= TOL:
            det = ("residual against the mirror image through the origin of the reference: %.2e"
                   % rel(T2, fr.mirror_matrix(N) @ chain))
        o.close("two_step_is_fresnel_integral", e2, TOL, sub=sub, detail=det)
        if m != 1.0:
            TA = ext(lambda U: op.angularSpectrum(U, wvl, d1, d2, z))
            e, phi = _phase_aligned(TA, _chain(N, wvl, d1, d2, z, z / (1.0 - m)))
            o.close("angular_spectrum_is_fresnel_integral", e, TOL, sub=sub)
            o.close("angular_spectrum_constant_phase", abs(phi), TOL_PHASE, sub=sub)
            if plane == "conjugate" or not e2 <= TOL:
                e, phi = _phase_aligned(T2, TA)
                det = None
                if not e <= TOL:
                    det = ("residual after mirroring the two-step output through the origin: %.2e"
                           % _phase_aligned(fr.mirror_matrix(N) @ T2, TA)[0])
                o.close("two_step_equals_angular_spectrum", e, TOL, sub=sub, detail=det)
            else:
                # equality of the COMPLETE operators (also on inputs no plane resolves) is a property of the pair
                # (scaled convolution, chain through z/(1-m)); a two-step method through z/(1+m) agrees with the
                # angular spectrum on resolved fields only - decided in the beam cases
                o.stat("two_step_equals_angular_spectrum_not_claimed", 1)
    # magnifications arbitrarily close to 1 (a tolerance instead of `m == 1` returns the field on the wrong grid):
    # angular spectrum against the scaled-convolution form of the integral (well conditioned for m -> 1; unchanged
    # library <= 3e-14), two-step against its chain (rounding grows like 1/|1-m|: measured 5e-11 at 1e-3 and 4e-8
    # at 1e-6, tolerance 1e-12/|1-m| = 20x)
    for eps in NEAR_UNIT:
        m = 1.0 + eps
        d2 = m * d1
        sub = "m=1%+g" % eps
        TA = ext(lambda U: op.angularSpectrum(U, wvl, d1, d2, z))
        e, phi = _phase_aligned(TA, _as_ref(N, wvl, d1, d2, z))
        o.close("angular_spectrum_near_unit_magnification", e, TOL, sub=sub)
        o.close("angular_spectrum_constant_phase", abs(phi), TOL_PHASE, sub=sub)
        T2 = ext(lambda U: op.twoStepFresnel(U, wvl, d1, d2, z))
        e2 = _best_two_step_plane(T2, N, wvl, d1, d2, z)[0]
        o.close("two_step_near_unit_magnification", e2, max(TOL, 1e-12 / abs(eps)), sub=sub)
    _op_storage(o, op, N, wvl, d1, z)
    o.outcome(numpy.round(T1 / _maxabs(T1), 6))
    return o


def _op_storage(o, op, N, wvl, d1, z):
    """caller-owned arrays and storage variants for every propagator (the angular spectrum also in `group`)"""
    from mc import variants
    u = _field(N).astype(complex)
    ur = numpy.round(u.real * 4.0) + 3.0                       # integers 0..17: exact in every real dtype offered
    a1 = wvl * abs(z) / d1 ** 2                                # single-transform outputs are O(d1^2 / (lambda z))
    props = (("one_step", lambda U: numpy.asarray(op.oneStepFresnel(U, wvl, d1, z)) * a1),
             ("two_step", lambda U: numpy.asarray(op.twoStepFresnel(U, wvl, d1, 1.3 * d1, z))),
             ("lens", lambda U: numpy.asarray(op.lensAgainst(U, wvl, d1, z)) * a1),
             ("angular_spectrum", lambda U: numpy.asarray(op.angularSpectrum(U, wvl, d1, 0.8 * d1, z))))
    for name, f in props:
        if name != "angular_spectrum":
            k = variants.check_reuse(o, "input_field", f, u, TOL, sub=name, mutate=lambda a: a.__imul__(0.5 - 0.25j))
            o.stat("lib_calls", k)
        # the same values Fortran-ordered, as strided / transposed / read-only views, in single precision
        # (relative 1e-5 of max(1, |result|)), and a real field (mask, amplitude) in real dtypes
        k = variants.check_storage(o, "field_storage", f, u, TOL, sub=name, kinds=("float32",))
        k += variants.check_storage(o, "field_storage", f, ur, TOL, sub=name + ":real", kinds=("float32", "int64", "uint8"),
                                    with_layouts=False)
        o.stat("lib_calls", k)


# ================================================================================== call histories

def _history(p):
    """P(A) ; P(B) ; P(A) for every propagator P, B differing from A in one parameter: a quantity remembered from
    an earlier call under a key that misses that parameter (transfer function, coordinate grid, chirp) makes the
    second operator that of A, or the third that of B.  Operators by basis exhaustion; the oracle for each is the
    reference model of ITS parameters, so the verdict does not depend on which cases this process ran before."""
    o = Out()
    op = _op_module()
    N = p["N"]
    shape = (N, N)
    A = dict(HISTORY_BASE)
    B = dict(A)
    B[p["key"]] = p["val"]

    def ext(fn):
        T, c = linear.operator(fn, shape, out_shape=shape)
        o.stat("lib_calls", c)
        return T

    def grids(q):
        return [fr.fresnel_matrix_2d(N, q["wvl"], q["d1"], dd, q["z"]) for _, dd in _one_step_grids(N, q["wvl"], q["d1"], q["z"])]

    props = [
        ("angular_spectrum:m=1", ("wvl", "d1", "z"), False,
         lambda q: (lambda U: op.angularSpectrum(U, q["wvl"], q["d1"], q["d1"], q["z"])),
         lambda q: [_tf_ref(N, q["wvl"], q["d1"], q["z"])]),
        ("angular_spectrum", ("wvl", "d1", "d2", "z"), True,
         lambda q: (lambda U: op.angularSpectrum(U, q["wvl"], q["d1"], q["d2"], q["z"])),
         lambda q: [_as_ref(N, q["wvl"], q["d1"], q["d2"], q["z"])]),
        ("one_step", ("wvl", "d1", "z"), False,
         lambda q: (lambda U: op.oneStepFresnel(U, q["wvl"], q["d1"], q["z"])), grids),
        ("lens", ("wvl", "d1", "z"), False,
         lambda q: (lambda U: op.lensAgainst(U, q["wvl"], q["d1"], q["z"])),
         lambda q: [R * fr.lens_phase(N, q["wvl"], q["d1"], q["z"])[None, :] for R in grids(q)]),
        ("two_step", ("wvl", "d1", "d2", "z"), False,
         lambda q: (lambda U: op.twoStepFresnel(U, q["wvl"], q["d1"], q["d2"], q["z"])),
         lambda q: [_chain(N, q["wvl"], q["d1"], q["d2"], q["z"], Dz1)
                    for _, Dz1 in _two_step_planes(q["d2"] / q["d1"], q["z"])]),
    ]

    def dev(T, refs, aligned):
        return min((_phase_aligned(T, R)[0] if aligned else _rel(T, R)) for R in refs)

    for name, uses, aligned, call, ref in props:
        if p["key"] not in uses:
            continue
        TA1 = ext(call(A))
        TB = ext(call(B))
        TA3 = ext(call(A))
        o.close("history_first_parameters", dev(TA1, ref(A), aligned), TOL, sub=name)
        o.close("history_after_parameter_change", dev(TB, ref(B), aligned), TOL, sub=name,
                detail="operator obtained for %s after calls with %s" % (B, A))
        o.close("history_back_to_first_parameters", _rel(TA3, TA1), TOL, sub=name)
        o.note("history_min_operator_change", min(float(o.notes.get("history_min_operator_change", 1e300)),
                                                  _rel(TB, TA1)))
        o.outcome(numpy.round(TB / _maxabs(TB), 6))
    return o


# ================================================================================== full-band fields, N = 64 .. 1030

def _fullband(p):
    """group law and magnified round trip on ONE full-band field at sizes where basis exhaustion is out of reach
    (nothing in `beam` has energy in the outer half of the band or at the edge samples)"""
    o = Out()
    op = _op_module()
    N, wvl, d, z = p["N"], p["wvl"], p["d"], p["z"]
    u = _field(N)
    scale = _maxabs(u)

    def AS(U, a, b, dist):
        o.stat("lib_calls", 1)
        return numpy.asarray(op.angularSpectrum(U, wvl, a, b, dist))

    def relf(X, Y):
        return _maxabs(X - Y) / scale if X.shape == Y.shape else float("inf")

    y = AS(u.copy(), d, d, z)
    # unchanged library: <= 2e-14 (unitary transfer function, rounding of two FFT pairs) -> 1e-11
    o.close("fullband_inverse", relf(AS(y.copy(), d, d, -z), u), TOL_FULLBAND)
    for t in FULLBAND_SPLITS:
        o.close("fullband_split", relf(AS(AS(u.copy(), d, d, t * z), d, d, z - t * z), y), TOL_FULLBAND, sub="t=%g" % t)
    o.note("fullband_distance_from_input", relf(y, u))
    for m in (1.3, 0.5):
        back = AS(AS(u.copy(), d, m * d, z), m * d, d, -z)
        e, phi = _phase_aligned(back, u) if back.shape == u.shape else (float("inf"), 0.0)
        # the chirps exp(+-i Phi), Phi <= pi |1-m| max(1,m) N^2 d^2 / (2 lambda |z|) (4e5 rad at N = 600), cancel only to
        # the rounding of their arguments: unchanged library 0.8 .. 1.4 eps Phi at every point -> 8 eps Phi
        Phi = numpy.pi * abs(1.0 - m) * max(1.0, m) * (N * d) ** 2 / (2.0 * wvl * abs(z))
        o.close("fullband_magnified_round_trip", e, TOL_FULLBAND + 8 * 2.2e-16 * Phi, sub="m=%g" % m)
    o.outcome(numpy.round(y[:4, :4], 6))
    return o


# ================================================================================== Gaussian beams

def _mirror(a):
    return numpy.roll(a[::-1, ::-1], 1, axis=(0, 1))


def _orientation_diagnosis(out, ref):
    """which rigid re-orientation of `out` reproduces `ref` (for the failure detail only)"""
    cands = {"as returned": out, "mirrored through the origin": _mirror(out),
             "x reversed": numpy.roll(out[:, ::-1], 1, axis=1), "y reversed": numpy.roll(out[::-1, :], 1, axis=0),
             "transposed": out.T, "complex conjugated": numpy.conj(out)}
    return "; ".join("%s: %.1e" % (k, _phase_aligned(v, ref)[0]) for k, v in cands.items())


def _margin(N, d, c, w):
    return ((N // 2 - 1) * abs(d) - c) / w


def _frac_cycles(z, wvl):
    """fractional part of z / wvl computed exactly (carrier phase k z modulo 2 pi)"""
    q = fractions.Fraction(float(z)) / fractions.Fraction(float(wvl))
    return float(q - (q.numerator // q.denominator))


def _wrap(a):
    return (a + numpy.pi) % (2 * numpy.pi) - numpy.pi


def _beam(p):
    o = Out()
    op = _op_module()
    N, wvl, d1 = p["N"], p["wvl"], p["d1"]
    w0 = p["w0px"] * d1
    x0, y0 = (v * d1 for v in CENTRES[p["c"]])
    c = max(abs(x0), abs(y0))
    zR = fr.rayleigh_range(wvl, w0)
    za = p["za_f"] * zR
    Uin = fr.gaussian_beam(N, d1, wvl, w0, za, x0, y0)
    g_in = _margin(N, d1, c, fr.beam_radius(wvl, w0, za))
    g_spec = numpy.pi * w0 / (2 * d1)          # spectrum exp(-(pi w0 f)^2) at the Nyquist frequency
    n_resolved = 0

    neg_grids = set()

    def compare(name, out, grids, z, sub, tol=TOL_BEAM):
        """`grids`: candidate (orientation, signed spacing) of the output samples; the one that reproduces the closed
        form best is used for every clause of this output and returned (None if the field clause fails)"""
        e, phi, d2, orient = None, None, None, None
        for gname, dd in grids:
            ref_ = fr.gaussian_beam(N, dd, wvl, w0, za + z, x0, y0)
            e_, phi_ = _phase_aligned(out, ref_) if out.shape == ref_.shape else (float("inf"), 0.0)
            if e is None or e_ < e:
                e, phi, d2, orient, ref = e_, phi_, dd, gname, ref_
        det = None
        if not e <= tol:
            det = "relative residual of the output " + _orientation_diagnosis(out, ref)
        o.close("gaussian_beam", e, tol, sub=sub, detail=det)
        # width from the second moment of |U|^2: independent of orientation and phase, so it stays
        # informative for a configuration whose field comparison already fails
        cx, cy, w = fr.second_moment_radius(out, d2)
        o.close("beam_width", abs(w / fr.beam_radius(wvl, w0, za + z) - 1.0), 1e-8, sub=sub)
        if e <= tol:
            # absolute phase: Gouy phase is part of the reference; envelope or full-carrier convention
            dphi = min(abs(_wrap(phi)), abs(_wrap(phi - 2 * numpy.pi * _frac_cycles(z, wvl))))
            o.close("gouy_phase", dphi, TOL_GOUY, sub=sub)
            o.close("beam_centroid", max(abs(cx - x0), abs(cy - y0)) / w0, 1e-8, sub=sub)
            return orient
        return None

    def g_plane(Dz1):
        d1a = abs(fr.one_step_spacing(N, wvl, d1, Dz1))
        return _margin(N, d1a, c, fr.beam_radius(wvl, w0, za + Dz1))

    def two_step_resolved(m, d2, z):
        """does the intermediate plane of the two-step method resolve the beam?  If every candidate plane does (or
        none), the answer does not depend on the method; otherwise the method is asked which plane it uses."""
        g = [g_plane(Dz1) for _, Dz1 in _two_step_planes(m, z)]
        if min(g) >= MARGIN:
            return True
        if not max(g) >= MARGIN:
            return False
        return min(g_plane(Dz1) for Dz1 in _probe_two_step_planes(o, op, wvl, d1, d2, z)) >= MARGIN

    mags = [(m, "m=%g" % m) for m in p.get("mags", MAGS_BEAM)]
    if "mags" not in p:
        mags += [(1.0 + eps, "m=1%+g" % eps) for eps in NEAR_UNIT_BEAM]
    for zf in p.get("z_f", Z_F):
        z = zf * zR
        w_out = fr.beam_radius(wvl, w0, za + z)
        for m, mname in mags:
            d2 = m * d1
            near = m != 1.0 and abs(m - 1.0) < 0.01
            g_out = _margin(N, d2, c, w_out)
            sub = "%s:z=%+gzR" % (mname, zf)
            # angular spectrum: spectrum inside the band (m = 1), resp. the plane z/(1-m) in which the scaled
            # convolution is equivalent to two single-transform steps resolved (-> the band condition for m -> 1)
            ok_as = min(g_in, g_out, g_spec if m == 1.0 else g_plane(z / (1.0 - m))) >= MARGIN
            ok_two = min(g_in, g_out) >= MARGIN and two_step_resolved(m, d2, z)
            if ok_as:
                a = numpy.asarray(op.angularSpectrum(Uin.copy(), wvl, d1, d2, z))
                o.stat("lib_calls", 1)
                n_resolved += 1
                compare("angular_spectrum", a, [("ascending", d2)], z, "angular_spectrum:" + sub)
            # rounding of the two-step chain grows like 1/|1-m| (plane z/(1-m) far away): 1e-12/|1-m|, see _op
            tol_two = max(TOL_BEAM, 1e-12 / abs(m - 1.0)) if near else TOL_BEAM
            if ok_two:
                t = numpy.asarray(op.twoStepFresnel(Uin.copy(), wvl, d1, d2, z))
                o.stat("lib_calls", 1)
                n_resolved += 1
                compare("two_step", t, [("ascending", d2)], z, "two_step:" + sub, tol=tol_two)
            if ok_as and ok_two:
                e, phi = _phase_aligned(t, a)
                det = None
                if not e <= tol_two:
                    det = "relative residual of the two-step output against angular spectrum, " + \
                          _orientation_diagnosis(t, a)
                o.close("agree_two_step_angular_spectrum", e, tol_two, sub=sub, detail=det)
                if e <= tol_two:
                    o.close("agree_constant_phase", abs(phi), TOL_PHASE, sub="two_step~angular_spectrum:" + sub)
        # one-step on its own grid (z < 0: in either order of the output coordinates); the other propagators asked
        # for that grid, ascending
        grids = _one_step_grids(N, wvl, d1, z)
        d2a = abs(grids[0][1])
        g_out = _margin(N, d2a, c, w_out)
        sub = "z=%+gzR" % zf
        if min(g_in, g_out) >= MARGIN:
            s = numpy.asarray(op.oneStepFresnel(Uin.copy(), wvl, d1, z))
            o.stat("lib_calls", 1)
            n_resolved += 1
            orient = compare("one_step", s, grids, z, "one_step:" + sub)
            if z < 0 and orient is not None:
                neg_grids.add(orient)
            if z > 0:
                orient = "ascending"          # nothing to identify: compared also when the field clause failed
            m = d2a / d1
            if orient is not None and abs(m - 1.0) > 0.05:
                s_asc = s if orient == "ascending" else _mirror(s)
                ok = {"angular_spectrum": g_plane(z / (1.0 - m)) >= MARGIN, "two_step": two_step_resolved(m, d2a, z)}
                for name, fn in (("angular_spectrum", op.angularSpectrum), ("two_step", op.twoStepFresnel)):
                    if not ok[name]:
                        continue
                    other = numpy.asarray(fn(Uin.copy(), wvl, d1, d2a, z))
                    o.stat("lib_calls", 1)
                    e, phi = _phase_aligned(other, s_asc)
                    det = None
                    if not e <= TOL_BEAM:
                        det = ("relative residual of the %s output against one-step (m=%.4g), " % (name, m)
                               + _orientation_diagnosis(other, s_asc))
                    o.close("agree_%s_one_step" % name, e, TOL_BEAM, sub=sub + ":m=%.4g" % m, detail=det)
                    if e <= TOL_BEAM:
                        o.close("agree_constant_phase", abs(phi), TOL_PHASE,
                                sub="%s~one_step:%s" % (name, sub))
    if neg_grids:
        o.note("negative_z_grid", sorted(neg_grids))
        for g in neg_grids:
            o.stat("negative_z_grid_" + g, 1)
    o.note("resolved_configurations_in_last_case", n_resolved)
    o.stat("resolved_beam_configurations", n_resolved)
    return o


# ================================================================================== Airy pattern

def _airy(p):
    o = Out()
    op = _op_module()
    N, wvl, f = p["N"], p["wvl"], p["f"]
    d1 = 0.002
    a_px = N // p["div"]
    a = a_px * d1
    x = fr.coords(N, d1)
    r2 = x[None, :] ** 2 + x[:, None] ** 2
    pupil = (r2 <= a * a).astype(complex)
    c = N // 2
    d2 = fr.one_step_spacing(N, wvl, d1, f)       # signed; the pattern is symmetric
    U = numpy.asarray(op.lensAgainst(pupil.copy(), wvl, d1, f))
    o.stat("lib_calls", 1)
    # an aperture is normally a real 0/1 mask (aotools.circle returns float): the same aperture stored as float,
    # int or bool gives the same focal-plane field as its complex copy, over the whole plane
    for dt in (float, numpy.int64, bool, numpy.float32):
        Ur = numpy.asarray(op.lensAgainst(pupil.real.astype(dt), wvl, d1, f))
        o.stat("lib_calls", 1)
        o.close("airy_real_mask_equals_complex_mask", _maxabs(Ur - U) / _maxabs(U) if Ur.shape == U.shape else float("inf"),
                1e-6 if dt is numpy.float32 else 1e-12, sub=numpy.dtype(dt).name)
    I = numpy.abs(U) ** 2
    npix = float(pupil.real.sum())
    # on-axis amplitude = (1 / lambda f) * integral of the pupil (exact for the sampled pupil)
    o.close("airy_peak", abs(abs(U[c, c]) * wvl * abs(f) / (npix * d1 ** 2) - 1.0), 1e-10)
    o.check("airy_peak_at_centre", numpy.unravel_index(int(numpy.argmax(I)), I.shape) == (c, c))
    xo = fr.coords(N, abs(d2))
    ro = numpy.sqrt(xo[None, :] ** 2 + xo[:, None] ** 2)
    v = fr.airy_v(wvl, a, f, ro)
    sel = v <= 12.0
    prof = I / I[c, c]
    tol_prof = 0.25 / a_px         # pixelated edge: relative area / shape error ~ 1/(radius in samples)
    o.close("airy_profile", _maxabs((prof - fr.airy_intensity(v))[sel]), tol_prof)
    # first dark ring along the four half-axes: pixel nearest to v = 3.8317
    r1 = fr.FIRST_DARK_RING * wvl * abs(f) / (2 * numpy.pi * a)
    k1 = r1 / abs(d2)
    for name, line in (("+x", prof[c, c:]), ("-x", prof[c, c::-1]), ("+y", prof[c:, c]), ("-y", prof[c::-1, c])):
        seg = line[1:int(1.5 * k1) + 1]      # up to v = 5.7, before the second ring (7.02)
        kmin = 1 + int(numpy.argmin(seg))
        o.close("airy_first_dark_ring", abs(kmin - k1), 1.0, sub=name,
                detail="minimum at pixel %d, theory %.3f" % (kmin, k1))
        # the nearest sample is at most half a sample from the zero: I <= (2 |J1'(v1)| / v1 * dv)^2 there
        dv = 0.5 * fr.FIRST_DARK_RING / k1
        bound = (2 * 0.40276 / fr.FIRST_DARK_RING * dv) ** 2 + tol_prof
        o.close("airy_dark_ring_depth", float(seg.min()), bound, sub=name)
    # encircled energy inside the first and second dark rings (fractions of the input power)
    pin = npix * d1 ** 2
    for name, vz in (("first", fr.FIRST_DARK_RING), ("second", fr.SECOND_DARK_RING)):
        frac = float(I[v <= vz].sum() * d2 ** 2 / pin)
        o.close("airy_encircled_energy", abs(frac - float(fr.airy_encircled(vz))), 3e-3, sub=name,
                detail="measured %.5f theory %.5f" % (frac, float(fr.airy_encircled(vz))))
    # a tilt exp(2 pi i (a x + b y)) displaces the pattern to (lambda f a, lambda f b) = (+3, -5) output samples
    kx, ky = 3, -5
    tilt = numpy.exp(2j * numpy.pi * (kx * x[None, :] + ky * x[:, None]) / (N * d1))
    Ut = numpy.asarray(op.lensAgainst(pupil * tilt, wvl, d1, f))
    o.stat("lib_calls", 1)
    # on the signed grid x2 = lambda f * frequency the index offset is (ky, kx) for either sign of f; a method that
    # keeps the coordinates ascending for f < 0 puts the same point at (-ky, -kx)
    wants = {"ascending" if f > 0 else "descending": (ky, kx)}
    if f < 0:
        wants["ascending"] = (-ky, -kx)
    got = tuple(int(g) for g in numpy.unravel_index(int(numpy.argmax(numpy.abs(Ut))), Ut.shape))
    orient = [g for g, (oy, ox) in wants.items() if got == (c + oy, c + ox)]
    o.check("airy_tilt_displacement", bool(orient),
            detail="peak at %s expected %s" % (got, " or ".join(str((c + oy, c + ox)) for oy, ox in wants.values())))
    oy, ox = wants[orient[0]] if orient else (ky, kx)
    if f < 0 and orient:
        o.note("negative_z_grid", orient)
        o.stat("negative_z_grid_" + orient[0], 1)
    shifted = numpy.roll(numpy.abs(Ut), (-oy, -ox), axis=(0, 1))
    o.close("airy_tilt_shape", _maxabs(shifted - numpy.abs(U)) / abs(U[c, c]), 1e-9)
    o.outcome(numpy.round(prof[c, c:c + 12], 6))
    return o




# ================================================================================== cross-case clause

def finalize(tier, results):
    """For z < 0 (f < 0) the single-transform methods may return their samples on the descending grid x2 = lambda z f
    or on the ascending one - but on the same one everywhere (operators, beams, lens/Airy): 'the same orientation'."""
    o = Out()
    seen = {}
    for cid in sorted(results):
        for g in (results[cid].notes.get("negative_z_grid") or []):
            seen.setdefault(g, cid)
    o.check("negative_z_grid_is_one_convention", len(seen) <= 1, n=max(1, len(seen)),
            detail=None if len(seen) <= 1 else {"first case of each convention": seen})
    o.note("negative_z_grid_convention", sorted(seen))
    return o
