"""C02 Tomographic reconstructor is the minimum-variance linear estimator.

A (function level, E1 + E2): every distinct PSD matrix C = G G^T with G over a small integer
alphabet (all of {-1,0,1}^(m x k) resp. {0,1}^(m x k), de-duplicated on C itself, which is
all the function sees) x every partition (number of on-axis sub-apertures) x every
conditioning value is pushed through the REAL create_tomographic_covariance_reconstructor.
The retained subspace comes from an independent eigen-decomposition of C_off,off; the
normal equations are checked on it, zero weight on the discarded directions that carry variance,
and optimality is decided by basis exhaustion: the residual variance J(R) = E|s_on - R s_off|^2 is a convex
quadratic in R, so R is optimal on the retained subspace iff J does not decrease along +-
every elementary direction E_ab P -- all of them are evaluated from the definition of J.
Every 8th matrix (thorough: every matrix) additionally: other storage / call histories on one array, the
default conditioning and keyword / numpy-scalar spelling of the arguments, conditioning 2, the same matrix
scaled by 2^-46 and 2^33, and the matrix handed over in single precision.

B, B2 (end to end, E1): geometries through the real CovarianceMatrix builder. B: the on-axis
sensor duplicated as the first or the second off-axis sensor and another sensor elsewhere; R
must be [I 0] resp. [0 I] and satisfy the normal equations on the float32 matrix. B2: two identical off-axis
sensors without a copy of the on-axis one (rank-deficient off-axis block, also ground-layer-only profiles), four
sensors with the duplicate in the middle, two sensors (R = I), the duplicate pair with half-size sub-apertures,
and the matrix assembled by the multi-process path of the builder.

H (call histories on one object, E3): all histories of {assign geometry attributes, build, reconstruct(c),
reconstruct(), caller edits the matrix}; the oracle is the free function on a copy of the matrix the caller holds.
"""
import itertools

import numpy

from mc import Out, Case
from mc.refmodels import slopes

PROPERTY = "C02"
LEVEL = "exploration"
TECHNIQUE = ("bounded exhaustive enumeration of integer PSD matrices x partitions x conditioning values on "
             "the real reconstructor, optimality decided by exhausting all elementary perturbation "
             "directions of the convex residual variance; end-to-end sensor layouts (duplicated on-axis sensor, "
             "identical off-axis sensors, 2-4 sensors, multi-process build) through the real covariance builder; "
             "breadth-first search over call histories on one CovarianceMatrix object")
RULE = ("A: cases = chunks of 256 consecutive matrices of the sorted list of distinct C = G G^T, G over the "
        "family alphabet; inside a case every (n_on, rcond) is evaluated. B: case = (mask, on-axis kind, "
        "third-sensor kind, third mask, third size, position of the duplicate); inside every layer set with a layer at altitude, two "
        "wavelength assignments, every rcond and the default conditioning. B2: case = (layout, mask, on-axis kind, "
        "other kinds). H: case = start geometry, inside every history up to the depth bound. Non-trivial: chunk "
        "contains a rank-deficient C_off,off (A) / always (B, B2, H)")
ASSUMPTIONS = [
    "A: matrices outside the integer families (other sizes, entries) are not covered; float64 input, plus the "
    "same integer matrices as int64 / int32 / float32 arrays and scaled by 2^-46 and 2^33",
    "retained subspace = eigen-directions of C_off,off with eigenvalue > rcond * largest; an eigenvalue "
    "within 1e-9 relative of the cut-off (float64 input; 1e-4 / rcond relative for float32 input, whose singular "
    "values carry an error of ~4e-6 of the largest) is 'borderline': the clauses then only use the clearly "
    "retained and the clearly discarded directions (either treatment of a borderline direction is accepted)",
    "ADDED clause, not in the statement (it says what 'conditioning' means): R gives no weight to the clearly "
    "discarded directions that carry variance (eigenvalue > 1e-10 of the largest; end to end > 1e-5). Weight on "
    "exactly-null directions of C_off,off does not change E|s_on - R s_off|^2 and is only counted "
    "(weight_on_null_directions_observed); equal weights on two identical sensors are an observation",
    "rcond = 0 is claimed only for numerically full-rank C_off,off (the statement restricts zero "
    "conditioning to a well-conditioned C_off,off); rank-deficient or all-zero C_off,off with rcond = 0 is "
    "counted (rc0_singular_not_claimed) and its behaviour (non-finite result, exception, not optimal) recorded "
    "as an observation, not as a clause",
    "B, B2: with rcond = 0 everything is claimed only for cond(C_off,off) <= 300 (float32 matrix, statement: "
    "well-conditioned), counted otherwise; with rcond > 0 the normal equations on the retained subspace are "
    "judged for every geometry (what is retained has condition number <= 1 / rcond); the duplicate-sensor "
    "identity is claimed when nothing is discarded and cond <= 300",
    "method versus free function on a copy of the returned matrix: equal up to the float32 tolerance (not bit "
    "equal), and only when no eigenvalue is borderline",
    "H: the oracle is the free function applied to a copy of the matrix RETURNED by the last build (with the "
    "caller's later edits). Assigning gs_positions / layer_altitudes on the object is a stimulus only: whether the "
    "next build re-reads them is not claimed. Edits of cm.covariance_matrix (in place / assignment) are part of "
    "the histories only if a fresh object is seen to read that attribute (else counted as not claimed)",
    "tolerances: A 1e-9 relative to the operand scale (measured <= 1e-12), float32 input 1e-5 (measured <= 2e-7); "
    "B 1e-4 (float32 pinv; measured <= 9e-6), for rcond = 1e-3: 1.2e-3 (10 eps32 / rcond; measured <= 5e-5); "
    "H 1e-4 (measured 0; a float64 route differs by <= 6e-7; stale results differ by >= 2e-2)",
    "the default conditioning (third argument omitted) is 0, as documented in both signatures",
]
ENGINES = ["E1-product-enumeration", "E2-basis-exhaustion", "E3-explicit-state-history-search"]
LEVEL_TEXT = ("All distinct C = G G^T for G in {-1,0,1}^(4x2) (quick) plus {-1,0,1}^(4x3), {-1,0,1}^(6x2) "
              "(thorough) and {0,1}^(6x3) (both) are enumerated completely (861 / 12229 / 66795 / 45760 "
              "matrices, incl. rank-deficient, zero-block, duplicated-row ones) x partitions x 5 conditioning "
              "values; for each, all 2 n_on x n_off elementary perturbation directions on the retained subspace "
              "are exhausted in both signs, which decides optimality against every competing linear map by "
              "convexity. End to end: every lattice geometry with a duplicated on-axis sensor, plus the B2 sensor "
              "layouts. Histories: every sequence of the 9 operations up to depth 6 (quick) / until no new state is reached (thorough; at most 2 caller edits per build) on one object.")
LEVEL_NOTE = ("Trusted: numpy.linalg.eigh for the oracle projector, the algebra J(R) = tr(Coo - 2 R Cfo + R Cff R^T). "
              "Not covered: matrices outside the families, rcond = 0 on singular C_off,off (outside the statement), "
              "empty partitions (n_on = 0 or no off-axis measurement).")

RCONDS = [0.0, 1e-12, 0.1, 0.5, 0.9]
TOL_A = 1e-9
TOL_F32 = 1e-5      # float32 input, rcond >= 0.1 (retained condition number <= 10): measured <= 2e-7 on the unchanged library
BORDER = 1e-9
ZERO_EIG = 1e-10
CHUNK = 256
EPS_DIR = 0.5
RC0_SINGULAR_IS_CLAUSE = False     # see ASSUMPTIONS; flip to judge rcond=0 on singular C_off,off too

FAMILIES = {                        # name -> (m, k, alphabet)
    "4x2": (4, 2, (-1, 0, 1)),
    "4x3": (4, 3, (-1, 0, 1)),
    "6x2": (6, 2, (-1, 0, 1)),
    "6x3b": (6, 3, (0, 1)),
}
_FAM = {}


def _families(tier):
    return ["4x2", "6x3b"] if tier == "quick" else ["4x2", "4x3", "6x2", "6x3b"]


def family(name):
    """sorted array of all distinct G G^T (ints), shape (N, m, m)"""
    if name not in _FAM:
        m, k, vals = FAMILIES[name]
        n = m * k
        digits = numpy.indices((len(vals),) * n, dtype=numpy.int8).reshape(n, -1).T
        G = numpy.asarray(vals, dtype=numpy.int8)[digits].reshape(-1, m, k)
        C = numpy.einsum("nik,njk->nij", G, G, dtype=numpy.int8)
        U = numpy.unique(C.reshape(len(C), -1), axis=0)
        _FAM[name] = U.reshape(-1, m, m).astype(numpy.int64)
    return _FAM[name]


_TIER = ["quick"]       # storage / reuse clauses: every 8th matrix in the quick tier, every matrix in the thorough tier


def tier_is_thorough():
    return _TIER[0] == "thorough"


def setup(tier):
    _TIER[0] = tier
    for f in _families(tier):
        family(f)


# --- B alphabet
B_MASKS_Q = ["2:1111", "2:1001", "3:111101111"]
B_MASKS_T = ["2:1111", "2:1001", "2:0110", "2:1000", "3:111101111", "3:100010001", "3:111111111"]
B_LSETS = [(1,), (2,), (0, 1), (0, 2), (1, 2)]
B_RCONDS = [0.0, 1e-3, 0.1]
B_TOL = 1e-4
B_COND_MAX = 300.0


def BOUNDS(tier):
    from checks import C01
    return {"A_families": {f: {"m": FAMILIES[f][0], "k": FAMILIES[f][1], "alphabet": list(FAMILIES[f][2]),
                               "distinct_C": int(len(family(f)))} for f in _families(tier)},
            "A_n_on": "1 for m=4; 1,2 for m=6", "A_rcond": RCONDS, "A_chunk": CHUNK, "A_big(m, rank, n_on)": ABIG,
            "A_extras": {"on": "every 8th matrix" if tier == "quick" else "every matrix", "rcond": [2.0],
                         "scale_factors": ["2^-46", "2^33"], "scale_rcond": [1e-12, 0.1],
                         "float32_rcond": [0.1, 0.5, 0.9], "argument_spelling": ["keywords", "numpy.int64 / numpy.float64"],
                         "default_conditioning": "third argument omitted"},
            "B_masks": B_MASKS_Q if tier == "quick" else B_MASKS_T, "B_kinds": C01.KIND_NAMES,
            "B_layer_sets": ["".join(map(str, s)) for s in B_LSETS], "B_rcond": B_RCONDS + ["default"],
            "B_wavelengths": ["all 500 nm", "third sensor 700 nm"], "B_duplicate_position": [1, 2], "B_third_size": ["d1", "d2"], "B_cond_max": B_COND_MAX,
            "B2_layouts": {"XX": "[on, X, X] layer sets + ground layer only", "mid4": "[on, other, duplicate, other]",
                           "two": "[on, duplicate] layer sets + ground layer only", "dupd2": "[on, duplicate, other] half-size sub-apertures",
                           "mp": "[on, duplicate, other] built with threads=2 (controlled pool)"},
            "B2_other_kinds": "one per on-axis kind" if tier == "quick" else "all",
            "H_ops": H_OPS, "H_depth": H_DEPTH[tier], "H_max_caller_edits_per_build": H_MAX_EDITS,
            "H_geometries": sorted(H_GEOMS)}


def _b_cases(tier):
    from checks import C01
    masks = B_MASKS_Q if tier == "quick" else B_MASKS_T
    for m in masks:
        for k0 in C01.KIND_NAMES:
            for k2 in C01.KIND_NAMES:
                if k2 == k0:
                    continue
                for m2 in sorted(set([m, "2:1111"])):
                    for d2 in ("d1", "d2"):
                        for pos in (1, 2):          # position of the duplicate among the off-axis sensors
                            yield (m, k0, k2, m2, d2, pos)


def cases(tier):
    for g in sorted(H_GEOMS):
        yield Case("H:start=%s" % g, {"kind": "H", "start": g, "depth": H_DEPTH[tier]})
    for c in _cases_ab(tier):
        yield c


def _cases_ab(tier):
    for f in _families(tier):
        N = len(family(f))
        for c in range((N + CHUNK - 1) // CHUNK):
            yield Case("A:%s:chunk=%d" % (f, c), {"kind": "A", "family": f, "chunk": c})
    for m, k, non in ABIG:
        yield Case("Abig:m=%d:rank=%d:non=%d" % (m, k, non), {"kind": "Abig", "m": m, "k": k, "non": non})
    for b in _b_cases(tier):
        yield Case("B:%s/%s+%s/%s/%s:dup@%d" % (b[0], b[1], b[3], b[2], b[4], b[5]), {"kind": "B", "b": list(b)})
    for b in _b2_cases(tier):
        yield Case("B2:%s:%s/%s+%s+%s" % b, {"kind": "B2", "b2": list(b)})


# ----------------------------------------------------------------------------- call histories on one object
# (added after a seeded change showed that the wrapper can carry state between calls: a reconstructor memoised
#  per conditioning value survived a rebuild of the covariance matrix)

H_GEOMS = {
    "g0": dict(gspos=[[0., 0.], [0., 0.], [20., -10.]], alts=[0., 8000.]),
    "g1": dict(gspos=[[0., 0.], [0., 0.], [-15., 25.]], alts=[0., 12000.]),
}
H_OPS = ["geom:g0", "geom:g1", "build", "rec:0", "rec:0.1", "rec:0.5", "rec:default", "edit:diag", "assign:diag"]
# float32 matrix, C_off,off of g0/g1 has condition number ~160: the method differs from the function applied to a
# float64 copy by <= 6e-7 on the unchanged library (0 from the function on a float32 copy); a reconstructor of
# another matrix / conditioning is off by 2e-2 ... 1
H_TOL = 1e-4
H_DEPTH = {"quick": 6, "thorough": 12}      # the state space (bounded by H_MAX_EDITS) closes at depth 11: 230 states
H_MAX_EDITS = 2          # caller edits of the matrix per history (every edit is a new matrix: bounds the state space)
H_NOISE = 0.2            # the caller adds this fraction of the mean diagonal to the diagonal (WFS noise variance)


def _h_object(geom):
    from aotools.turbulence import slopecovariance as sc
    g = H_GEOMS[geom]
    m = [numpy.array([[1, 1], [1, 1]]) for _ in range(3)]
    return sc.CovarianceMatrix(3, m, 1.0, [0.5, 0.5, 0.5], [0, 0, 90000.], [list(x) for x in g["gspos"]],
                               [5e-7, 5e-7, 6e-7], 2, list(g["alts"]), [0.2, 0.3], [25., 10.], threads=1)


H_NON = 4                # sub-apertures of the first sensor of _h_object


def _h_noisy(M):
    """what the caller does to its matrix: noise variance on the diagonal (a new array, same dtype)"""
    M = numpy.array(M)
    d = numpy.arange(M.shape[0])
    M[d, d] += numpy.asarray(H_NOISE * float(numpy.mean(M[d, d])), dtype=M.dtype)
    return M


def _h_cut_clear(M, rc):
    """no eigenvalue of C_off,off so close to the cut that single-precision rounding decides its side"""
    if rc == 0.0:
        return True
    C = numpy.asarray(M, dtype=float)
    Cff = C[2 * H_NON:, 2 * H_NON:]
    w = numpy.linalg.eigvalsh(0.5 * (Cff + Cff.T))
    wmax = float(numpy.max(numpy.abs(w)))
    return bool(wmax > 0 and numpy.min(numpy.abs(w / wmax - rc)) > rc * _border32(rc))


def _h_probe(kind):
    """does the method read the matrix the caller left in `cm.covariance_matrix` (edited in place / assigned)?
    Asked on a fresh object with no earlier reconstructor. That attribute is how the library hands the matrix from
    the builder to the method, but it is not a documented input: when the answer is no (or asking fails) the edit
    operations are left out of the histories."""
    try:
        fn = _fn()
        cm = _h_object("g0")
        M = numpy.array(cm.make_covariance_matrix())
        new = _h_noisy(M)
        if kind == "edit":
            cm.covariance_matrix[...] = new
        else:
            cm.covariance_matrix = new.copy()
        got = numpy.array(cm.make_tomographic_reconstructor(svd_conditioning=0))     # (copies: held across calls)
        want = numpy.array(fn(new.copy(), H_NON, 0))
        stale = numpy.array(fn(M.copy(), H_NON, 0))
        # (the edit moves R by ~0.2 at conditioning 0: the question is decidable)
        return bool(got.shape == want.shape and _maxabs(got - want) <= H_TOL and _maxabs(stale - want) > 100 * H_TOL)
    except Exception:
        return False


def _evaluate_h(p):
    """BFS over all histories of {assign geometry attributes, rebuild, reconstruct(c), reconstruct(), caller edits the
    matrix} on ONE CovarianceMatrix object: every reconstructor returned by the method must be the one the free
    function gives for (a copy of) the matrix the last build returned, with the caller's edits, and that
    conditioning. Assigning geometry attributes is only a stimulus (whether the next build re-reads them is not
    claimed): the oracle follows the matrix the build RETURNS."""
    from mc import statespace as ss
    o = Out()
    fn = _fn()
    claimed = {"edit:diag": _h_probe("edit"), "assign:diag": _h_probe("assign")}
    o.stat("lib_calls", 8)
    for k, v in claimed.items():
        if not v:
            o.stat("H_%s_attribute_not_read_not_claimed" % k.split(":")[0], 1)
    ops = [op for op in H_OPS if claimed.get(op, True)]
    world = ss.World({"cm": _h_object(p["start"]),
                      "meta": {"geom": p["start"], "built": None, "current": None, "edits": 0}})
    want_cache = {}
    geom_ok = [True]

    def alphabet(w):
        meta = w.objects["meta"]
        out = []
        for op in ops:
            if (op.startswith("rec") or op.endswith(":diag")) and meta["current"] is None:
                continue
            if op.endswith(":diag") and meta["edits"] >= H_MAX_EDITS:
                continue
            if op.startswith("geom:") and not geom_ok[0]:
                continue
            out.append(op)
        return out

    def apply_op(w, op):
        cm, meta = w.objects["cm"], w.objects["meta"]
        if op.startswith("geom:"):
            g = H_GEOMS[op[5:]]
            try:
                cm.gs_positions = [list(x) for x in g["gspos"]]
                cm.layer_altitudes = list(g["alts"])
                meta["geom"] = op[5:]
            except Exception:           # attributes that cannot be assigned: not a documented way to change geometry
                geom_ok[0] = False
                o.stat("H_geometry_attributes_not_assignable_not_claimed", 1)
            return None
        if op == "build":
            meta["built"] = meta["geom"]
            meta["edits"] = 0
            M = numpy.array(cm.make_covariance_matrix())
            meta["current"] = M.copy()
            return M
        if op == "edit:diag":
            new = _h_noisy(meta["current"])
            cm.covariance_matrix[...] = new
            meta["current"] = new
            meta["edits"] += 1
            return None
        if op == "assign:diag":
            new = _h_noisy(meta["current"])
            cm.covariance_matrix = new.copy()
            meta["current"] = new
            meta["edits"] += 1
            return None
        if op == "rec:default":
            return numpy.array(cm.make_tomographic_reconstructor())
        return numpy.array(cm.make_tomographic_reconstructor(svd_conditioning=float(op[4:])))

    def on_transition(hist, op, pre, w, result, loop):
        if not op.startswith("rec:"):
            return
        meta = w.objects["meta"]
        rc = 0.0 if op == "rec:default" else float(op[4:])
        cur = meta["current"]
        key = (cur.tobytes(), rc)
        if key not in want_cache:
            want_cache[key] = (numpy.array(fn(cur.copy(), H_NON, rc)), _h_cut_clear(cur, rc))
            o.stat("lib_calls", 1)
        want, clear = want_cache[key]
        if not clear:
            o.stat("H_eigenvalue_on_cut_not_claimed", 1)
            return
        err = None if result.shape != want.shape else _maxabs(result - want) / max(1.0, _maxabs(want))
        o.check("reconstructor_follows_last_build", err is not None and err <= H_TOL,
                sub="h=%s" % ",".join(hist + (op,)), measure=err, tol=H_TOL,
                detail={"built_geometry": meta["built"], "caller_edits": meta["edits"]})
    st = ss.bfs(world, alphabet, apply_op, on_transition, p["depth"])
    o.stat("history_states", st["states"])
    o.stat("history_transitions", st["transitions"])
    o.stat("history_state_space_closed", int(bool(st["frontier_empty"])))
    o.stat("nontrivial", st["transitions"])
    return o


def _maxabs(a):
    a = numpy.asarray(a, dtype=float)
    if a.size == 0:
        return 0.0
    m = numpy.max(numpy.abs(a))
    return float(m) if m == m else float("inf")


def _border32(rc):
    """relative half-width of the 'borderline' band around the cut for a SINGLE precision decomposition: float32
    singular values carry an error of ~ n * eps32 * largest ~ 4e-6 * largest, i.e. 4e-6 / rc relative to the cut;
    25 x that"""
    return min(0.5, 1e-4 / rc) if rc > 0 else 0.0


def _split(w, rc, border=BORDER):
    """classify eigenvalues: clearly kept / clearly dropped (rest = borderline or noise); third value: rcond = 0 on a
    numerically rank-deficient (or zero) block, which is not claimed"""
    wmax = float(numpy.max(numpy.abs(w))) if w.size else 0.0
    noise = numpy.abs(w) <= ZERO_EIG * wmax
    if wmax == 0.0:
        # C_off,off == 0: nothing retained; every direction is an exactly-null direction
        if rc == 0.0:
            return numpy.zeros(w.shape, bool), numpy.zeros(w.shape, bool), bool(w.size)
        return numpy.zeros(w.shape, bool), numpy.ones(w.shape, bool), False
    cut = rc * wmax
    if rc == 0.0:
        keep = ~noise
        drop = numpy.zeros(w.shape, bool)           # noise directions: either treatment accepted
        return keep, drop, bool(noise.any())
    keep = w > cut * (1.0 + border)
    drop = w < cut * (1.0 - border)
    return keep, drop, False


def _J(Rb, Coo, Cof, Cff):
    """residual variance from its definition, for a batch of reconstructors (n, p, q)"""
    RC = Rb @ Cff
    return numpy.trace(Coo) - 2.0 * (Rb * Cof).sum(axis=(1, 2)) + (RC * Rb).sum(axis=(1, 2))


def _judge(o, fn, C, non, rc, sub, agg, eig, tol=TOL_A, border=BORDER, sfx="", dtype=None):
    """all function-level clauses for one (C, n_on, rcond); returns R. `dtype`: the matrix is handed over in that
    dtype (values exactly representable), clause names get the suffix `sfx`"""
    m = C.shape[0]
    p, q = 2 * non, m - 2 * non
    Coo, Cof, Cff = C[:p, :p], C[:p, p:], C[p:, p:]
    w, V = eig
    keep, drop, rc0_singular = _split(w, rc, border)
    not_claimed = rc0_singular and not RC0_SINGULAR_IS_CLAUSE
    arg = C.copy() if dtype is None else C.astype(dtype)
    try:
        R = numpy.asarray(fn(arg, non, rc))
    except Exception as e:
        o.stat("lib_calls", 1)
        if not_claimed:
            o.stat("rc0_singular_not_claimed", 1)
            o.stat("rc0_singular_exception_observed", 1)
            return None
        o.check("no_exception" + sfx, False, sub=sub, detail="%s: %s; %s" % (type(e).__name__, str(e)[:200], _detail(C)))
        return None
    o.stat("lib_calls", 1)
    if R.shape != (p, q):
        o.check("shape" + sfx, False, sub=sub, detail="shape %s, expected %s" % (R.shape, (p, q)))
        return None
    agg["shape"] += 1
    R = R.astype(float)
    wmax = float(numpy.max(numpy.abs(w))) if w.size else 0.0
    null = numpy.abs(w) <= ZERO_EIG * wmax
    Pk = V[:, keep] @ V[:, keep].T
    Pd = V[:, drop & ~null] @ V[:, drop & ~null].T
    Pn = V[:, drop & null] @ V[:, drop & null].T
    if not numpy.all(numpy.isfinite(R)):
        if not_claimed:
            o.stat("rc0_singular_not_claimed", 1)
            o.stat("rc0_singular_not_optimal_observed", 1)
            return R
        o.check("finite" + sfx, False, sub=sub, detail=_detail(C))
        return R
    scale = max(1.0, _maxabs(Cof) + q * _maxabs(R) * _maxabs(Cff))
    res = _maxabs((R @ Cff - Cof) @ Pk) / scale
    if not_claimed:
        o.stat("rc0_singular_not_claimed", 1)
        if not res <= tol:
            o.stat("rc0_singular_not_optimal_observed", 1)
        return R
    _rec(o, agg, "normal_equations_on_retained" + sfx, res, tol, sub, C)
    # added clause (conditioning filters modes): no weight on the clearly discarded directions that carry variance.
    # On exactly-null directions of C_off,off the weight does not change E|s_on - R s_off|^2: observation only.
    _rec(o, agg, "zero_weight_on_discarded" + sfx, _maxabs(R @ Pd) / scale, tol, sub, C)
    if _maxabs(R @ Pn) / scale > tol:
        o.stat("weight_on_null_directions_observed", 1)
    if rc == 0.0:
        # numerically full rank: plain equality R Cff = Cof
        _rec(o, agg, "equality_zero_conditioning" + sfx, _maxabs(R @ Cff - Cof) / scale, tol, sub, C)
    # optimality by basis exhaustion: J(R +- eps E_ab Pk) >= J(R), central difference = 0
    dirs = numpy.zeros((p * q, p, q))
    for a in range(p):
        for b in range(q):
            dirs[a * q + b, a, :] = Pk[b, :]
    J0 = float(_J(R[None], Coo, Cof, Cff)[0])
    Jp = _J(R[None] + EPS_DIR * dirs, Coo, Cof, Cff)
    Jm = _J(R[None] - EPS_DIR * dirs, Coo, Cof, Cff)
    jscale = max(1.0, abs(float(numpy.trace(Coo))) + p * q * _maxabs(R) ** 2 * _maxabs(Cff))
    o.stat("perturbed_reconstructors", 2 * p * q)
    _rec(o, agg, "no_better_neighbour" + sfx, max(0.0, float(numpy.max(J0 - numpy.minimum(Jp, Jm)))) / jscale,
         tol, sub, C)
    _rec(o, agg, "stationary" + sfx, _maxabs((Jp - Jm) / (2 * EPS_DIR)) / jscale, tol, sub, C)
    _rec(o, agg, "residual_variance_nonnegative" + sfx, max(0.0, -J0) / jscale, tol, sub, C)
    return R


def _detail(C):
    return "C=%s" % (numpy.asarray(C).astype(int).tolist(),) if _maxabs(C - numpy.round(C)) == 0 else None


def _rec(o, agg, clause, measure, tol, sub, C):
    """count passing evaluations in bulk, report failing ones individually"""
    m = float(measure)
    if m <= tol:
        a = agg.setdefault(clause, [0, 0.0, tol])
        a[0] += 1
        a[1] = max(a[1], m)
    else:
        o.check(clause, False, sub=sub, measure=m, tol=tol, detail=_detail(C))


def _flush(o, agg, sfx=""):
    n = agg.pop("shape", 0)
    if n:
        o.check("shape" + sfx, True, n=n)
    for clause, (cnt, worst, tol) in agg.items():
        o.check(clause, True, measure=worst, tol=tol, n=cnt)


# covariance matrices far larger than the exhaustive families (size classes where LAPACK drivers block):
# C = G G^T / m with a deterministic integer factor G (m x rank), full rank and rank deficient
ABIG = [(40, 40, 5), (40, 25, 5), (70, 70, 10), (70, 41, 10), (130, 130, 8), (130, 97, 8),
        (620, 620, 2), (700, 530, 3), (1030, 1030, 1)]       # off-axis blocks above 512 / 1024 measurements


def _abig_matrix(m, k):
    i, j = numpy.indices((m, k))
    G = ((i * 7 + j * 3 + (i * j) % 11) % 5 - 2.0) + 3.0 * (i == j)
    return G @ G.T / m


def _storage_and_reuse(o, fn, C, non, rc, sub=""):
    """the reconstructor is a function of the VALUES of the matrix: other memory layouts, an integer dtype when the
    entries are whole numbers, and a call history on one array object (conditioning scans reuse the caller's array)"""
    from mc import variants
    f = lambda a: fn(a, non, rc)
    k = variants.check_storage(o, "independent_of_storage", f, C, 1e-9, sub=sub, kinds=("int64", "int32"))
    k += variants.check_reuse(o, "matrix", f, C, 1e-12, sub=sub)
    o.stat("lib_calls", k)


def _evaluate_abig(p):
    o = Out()
    fn = _fn()
    C = _abig_matrix(p["m"], p["k"])
    non = p["non"]
    Cff = C[2 * non:, 2 * non:]
    w, V = numpy.linalg.eigh(Cff)
    agg = {"shape": 0}
    big = p["m"] >= 600
    for rc in ((0.0, 0.1) if big else RCONDS):
        _judge(o, fn, C, non, rc, "rc=%g" % rc, agg, (w, V))
    _flush(o, agg)
    if big:
        from mc import variants
        o.stat("lib_calls", variants.check_reuse(o, "matrix", lambda a: fn(a, non, 0.1), C, 1e-12))
    elif _cut_clear(w, 0.1, 1e-6):
        _storage_and_reuse(o, fn, C, non, 0.1)
    else:                   # an eigenvalue on the cut: its side may legitimately depend on the storage
        o.stat("storage_eigenvalue_on_cut_not_claimed", 1)
    wmax = float(numpy.max(numpy.abs(w)))
    o.stat("nontrivial_rank_deficient_offoff", int((numpy.abs(w) <= ZERO_EIG * wmax).any()))
    o.outcome((p["m"], p["k"], int((numpy.abs(w) > ZERO_EIG * wmax).sum())))
    return o


def _fn():
    from aotools.turbulence import slopecovariance as sc
    return sc.create_tomographic_covariance_reconstructor


def evaluate(p):
    if p["kind"] == "B":
        return _evaluate_b(p)
    if p["kind"] == "B2":
        return _evaluate_b2(p)
    if p["kind"] == "H":
        return _evaluate_h(p)
    if p["kind"] == "Abig":
        return _evaluate_abig(p)
    o = Out()
    fn = _fn()
    fam = family(p["family"])
    lo = p["chunk"] * CHUNK
    agg = {"shape": 0}
    agg32 = {"shape": 0}
    deficient = 0
    min_gap = 1.0
    for idx in range(lo, min(lo + CHUNK, len(fam))):
        C = fam[idx].astype(float)
        m = C.shape[0]
        for non in ([1] if m == 4 else [1, 2]):
            Cff = C[2 * non:, 2 * non:]
            w, V = numpy.linalg.eigh(Cff)
            wmax = float(numpy.max(numpy.abs(w)))
            if wmax > 0:
                nz = numpy.abs(w) > ZERO_EIG * wmax
                deficient += int(not nz.all())
                min_gap = min(min_gap, float(numpy.min(numpy.abs(w[nz]))) / wmax)
            else:
                deficient += 1
            for rc in RCONDS:
                _judge(o, fn, C, non, rc, "i=%d:non=%d:rc=%g" % (idx, non, rc), agg, (w, V))
            if (idx % 8 == 0 or tier_is_thorough()) and wmax > 0 and float(numpy.min(numpy.abs(numpy.abs(w) / wmax - 0.5))) > 1e-6:
                # (not when an eigenvalue sits exactly on the cut: there the classification may legitimately flip)
                _storage_and_reuse(o, fn, fam[idx].astype(float), non, 0.5, sub="i=%d:non=%d" % (idx, non))
            if idx % 8 == 0 or tier_is_thorough():
                _extras(o, fn, C, non, (w, V), "i=%d:non=%d" % (idx, non), agg, agg32)
    _flush(o, agg)
    _flush(o, agg32, "_float32")
    o.stat("nontrivial_rank_deficient_offoff", deficient)
    o.note("min_nonzero_eig_rel", min_gap)
    return o


def _cut_clear(w, rc, margin):
    """no eigenvalue within `margin` (relative to the largest) of the cut rc * largest"""
    wmax = float(numpy.max(numpy.abs(w))) if w.size else 0.0
    return bool(wmax > 0 and float(numpy.min(numpy.abs(numpy.abs(w) / wmax - rc))) > margin)


def _same(o, agg, clause, got, want, tol, sub, C):
    got, want = numpy.asarray(got), numpy.asarray(want)
    if got.shape != want.shape:
        o.check(clause, False, sub=sub, detail="shape %s vs %s" % (got.shape, want.shape))
        return
    _rec(o, agg, clause, _maxabs(got.astype(float) - want.astype(float)) / max(1.0, _maxabs(want)), tol, sub, C)


def _extras(o, fn, C, non, eig, sub, agg, agg32):
    """dimensions of 'all conditioning values, all partitions, any PSD matrix' beyond the (C, n_on, rcond) product:
    the documented default conditioning, keyword spelling, numpy scalar arguments, conditioning above 1, the same
    matrix at the scale of real slope covariances, and the matrix stored in single precision (what the builder
    returns)"""
    w, V = eig
    wmax = float(numpy.max(numpy.abs(w))) if w.size else 0.0
    singular = wmax == 0.0 or bool((numpy.abs(w) <= ZERO_EIG * wmax).any())
    calls = 0
    # conditioning >= 1 discards every direction clearly below the largest (2.0: all of them, R = 0 on what varies)
    _judge(o, fn, C, non, 2.0, sub + ":rc=2", agg, eig)
    if not singular:
        # documented default (0) of the third argument, and the documented parameter names as keywords
        base0 = numpy.array(fn(C.copy(), non, 0.0))
        _same(o, agg, "default_conditioning_is_zero", fn(C.copy(), non), base0, TOL_A, sub, C)
        _same(o, agg, "default_conditioning_is_zero", fn(covariance_matrix=C.copy(), n_onaxis_subaps=non), base0,
              TOL_A, sub + ":kw", C)
        calls += 3
    if _cut_clear(w, 0.5, 1e-6):
        base = numpy.array(fn(C.copy(), non, 0.5))
        _same(o, agg, "argument_spelling", fn(covariance_matrix=C.copy(), n_onaxis_subaps=non, svd_conditioning=0.5),
              base, TOL_A, sub + ":kw", C)
        _same(o, agg, "argument_spelling", fn(C.copy(), numpy.int64(non), numpy.float64(0.5)), base, TOL_A,
              sub + ":numpy_scalars", C)
        calls += 3
    # R depends on C_on,off C_off,off^+ with a RELATIVE cut: the same matrix in other units gives the same R
    # (factors are powers of two: 2^-46 ~ 1.4e-14 is the scale of slope covariances in rad^2, 2^33 ~ 8.6e9)
    for rc in (1e-12, 0.1):
        if not _cut_clear(w, rc, 1e-6):
            continue
        base = numpy.array(fn(C.copy(), non, rc))
        calls += 1
        for e in (-46, 33):
            _same(o, agg, "scale_invariance", fn(numpy.ldexp(C, e), non, rc), base, TOL_A,
                  "%s:rc=%g:x2^%d" % (sub, rc, e), C)
            calls += 1
    # single precision storage (entries are small integers: exact); conditioning values at which the truncated
    # problem is well posed in float32. Borderline band and tolerance are those of a float32 decomposition
    for rc in (0.1, 0.5, 0.9):
        _judge(o, fn, C, non, rc, "%s:rc=%g" % (sub, rc), agg32, eig, tol=TOL_F32, border=_border32(rc),
               sfx="_float32", dtype=numpy.float32)
    o.stat("lib_calls", calls)


# ----------------------------------------------------------------------------- end to end

def _b_tol(rc):
    """float32 pseudo-inverse: rounding is amplified by the condition number of what is retained (<= 1 / rcond when
    rcond > 0, <= B_COND_MAX when rcond = 0): B_TOL, or 10 eps32 / rcond when that is larger (rcond = 1e-3: 1.2e-3)"""
    return B_TOL if rc == 0.0 else max(B_TOL, 10 * 1.2e-7 / rc)


def _evaluate_b(p):
    m, k0, k2, m2, d2, pos = p["b"]
    spec = [(m, k0, "d1"), (m, k0, "d1"), (m2, k2, d2)]
    if pos == 2:
        spec = [spec[0], spec[2], spec[1]]
    return _evaluate_geoms(spec, ("555", "557" if pos == 1 else "575"), B_LSETS, pos)


B2_LAYOUTS = ["XX", "mid4", "two", "dupd2", "mp"]


def _b2_cases(tier):
    """more sensor layouts: two IDENTICAL off-axis sensors and no copy of the on-axis one (rank-deficient off-axis
    block, incl. ground-layer-only profiles), four sensors with the duplicate in the middle, two sensors (R = I),
    the duplicate pair with the half-size sub-apertures, and the matrix built by the multi-process path"""
    from checks import C01
    masks = B_MASKS_Q if tier == "quick" else B_MASKS_T
    names = C01.KIND_NAMES
    for m in masks:
        for i, k0 in enumerate(names):
            others = [k for k in names if k != k0]
            picks = [others[i % len(others)]] if tier == "quick" else others
            for j, k2 in enumerate(picks):
                k3 = [k for k in others if k != k2][(i + j) % (len(others) - 1)]
                for lay in B2_LAYOUTS:
                    if lay in ("two", "mp") and j > 0:
                        continue
                    yield (lay, m, k0, k2, k3)


def _evaluate_b2(p):
    lay, m, k0, k2, k3 = p["b2"]
    g = "2:1111"
    if lay == "XX":
        return _evaluate_geoms([(m, k0, "d1"), (g, k2, "d2"), (g, k2, "d2")], ("555", "577"), B_LSETS + [(0,)], None,
                               twins=(1, 2))
    if lay == "mid4":
        return _evaluate_geoms([(m, k0, "d1"), (g, k2, "d2"), (m, k0, "d1"), ("2:1001", k3, "d1")], ("5755",),
                               B_LSETS, 2)
    if lay == "two":
        return _evaluate_geoms([(m, k0, "d1"), (m, k0, "d1")], ("55", "77"), B_LSETS + [(0,)], 1)
    if lay == "dupd2":
        return _evaluate_geoms([(m, k0, "d2"), (m, k0, "d2"), (g, k2, "d1")], ("557",), B_LSETS, 1)
    if lay == "mp":
        return _evaluate_geoms([(m, k0, "d1"), (m, k0, "d1"), (g, k2, "d2")], ("557",), [(0, 1), (1, 2)], 1, threads=2)
    raise ValueError(lay)


def _evaluate_geoms(spec, wls, lsets, dup, threads=1, twins=None):
    """one sensor layout through the real builder, every layer set x wavelength assignment x conditioning.
    dup: index of the sensor that duplicates sensor 0 (or None); twins: two identical off-axis sensors"""
    from checks import C01
    from mc import sched
    from aotools.turbulence import slopecovariance as sc
    o = Out()
    nsub = [int(C01.mask_array(s[0]).sum()) for s in spec]
    n0 = nsub[0]
    worst = {"normal_equations_float32": 0.0, "duplicate_sensor_identity": 0.0, "method_equals_function": 0.0,
             "zero_weight_on_discarded_float32": 0.0, "method_default_conditioning_is_zero": 0.0}
    worst_cond = worst_twin = 0.0
    bad = {}
    cnt = dict.fromkeys(["shape"] + list(worst), 0)

    ratio = {}

    def judge(clause, measure, tol, t):
        cnt[clause] += 1
        worst[clause] = max(worst[clause], measure if measure == measure else float("inf"))
        k = "%s:%s" % (clause, t.rsplit(":", 1)[1])
        ratio[k] = max(ratio.get(k, 0.0), min(measure / tol, 1e300) if measure == measure else 1e300)
        if not measure <= tol:
            bad.setdefault(clause, []).append(t)

    for lset in lsets:
        layers = [C01.LAYERS[i] for i in lset]
        for wl in wls:
            sensors = C01._sensor_dicts(spec, wl)
            tag = "L%s:wl%s" % ("".join(map(str, lset)), wl)
            cm = sc.CovarianceMatrix(
                len(spec), [s["mask"].copy() for s in sensors], C01.D_TEL, [s["d"] for s in sensors],
                [s["h_gs"] for s in sensors], [list(s["theta"]) for s in sensors], [s["lam"] for s in sensors],
                len(layers), [l[0] for l in layers], [l[1] for l in layers], [l[2] for l in layers], threads)
            with numpy.errstate(all="ignore"):
                if threads == 1:
                    M = numpy.asarray(cm.make_covariance_matrix())
                else:
                    try:
                        with sched.patched_pools(None) as pp:
                            M = numpy.asarray(cm.make_covariance_matrix())
                        o.stat("pools_created", pp.pools_created)
                    except Exception:
                        # the multi-process builder (and its instrumentation) is the subject of C01
                        o.stat("mp_builder_exception_not_claimed", 1)
                        continue
            o.stat("lib_calls", 1)
            C = M.astype(float)
            if C.ndim != 2 or C.shape != (2 * sum(nsub),) * 2 or not numpy.all(numpy.isfinite(C)):
                # premise (a symmetric PSD matrix of all slopes) not met: the builder's problem, judged by C01
                o.stat("builder_output_not_finite_not_claimed", len(B_RCONDS))
                continue
            Cs = 0.5 * (C + C.T)
            Cff, Cof = Cs[2 * n0:, 2 * n0:], Cs[:2 * n0, 2 * n0:]
            w, V = numpy.linalg.eigh(Cff)
            wmax = float(numpy.max(numpy.abs(w)))
            cond = float(wmax / max(numpy.min(numpy.abs(w)), 1e-300))
            R_of = {}
            for rc in B_RCONDS + ["default"]:
                t = "%s:rc=%s" % (tag, rc if rc == "default" else "%g" % rc)
                if rc == "default":
                    # the documented default of the method is conditioning 0
                    try:
                        Rd = numpy.asarray(cm.make_tomographic_reconstructor())
                    except Exception:
                        if cond > B_COND_MAX:       # conditioning 0 on an ill-conditioned block: not claimed
                            o.stat("illconditioned_exception_observed", 1)
                            continue
                        raise
                    o.stat("lib_calls", 1)
                    if cond <= B_COND_MAX and 0.0 in R_of:
                        R0 = R_of[0.0]
                        judge("method_default_conditioning_is_zero", float("inf") if Rd.shape != R0.shape else
                              _maxabs(Rd.astype(float) - R0) / max(1.0, _maxabs(R0)), B_TOL, t)
                    continue
                try:
                    R = numpy.array(cm.make_tomographic_reconstructor(svd_conditioning=rc))
                    Rf = numpy.asarray(sc.create_tomographic_covariance_reconstructor(M.copy(), n0, rc))
                except Exception:
                    if rc == 0.0 and cond > B_COND_MAX:
                        o.stat("illconditioned_not_claimed", 1)
                        o.stat("illconditioned_exception_observed", 1)
                        continue
                    raise
                o.stat("lib_calls", 2)
                cnt["shape"] += 1
                if R.shape != (2 * n0, C.shape[0] - 2 * n0):
                    bad.setdefault("shape", []).append(t)
                    continue
                R = R.astype(float)
                R_of[rc] = R
                if rc == 0.0 and cond > B_COND_MAX:
                    o.stat("illconditioned_not_claimed", 1)
                    continue
                tol = _b_tol(rc)
                keep, drop, _ = _split(w, rc, _border32(rc))
                if rc > 0.0 and cond > B_COND_MAX:
                    o.stat("illconditioned_judged_on_retained", 1)
                if (keep | drop).all() and Rf.shape == R.shape:
                    # (with an eigenvalue in the borderline band two correct routes may treat it differently)
                    judge("method_equals_function", _maxabs(R - Rf.astype(float)) / max(1.0, _maxabs(Rf)), tol, t)
                elif Rf.shape != R.shape:
                    judge("method_equals_function", float("inf"), tol, t)
                else:
                    o.stat("borderline_eigenvalue_method_vs_function_not_claimed", 1)
                worst_cond = max(worst_cond, cond if rc == 0.0 else min(cond, 1.0 / rc))
                Pk = V[:, keep] @ V[:, keep].T
                judge("normal_equations_float32", _maxabs((R @ Cff - Cof) @ Pk) / max(_maxabs(Cof), 1e-300), tol, t)
                # added clause, as at function level: no weight on clearly discarded directions that carry variance
                # resolvable in single precision (below 1e-5 of the largest they are null directions to float32)
                dd = drop & (w > 1e-5 * wmax)
                if dd.any():
                    judge("zero_weight_on_discarded_float32", _maxabs(R @ V[:, dd]) / max(1.0, _maxabs(R)), tol, t)
                if twins is not None:
                    a = 2 * sum(nsub[1:twins[0]])
                    b = 2 * sum(nsub[1:twins[1]])
                    wd = 2 * nsub[twins[0]]
                    worst_twin = max(worst_twin, _maxabs(R[:, a:a + wd] - R[:, b:b + wd]))
                if dup is not None and keep.all() and cond <= B_COND_MAX:
                    want = numpy.zeros(R.shape)
                    a = 2 * sum(nsub[1:dup])
                    want[:, a:a + 2 * n0] = numpy.eye(2 * n0)
                    o.stat("duplicate_clause_evaluated", 1)
                    judge("duplicate_sensor_identity", _maxabs(R - want), B_TOL, t)
    for clause in ["shape"] + list(worst):
        b = bad.get(clause)
        if not cnt[clause] and not b:
            continue
        tol = None if clause == "shape" else (B_TOL if clause in ("duplicate_sensor_identity", "method_default_conditioning_is_zero")
                                              else _b_tol(min(B_RCONDS[1:])))
        o.check(clause, not b, measure=worst.get(clause), tol=tol, n=max(cnt[clause], 1),
                detail=None if not b else "fails for %s" % ",".join(b))
    o.note("B_worst_cond_claimed", worst_cond)
    o.note("B_measure_over_tol", ratio)
    if twins is not None:
        # equal weights on two identical sensors = no weight on a null direction: an observation, not a clause
        o.note("twin_sensor_weight_difference", worst_twin)
    o.outcome((tuple(nsub), round(worst_cond, 1)))
    return o


def finalize(tier, results):
    """vacuity guards: the duplicate clause and the rank-deficient inputs must really occur"""
    o = Out()
    dup = sum(r.stats.get("duplicate_clause_evaluated", 0) for r in results.values())
    deficient = sum(r.stats.get("nontrivial_rank_deficient_offoff", 0) for r in results.values())
    if any(k.startswith("B:") for k in results):
        o.check("coverage_duplicate_clause_exercised", dup > 0, measure=dup)
        margin = {}
        for r in results.values():
            for k, v in (r.notes.get("B_measure_over_tol") or {}).items():
                margin[k] = max(margin.get(k, 0.0), v)
        # worst measure / tolerance per clause and conditioning over all geometries (margin of the unchanged library)
        o.note("B_measure_over_tol", {k: float("%.3g" % v) for k, v in sorted(margin.items())})
    if any(k.startswith("A:") for k in results):
        o.check("coverage_rank_deficient_inputs", deficient > 0, measure=deficient)
        gaps = [r.notes["min_nonzero_eig_rel"] for r in results.values() if "min_nonzero_eig_rel" in r.notes]
        o.note("A_min_nonzero_eig_rel_overall", min(gaps))
    return o
