"""C02 Tomographic reconstructor is the minimum-variance linear estimator.

A (function level, E1 + E2): every distinct PSD matrix C = G G^T with G over a small integer
alphabet (all of {-1,0,1}^(m x k) resp. {0,1}^(m x k), de-duplicated on C itself, which is
all the function sees) x every partition (number of on-axis sub-apertures) x every
conditioning value is pushed through the REAL create_tomographic_covariance_reconstructor.
The retained subspace comes from an independent eigen-decomposition of C_off,off; the
normal equations are checked on it, zero weight on the discarded directions, and optimality
is decided by basis exhaustion: the residual variance J(R) = E|s_on - R s_off|^2 is a convex
quadratic in R, so R is optimal on the retained subspace iff J does not decrease along +-
every elementary direction E_ab P -- all of them are evaluated from the definition of J.

B (end to end, E1): geometries through the real CovarianceMatrix builder with the on-axis
sensor duplicated as the first or the second off-axis sensor and another sensor elsewhere; R
must be [I 0] resp. [0 I] and satisfy the normal equations on the float32 matrix.
"""
import itertools

import numpy

from mc import Out, Case
from mc.refmodels import slopes

PROPERTY = "C02"
LEVEL = "exploration"
TECHNIQUE = ("bounded exhaustive enumeration of integer PSD matrices x partitions x conditioning values on "
             "the real reconstructor, optimality decided by exhausting all elementary perturbation "
             "directions of the convex residual variance; end-to-end duplicate-sensor geometries through "
             "the real covariance builder")
RULE = ("A: cases = chunks of 256 consecutive matrices of the sorted list of distinct C = G G^T, G over the "
        "family alphabet; inside a case every (n_on, rcond) is evaluated. B: case = (mask, on-axis kind, "
        "third-sensor kind, third mask, third size, position of the duplicate); inside every layer set with a layer at altitude, two "
        "wavelength assignments and every rcond. Non-trivial: chunk contains a rank-deficient C_off,off "
        "(A) / always (B)")
ASSUMPTIONS = [
    "A: matrices outside the integer families (other sizes, entries) are not covered; float64 input",
    "retained subspace = eigen-directions of C_off,off with eigenvalue > rcond * largest; an eigenvalue "
    "within 1e-9 relative of the cut-off is 'borderline': the clauses then only use the clearly retained "
    "and the clearly discarded directions (either treatment of a borderline direction is accepted)",
    "rcond = 0 is claimed only for numerically full-rank C_off,off (the statement restricts zero "
    "conditioning to a well-conditioned C_off,off); rank-deficient C_off,off with rcond = 0 is counted "
    "(rc0_singular_not_claimed) and its behaviour recorded as an observation, not as a clause",
    "B: duplicate-sensor clause claimed for cond(C_off,off) <= 300 (float32 matrix, statement: "
    "well-conditioned); worse-conditioned geometries of the lattice are counted, not judged",
    "tolerances: A 1e-9 relative to the operand scale (measured <= 1e-13), B 1e-4 (float32 pinv)",
]
ENGINES = ["E1-product-enumeration", "E2-basis-exhaustion"]
LEVEL_TEXT = ("All distinct C = G G^T for G in {-1,0,1}^(4x2) (quick) plus {-1,0,1}^(4x3), {-1,0,1}^(6x2) "
              "(thorough) and {0,1}^(6x3) (both) are enumerated completely (861 / 12229 / 66795 / 45760 "
              "matrices, incl. rank-deficient, zero-block, duplicated-row ones) x partitions x 5 conditioning "
              "values; for each, all 2 n_on x n_off elementary perturbation directions on the retained subspace "
              "are exhausted in both signs, which decides optimality against every competing linear map by "
              "convexity. End to end: every lattice geometry with a duplicated on-axis sensor.")
LEVEL_NOTE = ("Trusted: numpy.linalg.eigh for the oracle projector, the algebra J(R) = tr(Coo - 2 R Cfo + R Cff R^T). "
              "Not covered: matrices outside the families, rcond = 0 on singular C_off,off (outside the statement).")

RCONDS = [0.0, 1e-12, 0.1, 0.5, 0.9]
TOL_A = 1e-9
BORDER = 1e-9
ZERO_EIG = 1e-10
CHUNK = 256
EPS_DIR = 0.5
RC0_SINGULAR_IS_CLAUSE = False     # see ASSUMPTIONS; flip to judge rcond=0 on singular C_off,off too

FAMILIES = {                        # name -> (m, k, alphabet)
    "4x2": (4, 2, (-1, 0, 1)),
    "4x3": (4, 3, (-1, 0, 1)),
    "6x2": (6, 2, (-1, 0, 1)),
    "6x3b": (6, 3, (0, 1)),
}
_FAM = {}


def _families(tier):
    return ["4x2", "6x3b"] if tier == "quick" else ["4x2", "4x3", "6x2", "6x3b"]


def family(name):
    """sorted array of all distinct G G^T (ints), shape (N, m, m)"""
    if name not in _FAM:
        m, k, vals = FAMILIES[name]
        n = m * k
        digits = numpy.indices((len(vals),) * n, dtype=numpy.int8).reshape(n, -1).T
        G = numpy.asarray(vals, dtype=numpy.int8)[digits].reshape(-1, m, k)
        C = numpy.einsum("nik,njk->nij", G, G, dtype=numpy.int8)
        U = numpy.unique(C.reshape(len(C), -1), axis=0)
        _FAM[name] = U.reshape(-1, m, m).astype(numpy.int64)
    return _FAM[name]


_TIER = ["quick"]       # storage / reuse clauses: every 8th matrix in the quick tier, every matrix in the thorough tier


def tier_is_thorough():
    return _TIER[0] == "thorough"


def setup(tier):
    _TIER[0] = tier
    for f in _families(tier):
        family(f)


# --- B alphabet
B_MASKS_Q = ["2:1111", "2:1001", "3:111101111"]
B_MASKS_T = ["2:1111", "2:1001", "2:0110", "2:1000", "3:111101111", "3:100010001", "3:111111111"]
B_LSETS = [(1,), (2,), (0, 1), (0, 2), (1, 2)]
B_RCONDS = [0.0, 1e-3, 0.1]
B_TOL = 1e-4
B_COND_MAX = 300.0


def BOUNDS(tier):
    from checks import C01
    return {"A_families": {f: {"m": FAMILIES[f][0], "k": FAMILIES[f][1], "alphabet": list(FAMILIES[f][2]),
                               "distinct_C": int(len(family(f)))} for f in _families(tier)},
            "A_n_on": "1 for m=4; 1,2 for m=6", "A_rcond": RCONDS, "A_chunk": CHUNK, "A_big(m, rank, n_on)": ABIG,
            "B_masks": B_MASKS_Q if tier == "quick" else B_MASKS_T, "B_kinds": C01.KIND_NAMES,
            "B_layer_sets": ["".join(map(str, s)) for s in B_LSETS], "B_rcond": B_RCONDS,
            "B_wavelengths": ["all 500 nm", "third sensor 700 nm"], "B_duplicate_position": [1, 2], "B_third_size": ["d1", "d2"], "B_cond_max": B_COND_MAX}


def _b_cases(tier):
    from checks import C01
    masks = B_MASKS_Q if tier == "quick" else B_MASKS_T
    for m in masks:
        for k0 in C01.KIND_NAMES:
            for k2 in C01.KIND_NAMES:
                if k2 == k0:
                    continue
                for m2 in sorted(set([m, "2:1111"])):
                    for d2 in ("d1", "d2"):
                        for pos in (1, 2):          # position of the duplicate among the off-axis sensors
                            yield (m, k0, k2, m2, d2, pos)


def cases(tier):
    for g in sorted(H_GEOMS):
        yield Case("H:start=%s" % g, {"kind": "H", "start": g, "depth": 6 if tier == "quick" else 8})
    for c in _cases_ab(tier):
        yield c


def _cases_ab(tier):
    for f in _families(tier):
        N = len(family(f))
        for c in range((N + CHUNK - 1) // CHUNK):
            yield Case("A:%s:chunk=%d" % (f, c), {"kind": "A", "family": f, "chunk": c})
    for m, k, non in ABIG:
        yield Case("Abig:m=%d:rank=%d:non=%d" % (m, k, non), {"kind": "Abig", "m": m, "k": k, "non": non})
    for b in _b_cases(tier):
        yield Case("B:%s/%s+%s/%s/%s:dup@%d" % (b[0], b[1], b[3], b[2], b[4], b[5]), {"kind": "B", "b": list(b)})


# ----------------------------------------------------------------------------- call histories on one object
# (added after a seeded change showed that the wrapper can carry state between calls: a reconstructor memoised
#  per conditioning value survived a rebuild of the covariance matrix)

H_GEOMS = {
    "g0": dict(gspos=[[0., 0.], [0., 0.], [20., -10.]], alts=[0., 8000.]),
    "g1": dict(gspos=[[0., 0.], [0., 0.], [-15., 25.]], alts=[0., 12000.]),
}
H_OPS = ["geom:g0", "geom:g1", "build", "rec:0", "rec:0.1", "rec:0.5"]


def _h_object(geom):
    from aotools.turbulence import slopecovariance as sc
    g = H_GEOMS[geom]
    m = [numpy.array([[1, 1], [1, 1]]) for _ in range(3)]
    return sc.CovarianceMatrix(3, m, 1.0, [0.5, 0.5, 0.5], [0, 0, 90000.], [list(x) for x in g["gspos"]],
                               [5e-7, 5e-7, 6e-7], 2, list(g["alts"]), [0.2, 0.3], [25., 10.], threads=1)


def _evaluate_h(p):
    """BFS over all histories of {change geometry, rebuild, reconstruct(c)} on ONE CovarianceMatrix object:
    every reconstructor returned must be bit-identical to the one a fresh object gives for the geometry of
    the last build and that conditioning."""
    from mc import statespace as ss
    o = Out()
    ref = {}
    for g in H_GEOMS:
        for c in (0, 0.1, 0.5):
            obj = _h_object(g)
            obj.make_covariance_matrix()
            ref[(g, c)] = numpy.array(obj.make_tomographic_reconstructor(svd_conditioning=c))
    o.stat("lib_calls", 2 * len(ref))
    world = ss.World({"cm": _h_object(p["start"]), "meta": {"geom": p["start"], "built": None}})

    def alphabet(w):
        return [op for op in H_OPS if not (op.startswith("rec") and w.objects["meta"]["built"] is None)]

    def apply_op(w, op):
        cm, meta = w.objects["cm"], w.objects["meta"]
        if op.startswith("geom:"):
            g = H_GEOMS[op[5:]]
            cm.gs_positions = [list(x) for x in g["gspos"]]
            cm.layer_altitudes = list(g["alts"])
            meta["geom"] = op[5:]
            return None
        if op == "build":
            meta["built"] = meta["geom"]
            return numpy.array(cm.make_covariance_matrix())
        return numpy.array(cm.make_tomographic_reconstructor(svd_conditioning=float(op[4:])))

    def on_transition(hist, op, pre, w, result, loop):
        if op.startswith("rec:"):
            built = w.objects["meta"]["built"]
            want = ref[(built, float(op[4:]))]
            same = result.shape == want.shape and result.tobytes() == want.tobytes()
            o.check("reconstructor_follows_last_build", same, sub="h=%s" % ",".join(hist + (op,)),
                    measure=None if result.shape != want.shape else float(numpy.max(numpy.abs(result - want))),
                    detail={"built_geometry": built})
    st = ss.bfs(world, alphabet, apply_op, on_transition, p["depth"])
    o.stat("history_states", st["states"])
    o.stat("history_transitions", st["transitions"])
    o.stat("nontrivial", st["transitions"])
    return o


def _maxabs(a):
    a = numpy.asarray(a, dtype=float)
    if a.size == 0:
        return 0.0
    m = numpy.max(numpy.abs(a))
    return float(m) if m == m else float("inf")


def _split(w, rc):
    """classify eigenvalues: clearly kept / clearly dropped (rest = borderline or noise)"""
    wmax = float(numpy.max(numpy.abs(w))) if w.size else 0.0
    noise = numpy.abs(w) <= ZERO_EIG * wmax
    if wmax == 0.0:
        return numpy.zeros(w.shape, bool), numpy.ones(w.shape, bool), False
    cut = rc * wmax
    if rc == 0.0:
        keep = ~noise
        drop = numpy.zeros(w.shape, bool)           # noise directions: either treatment accepted
        return keep, drop, bool(noise.any())
    keep = w > cut * (1.0 + BORDER)
    drop = w < cut * (1.0 - BORDER)
    return keep, drop, False


def _J(Rb, Coo, Cof, Cff):
    """residual variance from its definition, for a batch of reconstructors (n, p, q)"""
    RC = Rb @ Cff
    return numpy.trace(Coo) - 2.0 * (Rb * Cof).sum(axis=(1, 2)) + (RC * Rb).sum(axis=(1, 2))


def _judge(o, fn, C, non, rc, sub, agg, eig):
    """all function-level clauses for one (C, n_on, rcond); returns R"""
    m = C.shape[0]
    p, q = 2 * non, m - 2 * non
    R = numpy.asarray(fn(C.copy(), non, rc))
    o.stat("lib_calls", 1)
    if R.shape != (p, q):
        o.check("shape", False, sub=sub, detail="shape %s, expected %s" % (R.shape, (p, q)))
        return None
    agg["shape"] += 1
    R = R.astype(float)
    Coo, Cof, Cff = C[:p, :p], C[:p, p:], C[p:, p:]
    w, V = eig
    keep, drop, rc0_singular = _split(w, rc)
    Pk = V[:, keep] @ V[:, keep].T
    Pd = V[:, drop] @ V[:, drop].T
    if not numpy.all(numpy.isfinite(R)):
        if rc0_singular and not RC0_SINGULAR_IS_CLAUSE:
            o.stat("rc0_singular_not_claimed", 1)
            o.stat("rc0_singular_not_optimal_observed", 1)
            return R
        o.check("finite", False, sub=sub, detail=_detail(C))
        return R
    scale = max(1.0, _maxabs(Cof) + q * _maxabs(R) * _maxabs(Cff))
    res = _maxabs((R @ Cff - Cof) @ Pk) / scale
    if rc0_singular and not RC0_SINGULAR_IS_CLAUSE:
        o.stat("rc0_singular_not_claimed", 1)
        if not res <= TOL_A:
            o.stat("rc0_singular_not_optimal_observed", 1)
        return R
    _rec(o, agg, "normal_equations_on_retained", res, TOL_A, sub, C)
    _rec(o, agg, "zero_weight_on_discarded", _maxabs(R @ Pd) / scale, TOL_A, sub, C)
    if rc == 0.0:
        # numerically full rank: plain equality R Cff = Cof
        _rec(o, agg, "equality_zero_conditioning", _maxabs(R @ Cff - Cof) / scale, TOL_A, sub, C)
    # optimality by basis exhaustion: J(R +- eps E_ab Pk) >= J(R), central difference = 0
    dirs = numpy.zeros((p * q, p, q))
    for a in range(p):
        for b in range(q):
            dirs[a * q + b, a, :] = Pk[b, :]
    J0 = float(_J(R[None], Coo, Cof, Cff)[0])
    Jp = _J(R[None] + EPS_DIR * dirs, Coo, Cof, Cff)
    Jm = _J(R[None] - EPS_DIR * dirs, Coo, Cof, Cff)
    jscale = max(1.0, abs(float(numpy.trace(Coo))) + p * q * _maxabs(R) ** 2 * _maxabs(Cff))
    o.stat("perturbed_reconstructors", 2 * p * q)
    _rec(o, agg, "no_better_neighbour", max(0.0, float(numpy.max(J0 - numpy.minimum(Jp, Jm)))) / jscale,
         TOL_A, sub, C)
    _rec(o, agg, "stationary", _maxabs((Jp - Jm) / (2 * EPS_DIR)) / jscale, TOL_A, sub, C)
    _rec(o, agg, "residual_variance_nonnegative", max(0.0, -J0) / jscale, TOL_A, sub, C)
    return R


def _detail(C):
    return "C=%s" % (numpy.asarray(C).astype(int).tolist(),) if _maxabs(C - numpy.round(C)) == 0 else None


def _rec(o, agg, clause, measure, tol, sub, C):
    """count passing evaluations in bulk, report failing ones individually"""
    m = float(measure)
    if m <= tol:
        a = agg.setdefault(clause, [0, 0.0])
        a[0] += 1
        a[1] = max(a[1], m)
    else:
        o.check(clause, False, sub=sub, measure=m, tol=tol, detail=_detail(C))


def _flush(o, agg):
    n = agg.pop("shape", 0)
    if n:
        o.check("shape", True, n=n)
    for clause, (cnt, worst) in agg.items():
        o.check(clause, True, measure=worst, tol=TOL_A, n=cnt)


# covariance matrices far larger than the exhaustive families (size classes where LAPACK drivers block):
# C = G G^T / m with a deterministic integer factor G (m x rank), full rank and rank deficient
ABIG = [(40, 40, 5), (40, 25, 5), (70, 70, 10), (70, 41, 10), (130, 130, 8), (130, 97, 8),
        (620, 620, 2), (700, 530, 3), (1030, 1030, 1)]       # off-axis blocks above 512 / 1024 measurements


def _abig_matrix(m, k):
    i, j = numpy.indices((m, k))
    G = ((i * 7 + j * 3 + (i * j) % 11) % 5 - 2.0) + 3.0 * (i == j)
    return G @ G.T / m


def _storage_and_reuse(o, fn, C, non, rc, sub=""):
    """the reconstructor is a function of the VALUES of the matrix: other memory layouts, an integer dtype when the
    entries are whole numbers, and a call history on one array object (conditioning scans reuse the caller's array)"""
    from mc import variants
    f = lambda a: fn(a, non, rc)
    k = variants.check_storage(o, "independent_of_storage", f, C, 1e-9, sub=sub, kinds=("int64", "int32"))
    k += variants.check_reuse(o, "matrix", f, C, 1e-12, sub=sub)
    o.stat("lib_calls", k)


def _evaluate_abig(p):
    o = Out()
    fn = _fn()
    C = _abig_matrix(p["m"], p["k"])
    non = p["non"]
    Cff = C[2 * non:, 2 * non:]
    w, V = numpy.linalg.eigh(Cff)
    agg = {"shape": 0}
    big = p["m"] >= 600
    for rc in ((0.0, 0.1) if big else RCONDS):
        _judge(o, fn, C, non, rc, "rc=%g" % rc, agg, (w, V))
    _flush(o, agg)
    if big:
        from mc import variants
        o.stat("lib_calls", variants.check_reuse(o, "matrix", lambda a: fn(a, non, 0.1), C, 1e-12))
    else:
        _storage_and_reuse(o, fn, C, non, 0.1)
    wmax = float(numpy.max(numpy.abs(w)))
    o.stat("nontrivial_rank_deficient_offoff", int((numpy.abs(w) <= ZERO_EIG * wmax).any()))
    o.outcome((p["m"], p["k"], int((numpy.abs(w) > ZERO_EIG * wmax).sum())))
    return o


def _fn():
    from aotools.turbulence import slopecovariance as sc
    return sc.create_tomographic_covariance_reconstructor


def evaluate(p):
    if p["kind"] == "B":
        return _evaluate_b(p)
    if p["kind"] == "H":
        return _evaluate_h(p)
    if p["kind"] == "Abig":
        return _evaluate_abig(p)
    o = Out()
    fn = _fn()
    fam = family(p["family"])
    lo = p["chunk"] * CHUNK
    agg = {"shape": 0}
    deficient = 0
    min_gap = 1.0
    for idx in range(lo, min(lo + CHUNK, len(fam))):
        C = fam[idx].astype(float)
        m = C.shape[0]
        for non in ([1] if m == 4 else [1, 2]):
            Cff = C[2 * non:, 2 * non:]
            w, V = numpy.linalg.eigh(Cff)
            wmax = float(numpy.max(numpy.abs(w)))
            if wmax > 0:
                nz = numpy.abs(w) > ZERO_EIG * wmax
                deficient += int(not nz.all())
                min_gap = min(min_gap, float(numpy.min(numpy.abs(w[nz]))) / wmax)
            else:
                deficient += 1
            for rc in RCONDS:
                _judge(o, fn, C, non, rc, "i=%d:non=%d:rc=%g" % (idx, non, rc), agg, (w, V))
            if (idx % 8 == 0 or tier_is_thorough()) and wmax > 0 and float(numpy.min(numpy.abs(numpy.abs(w) / wmax - 0.5))) > 1e-6:
                # (not when an eigenvalue sits exactly on the cut: there the classification may legitimately flip)
                _storage_and_reuse(o, fn, fam[idx].astype(float), non, 0.5, sub="i=%d:non=%d" % (idx, non))
    _flush(o, agg)
    o.stat("nontrivial_rank_deficient_offoff", deficient)
    o.note("min_nonzero_eig_rel", min_gap)
    return o


# ----------------------------------------------------------------------------- end to end

def _evaluate_b(p):
    from checks import C01
    from aotools.turbulence import slopecovariance as sc
    o = Out()
    m, k0, k2, m2, d2, pos = p["b"]
    spec = [(m, k0, "d1"), (m, k0, "d1"), (m2, k2, d2)]
    if pos == 2:
        spec = [spec[0], spec[2], spec[1]]
    n0 = int(C01.mask_array(m).sum())
    worst_dup = worst_ne = worst_cond = 0.0
    bad = {}
    cnt = {"shape": 0, "method_equals_function": 0, "normal_equations_float32": 0,
           "duplicate_sensor_identity": 0}
    for lset in B_LSETS:
        layers = [C01.LAYERS[i] for i in lset]
        for wl in ("555", "557" if pos == 1 else "575"):
            sensors = C01._sensor_dicts(spec, wl)
            cm = sc.CovarianceMatrix(
                3, [s["mask"].copy() for s in sensors], C01.D_TEL, [s["d"] for s in sensors],
                [s["h_gs"] for s in sensors], [list(s["theta"]) for s in sensors], [s["lam"] for s in sensors],
                len(layers), [l[0] for l in layers], [l[1] for l in layers], [l[2] for l in layers], 1)
            with numpy.errstate(all="ignore"):
                M = numpy.asarray(cm.make_covariance_matrix())
            o.stat("lib_calls", 1)
            C = M.astype(float)
            if not numpy.all(numpy.isfinite(C)):
                # premise (a symmetric PSD matrix) not met: the builder's problem, judged by C01
                o.stat("builder_output_not_finite_not_claimed", len(B_RCONDS))
                continue
            Cs = 0.5 * (C + C.T)
            Cff, Cof = Cs[2 * n0:, 2 * n0:], Cs[:2 * n0, 2 * n0:]
            w, V = numpy.linalg.eigh(Cff)
            cond = float(numpy.max(numpy.abs(w)) / max(numpy.min(numpy.abs(w)), 1e-300))
            tag = "L%s:wl%s" % ("".join(map(str, lset)), wl)
            for rc in B_RCONDS:
                R = numpy.asarray(cm.make_tomographic_reconstructor(svd_conditioning=rc))
                Rf = numpy.asarray(sc.create_tomographic_covariance_reconstructor(M.copy(), n0, rc))
                o.stat("lib_calls", 2)
                t = "%s:rc=%g" % (tag, rc)
                cnt["shape"] += 1
                if R.shape != (2 * n0, C.shape[0] - 2 * n0):
                    bad.setdefault("shape", []).append(t)
                    continue
                cnt["method_equals_function"] += 1
                if not numpy.array_equal(R, Rf):
                    bad.setdefault("method_equals_function", []).append(t)
                R = R.astype(float)
                keep, drop, _ = _split(w, rc)
                if cond > B_COND_MAX:
                    o.stat("illconditioned_not_claimed", 1)
                    continue
                worst_cond = max(worst_cond, cond)
                Pk = V[:, keep] @ V[:, keep].T
                ne = _maxabs((R @ Cff - Cof) @ Pk) / max(_maxabs(Cof), 1e-300)
                worst_ne = max(worst_ne, ne)
                cnt["normal_equations_float32"] += 1
                if not ne <= B_TOL:
                    bad.setdefault("normal_equations_float32", []).append(t)
                if keep.all():
                    want = numpy.zeros(R.shape)
                    if pos == 1:
                        want[:, :2 * n0] = numpy.eye(2 * n0)
                    else:
                        want[:, -2 * n0:] = numpy.eye(2 * n0)
                    e = _maxabs(R - want)
                    worst_dup = max(worst_dup, e)
                    cnt["duplicate_sensor_identity"] += 1
                    o.stat("duplicate_clause_evaluated", 1)
                    if not e <= B_TOL:
                        bad.setdefault("duplicate_sensor_identity", []).append(t)
    for clause, measure, tol in (("shape", None, None), ("method_equals_function", None, None),
                                 ("normal_equations_float32", worst_ne, B_TOL),
                                 ("duplicate_sensor_identity", worst_dup, B_TOL)):
        b = bad.get(clause)
        if not cnt[clause] and not b:
            continue
        o.check(clause, not b, measure=measure, tol=tol, n=max(cnt[clause], 1),
                detail=None if not b else "fails for %s" % ",".join(b))
    o.note("B_worst_cond_claimed", worst_cond)
    o.outcome((n0, round(worst_cond, 1)))
    return o


def finalize(tier, results):
    """vacuity guards: the duplicate clause and the rank-deficient inputs must really occur"""
    o = Out()
    dup = sum(r.stats.get("duplicate_clause_evaluated", 0) for r in results.values())
    deficient = sum(r.stats.get("nontrivial_rank_deficient_offoff", 0) for r in results.values())
    if any(k.startswith("B:") for k in results):
        o.check("coverage_duplicate_clause_exercised", dup > 0, measure=dup)
    if any(k.startswith("A:") for k in results):
        o.check("coverage_rank_deficient_inputs", deficient > 0, measure=deficient)
        gaps = [r.notes["min_nonzero_eig_rel"] for r in results.values() if "min_nonzero_eig_rel" in r.notes]
        o.note("A_min_nonzero_eig_rel_overall", min(gaps))
    return o
