"""C16 Binning, zooming and radial reductions preserve image content.

E2 + E1. binImgs, both zoom entry points, azimuthal_average and the encircled-energy curve are
linear in the image, so their complete operators are extracted from ALL unit images of every
enumerated shape: binning must be the block-sum operator exactly; the zoom operator must be the
identity / contain the identity rows on the old nodes and reproduce every monomial x^a y^b,
a, b <= order; every row of the azimuthal operator must be a probability vector (which decides
'constant -> constant' and 'min <= value <= max' for every image of that size); every unit
encircled-energy curve must start at 0, be non-decreasing and <= 1 (which decides it for every
non-negative image, a convex combination). Linearity itself is checked by superposition and,
for the radial reductions, on ALL 0/1 images of 4x4 and of a 3x3 block inside 6x6.
"""
import warnings

import numpy

from mc import Out, Case
from mc import linear
from mc.refmodels import imgops

PROPERTY = "C16"
LEVEL = "exploration"
TECHNIQUE = ("bounded exhaustive enumeration (shapes x factors x dtypes x stack depths; sizes x targets x orders x "
             "dtypes x entry points; sizes x fractions) with basis exhaustion of each linear reduction (full operator "
             "from all unit images) and complete enumeration of binary images")
RULE = ("cases = (a, b, n) for binning [all dtypes and stack depths inside]; (entry point, size, order) for zoom "
        "[all targets and dtypes inside]; size for the azimuthal average; (size, image family chunk) for the "
        "encircled energy. Non-trivial: n >= 2 (binning), target != size (zoom), size >= 6 (radial)")
ASSUMPTIONS = [
    "zoom: square arrays 4..8 (4..10 thorough), square targets {n, 2n-1, 3n-2, n+3} and the rectangular targets "
    "(2n-1, n), (n, 3n-2); spline order k needs at least k+1 samples, smaller arrays are outside the domain",
    "for a rectangular target either assignment of newSize to the axes is accepted (the statement does not fix "
    "it; zoom_rbs returns shape newSize[::-1]); values are checked for the orientation the shape reveals",
    "when `zoom` raises NotImplementedError (scipy without interp2d) this is reported once by the clause "
    "entry_point_callable and the value clauses of `zoom` are skipped (not silently passed: they are counted "
    "in the statistic zoom_value_cases_skipped)",
    "tolerances: 1e-10 relative to the largest input sample (zoom), 1e-12 (radial reductions), exact (binning)",
    "encircled energy: default centre, even sizes 4..16; 'diameter where the curve crosses the fraction' is read "
    "as: the reported value is a grid abscissa that bounds a grid segment on which the returned piecewise-linear "
    "curve attains the fraction (decided whenever the curve reaches the fraction)",
    "all-zero images (no energy) are outside the domain of the encircled-energy clauses",
]
ENGINES = ["E1-product-enumeration", "E2-basis-exhaustion"]
LEVEL_TEXT = ("Complete operator extraction from every unit image for every enumerated shape, so the binning, "
              "identity/node, probability-row and monotone-curve clauses hold for all images of those shapes by "
              "linearity / convexity; every monomial up to the spline order; all 65 536 binary 4x4 images and all "
              "512 binary 3x3 blocks in 6x6 for the radial reductions and every fraction 0.1..0.9.")
LEVEL_NOTE = ("Trusted: numpy integer arithmetic, Python Fractions for the zoom grid. Not covered: sizes beyond "
              "the bounds (spot cases at 130-260 pixels only), non-square input arrays for zoom; encircled energy about a "
              "caller-given centre is covered for 5 centres (pixel centre, integer, arbitrary) on 8- and 12-pixel images.")

TOL_Z = 1e-10
TOL_R = 1e-12
FRACTIONS = [0.1, 0.2, 0.3, 0.4, 0.5, 0.6, 0.7, 0.8, 0.9]


def _bin_range(tier):
    return (range(1, 4), range(1, 5)) if tier == "quick" else (range(1, 5), range(1, 6))


def _zoom_sizes(tier):
    return range(4, 9) if tier == "quick" else range(4, 11)


def _az_sizes(tier):
    return [4, 5, 6, 7, 8, 16] if tier == "quick" else [4, 5, 6, 7, 8, 9, 12, 16, 24, 32]


def _ee_sizes(tier):
    return [4, 6, 8, 16] if tier == "quick" else [4, 6, 8, 10, 12, 16, 24]


def BOUNDS(tier):
    ab, ns = _bin_range(tier)
    return {"bin_a_b": list(ab), "bin_n": list(ns), "bin_dtypes": ["float64", "int64", "complex128"],
            "bin_stack_depths": [0, 1, 2, 3], "zoom_sizes": list(_zoom_sizes(tier)),
            "zoom_targets": ["n", "2n-1", "3n-2", "n+3", "(2n-1,n)", "(n,3n-2)"], "zoom_orders": [1, 3, 5],
            "zoom_dtypes": ["float64", "complex64", "complex128"], "zoom_entry_points": ["zoom_rbs", "zoom"],
            "azimuthal_sizes": _az_sizes(tier), "ee_sizes": _ee_sizes(tier), "fractions": FRACTIONS,
            "binary_images": "all 3x3 blocks in 6x6" + ("" if tier == "quick" else ", all 4x4")}


def cases(tier):
    yield Case("storage", {"kind": "storage"})
    yield Case("large", {"kind": "large"})
    ab, ns = _bin_range(tier)
    for a in ab:
        for b in ab:
            for n in ns:
                yield Case("bin:a=%d:b=%d:n=%d" % (a, b, n), {"kind": "bin", "a": a, "b": b, "n": n}, n >= 2)
    yield Case("zoom:callable", {"kind": "callable"})
    for entry in ("zoom_rbs", "zoom"):
        for n in _zoom_sizes(tier):
            for order in (1, 3, 5):
                if n >= order + 1:
                    yield Case("%s:n=%d:order=%d" % (entry, n, order),
                               {"kind": "zoom", "entry": entry, "n": n, "order": order})
    for n in _az_sizes(tier):
        yield Case("azimuthal:n=%d" % n, {"kind": "az", "n": n}, n >= 6)
    yield Case("azimuthal:binary3x3in6x6", {"kind": "azbin", "n": 6, "block": 3, "lo": 0, "hi": 512})
    for n in _ee_sizes(tier):
        yield Case("ee:unit:n=%d" % n, {"kind": "eeunit", "n": n}, n >= 6)
    for n in ((8, 12) if tier == "quick" else (6, 8, 12, 16)):
        h = n // 2
        for cname, c in (("pixel_centre", (h + 0.5, h + 0.5)), ("pixel_centre_x", (h - 0.5, h)), ("integer_off", (h + 1, h - 2)),
                         ("arbitrary", (h - 1.25, h + 0.7)), ("default_spelled_out", (h, h))):
            yield Case("ee:unit:n=%d:centre=%s" % (n, cname), {"kind": "eeunit", "n": n, "center": list(c)})
    for lo in range(0, 512, 64):
        yield Case("ee:binary3x3in6x6:codes=%d-%d" % (lo, lo + 63),
                   {"kind": "eebin", "n": 6, "block": 3, "lo": lo, "hi": lo + 64})
    if tier != "quick":
        for lo in range(0, 65536, 2048):
            yield Case("azimuthal:binary4x4:codes=%d-%d" % (lo, lo + 2047),
                       {"kind": "azbin", "n": 4, "block": 4, "lo": lo, "hi": lo + 2048})
        for lo in range(0, 65536, 512):
            yield Case("ee:binary4x4:codes=%d-%d" % (lo, lo + 511),
                       {"kind": "eebin", "n": 4, "block": 4, "lo": lo, "hi": lo + 512})


def evaluate(p):
    if p["kind"] == "storage":
        return _storage(p)
    if p["kind"] == "large":
        return _large(p)
    with warnings.catch_warnings():
        warnings.simplefilter("ignore")
        k = p["kind"]
        if k == "bin":
            return _bin(p)
        if k == "callable":
            return _callable()
        if k == "zoom":
            return _zoom(p)
        if k == "az":
            return _az(p["n"])
        if k == "azbin":
            return _azbin(p)
        if k == "eeunit":
            return _eeunit(p["n"], p.get("center"))
        return _eebin(p)


def _maxabs(a):
    a = numpy.asarray(a)
    if a.size == 0:
        return 0.0
    m = float(numpy.max(numpy.abs(a)))
    return float("inf") if m != m else m


# ----------------------------------------------------------------------------- binning

def _bin(p):
    from aotools import interpolation
    import aotools
    o = Out()
    o.check("same_function_all_paths", aotools.binImgs is interpolation.binImgs)
    a, b, n = p["a"], p["b"], p["n"]
    for depth in (0, 1, 2, 3):
        shape = ((depth,) if depth else ()) + (a * n, b * n)
        oshape = ((depth,) if depth else ()) + (a, b)
        B = imgops.block_sum_operator(shape, n)
        size = int(numpy.prod(shape))
        for dt in (float, numpy.int64, complex):
            tag = "depth=%d:%s" % (depth, numpy.dtype(dt).name)

            def f(x):
                return interpolation.binImgs(x, n)
            try:
                T, c = linear.operator(f, shape, dtype=dt, out_shape=oshape)
            except ValueError as e:
                o.check("block_sums_exact", False, sub=tag, detail=str(e))
                continue
            o.stat("lib_calls", c)
            ok = numpy.array_equal(T, B.astype(T.dtype))
            o.check("block_sums_exact", ok, sub=None if ok else tag,
                    detail=None if ok else {"operator": T.real, "block_sum_operator": B})
            if dt is complex:
                Ti, c = linear.operator_imag(f, shape)
                o.stat("lib_calls", c)
                oki = numpy.array_equal(Ti, 1j * B)
                o.check("block_sums_exact", oki, sub=None if oki else tag + ":imag")
            # dense index-coded image: values, dtype kept, flux preserved, linearity
            x = (numpy.arange(size) * 7 % 11 + 1).reshape(shape).astype(dt)
            if dt is complex:
                x = x + 1j * (numpy.arange(size) * 3 % 5).reshape(shape)
            y = numpy.asarray(interpolation.binImgs(x.copy(), n))
            o.stat("lib_calls", 1)
            okd = y.shape == oshape and numpy.array_equal(y, imgops.block_sum(x, n))
            o.check("block_sums_exact", okd, sub=None if okd else tag + ":dense", detail=None if okd else {"got": y})
            okf = y.shape == oshape and (y.sum() == x.sum()) and (
                depth == 0 or numpy.array_equal(y.reshape(depth, -1).sum(1), x.reshape(depth, -1).sum(1)))
            o.check("flux_preserved", bool(okf), sub=None if okf else tag)
            okt = y.dtype == x.dtype
            o.check("dtype_kept", okt, sub=None if okt else tag, detail=str(y.dtype))
            # the same values in other memory layouts (Fortran order, a transposed view, a strided view)
            big = numpy.zeros(shape[:-2] + (2 * shape[-2], 2 * shape[-1]), dtype=x.dtype)
            big[..., ::2, ::2] = x
            layouts = {"fortran": numpy.asfortranarray(x), "strided_view": big[..., ::2, ::2],
                       "transposed_view": numpy.ascontiguousarray(numpy.swapaxes(x, -1, -2)).swapaxes(-1, -2)}
            for lname, xl in layouts.items():
                yl = numpy.asarray(interpolation.binImgs(xl, n))
                o.stat("lib_calls", 1)
                okl = yl.shape == oshape and numpy.array_equal(yl, imgops.block_sum(x, n))
                o.check("block_sums_exact", okl, sub=None if okl else tag + ":layout=" + lname,
                        detail=None if okl else {"got": yl, "c_contiguous": bool(xl.flags.c_contiguous),
                                                 "f_contiguous": bool(xl.flags.f_contiguous)})
    o.outcome((a, b, n))
    return o


# ----------------------------------------------------------------------------- zoom

def _entry(name):
    from aotools import interpolation
    return getattr(interpolation, name)


def _callable():
    import aotools
    from aotools import interpolation
    o = Out()
    o.check("same_function_all_paths", aotools.zoom is interpolation.zoom and aotools.zoom_rbs is interpolation.zoom_rbs)
    for name in ("zoom_rbs", "zoom"):
        try:
            y = _entry(name)(numpy.arange(16.0).reshape(4, 4), (4, 4), order=1)
            ok, det = numpy.asarray(y).shape == (4, 4), None
        except NotImplementedError as e:
            ok, det = False, "NotImplementedError: " + str(e)[:200]
        o.stat("lib_calls", 1)
        o.check("entry_point_callable", ok, sub=None if ok else name, detail=det)
    # observation only (the docstring asks for a tuple): an integer newSize
    try:
        interpolation.zoom_rbs(numpy.arange(16.0).reshape(4, 4), 4)
        o.note("zoom_rbs_integer_newSize", "accepted")
    except Exception as e:
        o.note("zoom_rbs_integer_newSize", type(e).__name__)
    return o


def _orient(out, n, xs, ys):
    """grids along axis 0 / axis 1 of the output for target newSize = (xs, ys): the shape tells
    which element of newSize the entry point assigned to which axis"""
    out = numpy.asarray(out)
    if out.shape == (xs, ys):
        return imgops.zoom_grid(n, xs), imgops.zoom_grid(n, ys), "shape==newSize"
    if out.shape == (ys, xs):
        return imgops.zoom_grid(n, ys), imgops.zoom_grid(n, xs), "shape==newSize[::-1]"
    return None, None, "shape %s" % (out.shape,)


def _zoom(p):
    o = Out()
    f = _entry(p["entry"])
    n, order = p["n"], p["order"]
    try:
        f(numpy.arange(float(n * n)).reshape(n, n), (n, n), order=order)
    except NotImplementedError:
        o.stat("zoom_value_cases_skipped", 1)      # reported by zoom:callable
        return o
    targets = sorted(set([(n, n), (2 * n - 1, 2 * n - 1), (3 * n - 2, 3 * n - 2), (n + 3, n + 3),
                          (2 * n - 1, n), (n, 3 * n - 2)]))
    for (xs, ys) in targets:
        tag = "target=%dx%d" % (xs, ys)

        def z(x):
            return numpy.asarray(f(x.copy(), (xs, ys), order=order))
        probe = z(imgops.monomial(n, n, 1, 0))
        o.stat("lib_calls", 1)
        gu, gv, how = _orient(probe, n, xs, ys)
        if gu is None:
            o.check("output_shape", False, sub=tag, detail=how)
            continue
        o.check("output_shape", True)
        if xs != ys:
            o.note("%s_rect_target" % p["entry"], how)
        oshape = probe.shape
        # --- the complete operator from all unit images
        try:
            Z, c = linear.operator(z, (n, n), dtype=float, out_shape=oshape)
        except ValueError as e:
            o.check("output_shape", False, sub=tag, detail=str(e))
            continue
        o.stat("lib_calls", c)
        e, c = linear.superposition_error(z, (n, n), Z, dtype=float)
        o.stat("lib_calls", c)
        o.close("linear_in_data", e / (4.0 * n * n), TOL_Z, sub=tag)
        su, sv = imgops.node_stride(n, oshape[0]), imgops.node_stride(n, oshape[1])
        Z4 = Z.reshape(oshape + (n, n))
        if su == 1 and sv == 1:
            o.close("identity_same_size", _maxabs(Z - numpy.eye(n * n)), TOL_Z, sub=tag)
        if su is not None and sv is not None:
            nodes = Z4[::su, ::sv].reshape(n * n, n * n)
            o.close("passes_through_nodes", _maxabs(nodes - numpy.eye(n * n)), TOL_Z, sub=tag)
        # --- every monomial up to the order (a basis of the polynomials exact for this spline)
        worst, worst_ab = 0.0, None
        dense_in = numpy.zeros((n, n))
        dense_ex = numpy.zeros(oshape)
        for a in range(order + 1):
            for b in range(order + 1):
                m = imgops.monomial(n, n, a, b)
                ex = imgops.monomial_on_grid(gu, gv, a, b)
                got = z(m)
                o.stat("lib_calls", 1)
                err = _maxabs(got - ex) / _maxabs(m)
                if err > worst:
                    worst, worst_ab = err, (a, b)
                cf = ((a * 3 + b * 5) % 7 - 3) / _maxabs(m)
                dense_in += cf * m
                dense_ex += cf * ex
        o.close("polynomial_exact", worst, TOL_Z, sub=tag, detail={"worst_monomial_a_b": worst_ab})
        got = z(dense_in)
        o.stat("lib_calls", 1)
        o.close("polynomial_exact", _maxabs(got - dense_ex) / max(_maxabs(dense_in), 1e-300), TOL_Z, sub=tag + ":combination")
        # orientation: the asymmetric monomials alone (a transposed answer is off by O(1))
        ex10 = imgops.monomial_on_grid(gu, gv, 1, 0)
        o.close("orientation", _maxabs(probe - ex10) / (n - 1.0), TOL_Z, sub=tag)
        # --- complex data = real + i imag
        re = (numpy.arange(n * n) * 5 % 7 - 3.0).reshape(n, n)
        im = (numpy.arange(n * n) * 3 % 11 - 5.0).reshape(n, n)
        zr, zi = z(re), z(im)
        o.stat("lib_calls", 2)
        for cdt in (numpy.complex128, numpy.complex64):
            zc = z((re + 1j * im).astype(cdt))
            o.stat("lib_calls", 1)
            okc = numpy.iscomplexobj(zc) and zc.shape == oshape
            o.check("complex_is_real_plus_i_imag", okc and _maxabs(zc - (zr + 1j * zi)) / 5.0 <= TOL_Z,
                    sub=tag + ":" + numpy.dtype(cdt).name,
                    measure=_maxabs(zc - (zr + 1j * zi)) / 5.0 if okc else None, tol=TOL_Z)
        ok_real = not numpy.iscomplexobj(zr)
        o.check("real_stays_real", ok_real, sub=None if ok_real else tag)
    o.outcome((p["entry"], n, order))
    return o


# ----------------------------------------------------------------------------- azimuthal average

def _az(n):
    from aotools.image_processing import psf
    import aotools
    o = Out()
    o.check("same_function_all_paths", aotools.azimuthal_average is psf.azimuthal_average)
    nr = n // 2

    def f(x):
        return psf.azimuthal_average(x.copy())
    A, c = linear.operator(f, (n, n), dtype=float, out_shape=(nr,))
    o.stat("lib_calls", c)
    e, c = linear.superposition_error(f, (n, n), A, dtype=float)
    o.stat("lib_calls", c)
    o.close("linear_in_data", e / (4.0 * n * n), TOL_R)
    # every ring is an average: non-negative weights adding up to one. By linearity this gives
    # constant -> constant and min <= value <= max for EVERY image of this size.
    o.close("ring_weights_nonnegative", max(0.0, -float(A.min())), 0.0)
    o.close("ring_weights_sum_to_one", _maxabs(A.sum(1) - 1.0), TOL_R)
    for cst in (1.0, 2.5, -3.0, 1e6):
        y = numpy.asarray(f(numpy.full((n, n), cst)))
        o.stat("lib_calls", 1)
        o.close("constant_gives_constant", _maxabs(y - cst) / abs(cst), TOL_R, sub="c=%g" % cst)
    for k, x in enumerate(_dense_images(n)):
        y = numpy.asarray(f(x))
        o.stat("lib_calls", 1)
        lo, hi = x.min(), x.max()
        viol = max(0.0, float(lo - y.min()), float(y.max() - hi)) / max(abs(lo), abs(hi), 1.0)
        o.close("between_min_and_max", viol, TOL_R, sub="dense%d" % k)
    o.outcome(A.round(12))
    return o


def _dense_images(n):
    k = numpy.arange(n * n)
    yield (k * 7 % 13).reshape(n, n).astype(float)
    yield ((k * k) % 17 - 8.0).reshape(n, n)
    yield numpy.add.outer(numpy.arange(n) ** 2, 3.0 * numpy.arange(n))
    g = numpy.arange(n) - (n - 1) / 2.0
    yield numpy.exp(-numpy.add.outer(g ** 2, g ** 2) / (0.1 * n * n))


def _binary_images(n, block, lo, hi):
    off = (n - block) // 2
    for code in range(lo, hi):
        x = numpy.zeros((n, n))
        bits = [(code >> k) & 1 for k in range(block * block)]
        x[off:off + block, off:off + block] = numpy.array(bits, dtype=float).reshape(block, block)
        yield code, x


def _azbin(p):
    from aotools.image_processing import psf
    o = Out()
    n = p["n"]
    worst, bad = 0.0, None
    cnt = 0
    for code, x in _binary_images(n, p["block"], p["lo"], p["hi"]):
        y = numpy.asarray(psf.azimuthal_average(x.copy()))
        o.stat("lib_calls", 1)
        cnt += 1
        lo, hi = x.min(), x.max()
        v = max(0.0, float(lo - y.min()), float(y.max() - hi))
        if not v <= worst:
            worst, bad = v, code
        if not numpy.all(numpy.isfinite(y)):
            worst, bad = float("inf"), code
    o.check("between_min_and_max", worst <= TOL_R, measure=worst, tol=TOL_R, n=cnt,
            detail=None if worst <= TOL_R else {"code": bad})
    return o


# ----------------------------------------------------------------------------- encircled energy

def _curve_clauses(o, xi, yi, sub, detail=None):
    o.close("ee_starts_at_zero", abs(float(yi[0])), TOL_R, sub=sub, detail=detail)
    o.close("ee_non_decreasing", max(0.0, float(numpy.max(-numpy.diff(yi)))), TOL_R, sub=sub, detail=detail)
    o.close("ee_at_most_one", max(0.0, float(yi.max()) - 1.0), TOL_R, sub=sub, detail=detail)
    o.close("ee_at_least_zero", max(0.0, -float(yi.min())), TOL_R, sub=sub, detail=detail)


class _Diam(object):
    """collects the diameter clauses per fraction so that failing ids are (clause, case, fraction)"""

    def __init__(self):
        self.n = {}
        self.bad = {}

    def add(self, psf, x, xi, yi, label, center=None):
        calls = 0
        for fr in FRACTIONS:
            d = psf.encircled_energy(x.copy(), fraction=fr) if center is None else psf.encircled_energy(x.copy(), fraction=fr, center=list(center))
            calls += 1
            where = numpy.nonzero(xi == d)[0]
            key = "f=%g" % fr
            self.n[("ee_diameter_on_grid", key)] = self.n.get(("ee_diameter_on_grid", key), 0) + 1
            if not isinstance(d, float) or len(where) != 1:
                self.bad.setdefault(("ee_diameter_on_grid", key), {"image": label, "diameter": d})
                continue
            k = int(where[0])
            lo, hi = imgops.nearest_values(yi, fr)
            if lo is None or hi is None:
                continue          # the curve never reaches the fraction: nothing to locate
            self.n[("ee_diameter_value_adjacent", key)] = self.n.get(("ee_diameter_value_adjacent", key), 0) + 1
            if not (abs(yi[k] - lo) <= TOL_R or abs(yi[k] - hi) <= TOL_R):
                self.bad.setdefault(("ee_diameter_value_adjacent", key),
                                    {"image": label, "diameter": d, "curve_there": yi[k], "adjacent": (lo, hi)})
            ok = imgops.crossing_grid_points(xi, yi, fr)
            self.n[("ee_diameter_at_crossing", key)] = self.n.get(("ee_diameter_at_crossing", key), 0) + 1
            if k not in ok:
                cross = sorted(ok)
                ent = self.bad.setdefault(("ee_diameter_at_crossing", key),
                                          {"image": label, "reported_diameter": d, "curve_there": float(yi[k]),
                                           "curve_crosses_between": (float(xi[cross[0]]), float(xi[cross[-1]])),
                                           "images_failing": 0})
                ent["images_failing"] += 1
        return calls

    def flush(self, o):
        for (clause, key), n in sorted(self.n.items()):
            bad = self.bad.get((clause, key))
            o.check(clause, bad is None, sub=None if bad is None else key, detail=bad, n=n,
                    measure=None if bad is None else bad.get("images_failing"))


def _eeunit(n, center=None):
    """center=None: the default centre; otherwise the curve and the diameters about a caller-given centre (integer,
    half-integer = a pixel centre in the corner-origin convention, arbitrary) - every clause is the same"""
    from aotools.image_processing import psf
    import aotools
    o = Out()
    o.check("same_function_all_paths", aotools.encircled_energy is psf.encircled_energy)
    dm = _Diam()
    grid = [None]

    def f(x):
        xi, yi = psf.encircled_energy(x.copy(), eeDiameter=False) if center is None else \
            psf.encircled_energy(x.copy(), center=list(center), eeDiameter=False)
        if grid[0] is None:
            grid[0] = numpy.array(xi)
        elif not numpy.array_equal(grid[0], xi):
            raise ValueError("abscissae depend on the image")
        return numpy.asarray(yi)
    # unit images carry total energy 1, so column k is the curve of pixel k; the curve of any
    # non-negative image is the convex combination sum_k (x_k / sum x) column_k
    E, c = linear.operator(f, (n, n), dtype=float)
    o.stat("lib_calls", c)
    xi = grid[0]
    ok_grid = len(xi) == E.shape[0] and xi[0] == 0 and numpy.all(numpy.diff(xi) > 0)
    o.check("ee_grid_increasing_from_zero", bool(ok_grid))
    worst = {"ee_starts_at_zero": 0.0, "ee_non_decreasing": 0.0, "ee_at_most_one": 0.0, "ee_at_least_zero": 0.0}
    for k in range(n * n):
        yi = E[:, k]
        worst["ee_starts_at_zero"] = max(worst["ee_starts_at_zero"], abs(float(yi[0])))
        worst["ee_non_decreasing"] = max(worst["ee_non_decreasing"], float(numpy.max(-numpy.diff(yi))))
        worst["ee_at_most_one"] = max(worst["ee_at_most_one"], float(yi.max()) - 1.0)
        worst["ee_at_least_zero"] = max(worst["ee_at_least_zero"], -float(yi.min()))
        x = numpy.zeros((n, n))
        x.flat[k] = 1.0
        o.stat("lib_calls", dm.add(psf, x, xi, yi, "unit pixel %d" % k, center))
    for cl, v in worst.items():
        o.check(cl, v <= TOL_R, measure=max(v, 0.0), tol=TOL_R, n=n * n)
    # convexity / normalisation on dense non-negative images, positive scaling invariance
    for k, x in enumerate(_dense_images(n)):
        x = numpy.abs(x) + (k == 0)
        yi = f(x)
        o.stat("lib_calls", 1)
        w = x.reshape(-1) / x.sum()
        o.close("ee_convex_combination_of_unit_curves", _maxabs(yi - E @ w), TOL_R, sub="dense%d" % k)
        _curve_clauses(o, xi, yi, "dense%d" % k)
        o.close("ee_scale_invariant", _maxabs(f(3.0 * x) - yi), TOL_R, sub="dense%d" % k)
        # the same image as camera counts in narrow dtypes, scaled to use most of the dtype's range: the curve
        # is a property of the values, not of how they are stored
        for dt, top in ((numpy.uint8, 250), (numpy.uint16, 60000), (numpy.int16, 30000), (numpy.int32, 2 ** 30),
                        (numpy.float32, 1.0)):
            xq = x / x.max() * top
            xq = numpy.floor(xq).astype(dt) if numpy.dtype(dt).kind in "iu" else xq.astype(dt)
            if not xq.any():
                continue
            yq, yf = f(xq), f(xq.astype(float))
            o.stat("lib_calls", 2)
            o.close("ee_independent_of_storage_dtype", _maxabs(yq - yf), 1e-6 if dt is numpy.float32 else TOL_R,
                    sub="dense%d:%s" % (k, numpy.dtype(dt).name))
            _curve_clauses(o, xi, yq, "dense%d:%s" % (k, numpy.dtype(dt).name))
        o.stat("lib_calls", 1 + dm.add(psf, x, xi, yi, "dense%d" % k, center))
    dm.flush(o)
    o.outcome(E.round(12))
    return o


def _eebin(p):
    from aotools.image_processing import psf
    o = Out()
    n = p["n"]
    dm = _Diam()
    worst = {"ee_starts_at_zero": 0.0, "ee_non_decreasing": 0.0, "ee_at_most_one": 0.0, "ee_at_least_zero": 0.0}
    cnt = 0
    for code, x in _binary_images(n, p["block"], p["lo"], p["hi"]):
        if code == 0:
            continue
        xi, yi = psf.encircled_energy(x.copy(), eeDiameter=False)
        xi, yi = numpy.asarray(xi), numpy.asarray(yi)
        o.stat("lib_calls", 1)
        cnt += 1
        if not numpy.all(numpy.isfinite(yi)):
            worst["ee_non_decreasing"] = float("inf")
            continue
        worst["ee_starts_at_zero"] = max(worst["ee_starts_at_zero"], abs(float(yi[0])))
        worst["ee_non_decreasing"] = max(worst["ee_non_decreasing"], float(numpy.max(-numpy.diff(yi))))
        worst["ee_at_most_one"] = max(worst["ee_at_most_one"], float(yi.max()) - 1.0)
        worst["ee_at_least_zero"] = max(worst["ee_at_least_zero"], -float(yi.min()))
        o.stat("lib_calls", dm.add(psf, x, xi, yi, "code %d" % code))
    for cl, v in worst.items():
        o.check(cl, v <= TOL_R, measure=max(v, 0.0), tol=TOL_R, n=cnt)
    dm.flush(o)
    return o


def _storage(p):
    """zoom, azimuthal average and encircled energy are functions of the pixel VALUES: other memory layouts and
    dtypes of the same image give the same result"""
    from mc import variants
    from aotools import interpolation
    from aotools.image_processing import psf
    o = Out()
    i, j = numpy.indices((8, 8))
    img = ((3 * i * i + 5 * j + 2 * i * j) % 13 + 1).astype(float)
    fns = {
        "zoom_rbs:order1": lambda a: interpolation.zoom_rbs(a, (11, 11), order=1),
        "zoom_rbs:order3": lambda a: interpolation.zoom_rbs(a, (11, 11), order=3),
        "azimuthal_average": lambda a: psf.azimuthal_average(a),
        "encircled_energy:curve": lambda a: psf.encircled_energy(a, eeDiameter=False)[1],
        "encircled_energy:d50": lambda a: psf.encircled_energy(a),
        "binImgs:2": lambda a: interpolation.binImgs(a, 2),
    }
    try:
        interpolation.zoom(numpy.ones((4, 4)), (4, 4))
        fns["zoom:order1"] = lambda a: interpolation.zoom(a, (11, 11), order=1)
        fns["zoom:order3"] = lambda a: interpolation.zoom(a, (11, 11), order=3)
    except Exception:
        pass      # reported by entry_point_callable
    for name, f in fns.items():
        n = variants.check_storage(o, "result_independent_of_storage", f, img, 1e-10, sub=name)
        o.stat("lib_calls", n)
    cimg = img + 1j * img.T
    for name in ("zoom_rbs:order3", "zoom:order3"):
        if name in fns:
            n = variants.check_storage(o, "result_independent_of_storage", fns[name], cimg, 1e-10, sub=name + ":complex")
            o.stat("lib_calls", n)
    return o


def _large(p):
    """sizes beyond the exhaustive alphabets (block-wise implementations change behaviour above 64/128/256):
    binning of 260 x 140 images and of stacks of 130 frames, azimuthal average and encircled energy of 130- and
    258-pixel images, zoom of a 70 x 70 array"""
    from aotools import interpolation
    from aotools.image_processing import psf
    o = Out()
    img = numpy.fromfunction(lambda a, b: (a * 7 + b * 3) % 11 + 1.0 + 0.125 * ((a * b) % 8), (260, 140))  # dyadic: sums are exact in any order
    for n in (2, 4, 10):
        got = numpy.asarray(interpolation.binImgs(img.copy(), n))
        o.check("block_sums_exact_large", got.shape == (260 // n, 140 // n) and numpy.array_equal(got, imgops.block_sum(img, n)),
                sub="2d:n=%d" % n)
    # the bin factor in every spelling a pixel-scale ratio produces: ints, numpy ints, floats, and floats a rounding
    # error away from the whole number (0.3 / 0.1 = 2.9999999999999996, 0.1 * 3 / 0.1 = 3.0000000000000004)
    small = img[:12, :24]
    for n_, forms in ((3, (3, 3.0, 0.3 / 0.1, 0.1 * 3 / 0.1 if 0.1 * 3 / 0.1 != 3.0 else 3.0000000000000004, numpy.float64(3.0), numpy.int64(3), numpy.float32(3.0))),
                      (2, (2, 2.0, 1.2 / 0.6, 0.2 / 0.1, 2.0000000000000004, numpy.int32(2))), (4, (4, 4.0, 0.4 / 0.1, 3.9999999999999996, numpy.uint8(4)))):
        want = imgops.block_sum(small, n_)
        for f_ in forms:
            got = numpy.asarray(interpolation.binImgs(small.copy(), f_))
            o.check("bin_factor_in_any_spelling", got.shape == want.shape and numpy.array_equal(got, want),
                    sub="n=%r (%s)" % (f_, type(f_).__name__), detail=got.shape)
            o.stat("lib_calls", 1)
    st = numpy.array([numpy.roll(img[:20, :12], k, 0) + k for k in range(130)])
    got = numpy.asarray(interpolation.binImgs(st.copy(), 2))
    o.check("block_sums_exact_large", got.shape == (130, 10, 6) and numpy.array_equal(got, imgops.block_sum(st, 2)), sub="stack130")
    o.stat("lib_calls", 4)
    for n in (130, 258):
        c = numpy.full((n, n), 3.25)
        a = numpy.asarray(psf.azimuthal_average(c.copy()), dtype=float)
        o.close("constant_gives_constant_large", _maxabs(a - 3.25), 1e-12, sub="n=%d" % n)
        d = numpy.fromfunction(lambda y, x: numpy.exp(-((y - n / 2) ** 2 + (x - n / 2) ** 2) / (2.0 * (n / 9.0) ** 2)) + 0.01 * ((y + x) % 5), (n, n))
        a = numpy.asarray(psf.azimuthal_average(d.copy()), dtype=float)
        o.check("between_min_and_max_large", bool(numpy.all(a >= d.min() - 1e-12) and numpy.all(a <= d.max() + 1e-12)), sub="n=%d" % n)
        xi, yi = psf.encircled_energy(d.copy(), eeDiameter=False)
        _curve_clauses(o, numpy.asarray(xi), numpy.asarray(yi), "large:n=%d" % n)
        o.stat("lib_calls", 3)
    # call histories on one caller-owned image: handed over again unchanged, and again after an in-place edit
    from mc import variants
    im = numpy.fromfunction(lambda y, x: (y * 5 + x * 3) % 7 + 0.5 * y + 1.0, (8, 8))
    hist = {"binImgs": lambda a: interpolation.binImgs(a, 2), "azimuthal_average": lambda a: psf.azimuthal_average(a),
            "encircled_energy": lambda a: numpy.concatenate([numpy.ravel(v) for v in psf.encircled_energy(a, eeDiameter=False)]),
            "ee_diameter": lambda a: numpy.array([psf.encircled_energy(a)])}
    for fn_name in ("zoom_rbs", "zoom"):
        for order in (1, 3):
            hist["%s:order=%d:same" % (fn_name, order)] = lambda a, f_=fn_name, o_=order: getattr(interpolation, f_)(a, (8, 8), order=o_)
            hist["%s:order=%d:15" % (fn_name, order)] = lambda a, f_=fn_name, o_=order: getattr(interpolation, f_)(a, (15, 15), order=o_)
    k = 0
    for name, f in hist.items():
        try:
            f(im.copy())
        except NotImplementedError:
            continue
        k += variants.check_reuse(o, "image", f, im, 1e-12, sub=name,
                                  mutate=lambda a: a.__setitem__(Ellipsis, a[::-1, :].copy() * 1.5 + 2.0))
    o.stat("lib_calls", k)
    z = numpy.fromfunction(lambda y, x: 0.5 * y - 0.25 * x + 0.01 * y * x, (70, 70))
    for fn_name in ("zoom_rbs", "zoom"):
        try:
            out = numpy.asarray(getattr(interpolation, fn_name)(z.copy(), (139, 139), order=3))
        except NotImplementedError:
            continue
        xs = numpy.linspace(0, 69, 139)
        want = 0.5 * xs[:, None] - 0.25 * xs[None, :] + 0.01 * xs[:, None] * xs[None, :]
        ok = out.shape == (139, 139)
        o.close("polynomial_exact_large", _maxabs(out - want) / _maxabs(want) if ok else float("inf"), 1e-10, sub=fn_name)
        o.stat("lib_calls", 1)
    return o
