"""C16 Binning, zooming and radial reductions preserve image content.

E2 + E1. binImgs, both zoom entry points, azimuthal_average and the encircled-energy curve are
linear in the image, so their complete operators are extracted from ALL unit images of every
enumerated shape: binning must be the block-sum operator exactly; the zoom operator must be the
identity / contain the identity rows on the old nodes and reproduce every monomial x^a y^b,
a + b <= order (a, b <= order as long as the engine is a tensor-product spline); every row of the azimuthal operator must be a probability vector (which decides
'constant -> constant' and 'min <= value <= max' for every image of that size); every unit
encircled-energy curve must start at 0, be non-decreasing and <= 1 (which decides it for every
non-negative image, a convex combination). Linearity itself is checked by superposition and,
for the radial reductions, on ALL 0/1 images of 4x4 and of a 3x3 block inside 6x6.
"""
import warnings

import numpy

from mc import Out, Case
from mc import linear
from mc.refmodels import imgops

PROPERTY = "C16"
LEVEL = "exploration"
TECHNIQUE = ("bounded exhaustive enumeration (shapes x factors x dtypes x stack depths; sizes x targets x orders x "
             "dtypes x entry points; sizes x fractions) with basis exhaustion of each linear reduction (full operator "
             "from all unit images) and complete enumeration of binary images")
RULE = ("cases = (a, b, n) for binning [all dtypes and stack depths inside]; (entry point, size, order) for zoom "
        "[all targets and dtypes inside]; size for the azimuthal average; (size, image family chunk) for the "
        "encircled energy. Non-trivial: n >= 2 (binning), target != size (zoom), size >= 6 (radial)")
ASSUMPTIONS = [
    "zoom: square arrays 4..8 (4..10 thorough), square targets {n, 2n-1, 3n-2, n+3} and, smaller than the input, "
    "{2, (n+1)//2, n-1}, and the rectangular targets (2n-1, n), (n, 3n-2), (n-1, 2n-1); spline order k needs at "
    "least k+1 samples, smaller arrays are outside the domain; a target of ONE sample is outside the domain (the "
    "convention 'first and last output samples are the first and last input samples' does not define it)",
    "'exact for polynomials up to the spline order' is demanded for every monomial x^a y^b of TOTAL degree "
    "a + b <= order; the monomials with a, b <= order and a + b > order (reproduced by every tensor-product spline) "
    "are demanded only when the library under test reproduces them (otherwise counted in "
    "polynomial_tensor_degree_not_claimed)",
    "the bin factor is judged as an int, a numpy integer and a float holding a whole number; for a float a "
    "rounding error away from a whole number either the block sums of the nearest whole number or an exception "
    "is accepted (never another result)",
    "binning of narrow integer dtypes: only the values are compared (what the result dtype is, is not part of the "
    "statement); block sums beyond the range of the input dtype are judged too (exact in a 64-bit integer)",
    "for a rectangular target either assignment of newSize to the axes is accepted (the statement does not fix "
    "it; zoom_rbs returns shape newSize[::-1]); values are checked for the orientation the shape reveals",
    "when `zoom` raises NotImplementedError (scipy without interp2d) this is reported once by the clause "
    "entry_point_callable and the value clauses of `zoom` are skipped (not silently passed: they are counted "
    "in the statistic zoom_value_cases_skipped)",
    "tolerances: 1e-10 relative to the largest input sample (zoom; 1e-5 for complex64 input, which an "
    "implementation may keep in single precision), 1e-12 (radial reductions), exact (binning)",
    "encircled energy: default centre, even sizes 4..16; 'diameter where the curve crosses the fraction' is read "
    "as: the reported value lies (within 4 ulp) on a segment [x_j, x_j+1] of the returned abscissae on which the "
    "returned piecewise-linear curve attains the fraction - an end point of the segment or any point inside it "
    "(decided whenever the curve reaches the fraction)",
    "the number of rings of the azimuthal average and the abscissae of the encircled-energy curve are taken from "
    "what the library returns (not fixed by the statement); the operator argument needs them to be the same for "
    "every image of one size - when they are not, the curve clauses are judged image by image and the "
    "superposition clauses are skipped (ee_common_grid_not_claimed)",
    "all-zero images (no energy) are outside the domain of the encircled-energy clauses",
]
ENGINES = ["E1-product-enumeration", "E2-basis-exhaustion"]
LEVEL_TEXT = ("Complete operator extraction from every unit image for every enumerated shape, so the binning, "
              "identity/node, probability-row and monotone-curve clauses hold for all images of those shapes by "
              "linearity / convexity; every monomial up to the spline order; all 65 536 binary 4x4 images and all "
              "512 binary 3x3 blocks in 6x6 for the radial reductions and every fraction 0.1..0.9 (0.05, 0.25, 1/3, "
              "0.95 on the dense images).")
LEVEL_NOTE = ("Trusted: numpy integer arithmetic, Python Fractions for the zoom grid. Not covered: sizes beyond "
              "the bounds (spot cases at 70-260 pixels only), non-square input arrays for zoom, zoom to a single "
              "sample, block sums that overflow a narrow input dtype, default arguments (order, fraction: observed "
              "in notes only, the statement does not fix them); encircled energy about a caller-given centre is "
              "covered for 5 centres (pixel centre, integer, arbitrary) on 8- and 12-pixel images and one centre at 130.")

TOL_Z = 1e-10      # unchanged library: <= 6e-15 (4 orders of margin)
TOL_Z_SINGLE = 1e-5  # complex64 input: 1e-16 when the library computes in double, 5e-8 when it keeps single precision
TOL_R = 1e-12      # unchanged library: <= 9e-16
FRACTIONS = [0.1, 0.2, 0.3, 0.4, 0.5, 0.6, 0.7, 0.8, 0.9]
EXTRA_FRACTIONS = [0.05, 0.25, 1.0 / 3.0, 0.95]      # dense images only


def _bin_range(tier):
    return (range(1, 4), range(1, 5)) if tier == "quick" else (range(1, 5), range(1, 6))


def _zoom_sizes(tier):
    return range(4, 9) if tier == "quick" else range(4, 11)


def _az_sizes(tier):
    return [4, 5, 6, 7, 8, 16] if tier == "quick" else [4, 5, 6, 7, 8, 9, 12, 16, 24, 32]


def _ee_sizes(tier):
    return [4, 6, 8, 16] if tier == "quick" else [4, 6, 8, 10, 12, 16, 24]


def BOUNDS(tier):
    ab, ns = _bin_range(tier)
    return {"bin_a_b": list(ab), "bin_n": list(ns), "bin_dtypes": ["float64", "int64", "complex128"],
            "bin_narrow_dtypes_sums_fitting": ["uint8", "uint16", "int16", "int32", "float32"],
            "bin_stack_depths": [0, 1, 2, 3], "bin_leading_axes": ["(2,3)", "(1,1,1)"],
            "zoom_sizes": list(_zoom_sizes(tier)),
            "zoom_targets": ["n", "2n-1", "3n-2", "n+3", "2", "(n+1)//2", "n-1", "(2n-1,n)", "(n,3n-2)", "(n-1,2n-1)"],
            "zoom_orders": [1, 3, 5], "largest_size": {"bin": "260x140, 130 frames", "zoom": "70->139, 130->130",
                                                      "radial": 258},
            "extra_fractions_dense_images": EXTRA_FRACTIONS,
            "zoom_dtypes": ["float64", "complex64", "complex128"], "zoom_entry_points": ["zoom_rbs", "zoom"],
            "azimuthal_sizes": _az_sizes(tier), "ee_sizes": _ee_sizes(tier), "fractions": FRACTIONS,
            "binary_images": "all 3x3 blocks in 6x6" + ("" if tier == "quick" else ", all 4x4")}


def cases(tier):
    yield Case("storage", {"kind": "storage"})
    yield Case("large", {"kind": "large"})
    ab, ns = _bin_range(tier)
    for a in ab:
        for b in ab:
            for n in ns:
                yield Case("bin:a=%d:b=%d:n=%d" % (a, b, n), {"kind": "bin", "a": a, "b": b, "n": n}, n >= 2)
    yield Case("zoom:callable", {"kind": "callable"})
    for entry in ("zoom_rbs", "zoom"):
        for n in _zoom_sizes(tier):
            for order in (1, 3, 5):
                if n >= order + 1:
                    yield Case("%s:n=%d:order=%d" % (entry, n, order),
                               {"kind": "zoom", "entry": entry, "n": n, "order": order})
    for n in _az_sizes(tier):
        yield Case("azimuthal:n=%d" % n, {"kind": "az", "n": n}, n >= 6)
    yield Case("azimuthal:binary3x3in6x6", {"kind": "azbin", "n": 6, "block": 3, "lo": 0, "hi": 512})
    for n in _ee_sizes(tier):
        yield Case("ee:unit:n=%d" % n, {"kind": "eeunit", "n": n}, n >= 6)
    for n in ((8, 12) if tier == "quick" else (6, 8, 12, 16)):
        h = n // 2
        for cname, c in (("pixel_centre", (h + 0.5, h + 0.5)), ("pixel_centre_x", (h - 0.5, h)), ("integer_off", (h + 1, h - 2)),
                         ("arbitrary", (h - 1.25, h + 0.7)), ("default_spelled_out", (h, h))):
            yield Case("ee:unit:n=%d:centre=%s" % (n, cname), {"kind": "eeunit", "n": n, "center": list(c)})
    for lo in range(0, 512, 64):
        yield Case("ee:binary3x3in6x6:codes=%d-%d" % (lo, lo + 63),
                   {"kind": "eebin", "n": 6, "block": 3, "lo": lo, "hi": lo + 64})
    if tier != "quick":
        for lo in range(0, 65536, 2048):
            yield Case("azimuthal:binary4x4:codes=%d-%d" % (lo, lo + 2047),
                       {"kind": "azbin", "n": 4, "block": 4, "lo": lo, "hi": lo + 2048})
        for lo in range(0, 65536, 512):
            yield Case("ee:binary4x4:codes=%d-%d" % (lo, lo + 511),
                       {"kind": "eebin", "n": 4, "block": 4, "lo": lo, "hi": lo + 512})


def evaluate(p):
    if p["kind"] == "storage":
        return _storage(p)
    if p["kind"] == "large":
        return _large(p)
    with warnings.catch_warnings():
        warnings.simplefilter("ignore")
        k = p["kind"]
        if k == "bin":
            return _bin(p)
        if k == "callable":
            return _callable()
        if k == "zoom":
            return _zoom(p)
        if k == "az":
            return _az(p["n"])
        if k == "azbin":
            return _azbin(p)
        if k == "eeunit":
            return _eeunit(p["n"], p.get("center"))
        return _eebin(p)


def _maxabs(a):
    a = numpy.asarray(a)
    if a.size == 0:
        return 0.0
    m = float(numpy.max(numpy.abs(a)))
    return float("inf") if m != m else m


# ----------------------------------------------------------------------------- binning

def _bin(p):
    from aotools import interpolation
    import aotools
    o = Out()
    # observation only (the statement does not say how the package exposes the function)
    o.note("same_function_all_paths", bool(getattr(aotools, "binImgs", None) is interpolation.binImgs))
    a, b, n = p["a"], p["b"], p["n"]
    for depth in (0, 1, 2, 3):
        shape = ((depth,) if depth else ()) + (a * n, b * n)
        oshape = ((depth,) if depth else ()) + (a, b)
        B = imgops.block_sum_operator(shape, n)
        size = int(numpy.prod(shape))
        for dt in (float, numpy.int64, complex):
            tag = "depth=%d:%s" % (depth, numpy.dtype(dt).name)

            def f(x):
                return interpolation.binImgs(x, n)
            try:
                T, c = linear.operator(f, shape, dtype=dt, out_shape=oshape)
            except ValueError as e:
                o.check("block_sums_exact", False, sub=tag, detail=str(e))
                continue
            o.stat("lib_calls", c)
            ok = numpy.array_equal(T, B.astype(T.dtype))
            o.check("block_sums_exact", ok, sub=None if ok else tag,
                    detail=None if ok else {"operator": T.real, "block_sum_operator": B})
            if dt is complex:
                Ti, c = linear.operator_imag(f, shape)
                o.stat("lib_calls", c)
                oki = numpy.array_equal(Ti, 1j * B)
                o.check("block_sums_exact", oki, sub=None if oki else tag + ":imag")
            # dense index-coded image: values, flux preserved, linearity
            x = (numpy.arange(size) * 7 % 11 + 1).reshape(shape).astype(dt)
            if dt is complex:
                x = x + 1j * (numpy.arange(size) * 3 % 5).reshape(shape)
            y = numpy.asarray(interpolation.binImgs(x.copy(), n))
            o.stat("lib_calls", 1)
            okd = y.shape == oshape and numpy.array_equal(y, imgops.block_sum(x, n))
            o.check("block_sums_exact", okd, sub=None if okd else tag + ":dense", detail=None if okd else {"got": y})
            okf = y.shape == oshape and (y.sum() == x.sum()) and (
                depth == 0 or numpy.array_equal(y.reshape(depth, -1).sum(1), x.reshape(depth, -1).sum(1)))
            o.check("flux_preserved", bool(okf), sub=None if okf else tag)
            # the result dtype is not part of the statement (an implementation may accumulate in a wider one)
            o.note("result_dtype:" + numpy.dtype(dt).name, str(y.dtype))
            # the same values in other memory layouts (Fortran order, a transposed view, a strided view)
            big = numpy.zeros(shape[:-2] + (2 * shape[-2], 2 * shape[-1]), dtype=x.dtype)
            big[..., ::2, ::2] = x
            layouts = {"fortran": numpy.asfortranarray(x), "strided_view": big[..., ::2, ::2],
                       "transposed_view": numpy.ascontiguousarray(numpy.swapaxes(x, -1, -2)).swapaxes(-1, -2)}
            for lname, xl in layouts.items():
                yl = numpy.asarray(interpolation.binImgs(xl, n))
                o.stat("lib_calls", 1)
                okl = yl.shape == oshape and numpy.array_equal(yl, imgops.block_sum(x, n))
                o.check("block_sums_exact", okl, sub=None if okl else tag + ":layout=" + lname,
                        detail=None if okl else {"got": yl, "c_contiguous": bool(xl.flags.c_contiguous),
                                                 "f_contiguous": bool(xl.flags.f_contiguous)})
    # --- camera counts in narrow dtypes, as large as the dtype allows with every block sum still inside its range
    # (sums beyond the range of the input dtype are not judged here, see ASSUMPTIONS); values compared, not dtypes
    for depth in (0, 3):
        shape = ((depth,) if depth else ()) + (a * n, b * n)
        oshape = ((depth,) if depth else ()) + (a, b)
        size = int(numpy.prod(shape))
        for dt in (numpy.uint8, numpy.uint16, numpy.int16, numpy.int32, numpy.float32):
            top = (numpy.iinfo(dt).max if numpy.dtype(dt).kind in "iu" else 2 ** 20) // (n * n)
            x = ((numpy.arange(size) * 7 % 11 + 1) * max(1, top // 11)).reshape(shape).astype(dt)
            want = imgops.block_sum(x.astype(numpy.int64), n)
            tag = "depth=%d:%s:sums_fit" % (depth, numpy.dtype(dt).name)
            y = numpy.asarray(interpolation.binImgs(x.copy(), n))
            o.stat("lib_calls", 1)
            okd = y.shape == oshape and numpy.array_equal(y, want)
            o.check("block_sums_exact", okd, sub=None if okd else tag, detail=None if okd else {"got": y, "want": want})
    # --- stacks with more than one leading axis, in every memory layout (leading axes swapped in memory as well)
    from mc import variants
    for lead in ((2, 3), (1, 1, 1)):
        shape = lead + (a * n, b * n)
        oshape = lead + (a, b)
        size = int(numpy.prod(shape))
        for dt in (float, numpy.int64):
            tag = "lead=%s:%s" % ("x".join(map(str, lead)), numpy.dtype(dt).name)
            x = (numpy.arange(size) * 5 % 13 + 1).reshape(shape).astype(dt)
            want = imgops.block_sum(x, n)
            for lname, xl in [("c", x.copy())] + variants.layouts(x):
                y = numpy.asarray(interpolation.binImgs(xl, n))
                o.stat("lib_calls", 1)
                okd = y.shape == oshape and numpy.array_equal(y, want)
                o.check("block_sums_exact", okd, sub=None if okd else tag + ":layout=" + lname,
                        detail=None if okd else {"got_shape": y.shape})
                okf = y.shape == oshape and numpy.array_equal(y.reshape(lead + (-1,)).sum(-1), x.reshape(lead + (-1,)).sum(-1))
                o.check("flux_preserved", bool(okf), sub=None if okf else tag + ":layout=" + lname)
    o.outcome((a, b, n))
    return o


# ----------------------------------------------------------------------------- zoom

def _entry(name):
    from aotools import interpolation
    return getattr(interpolation, name)


def _callable():
    import aotools
    from aotools import interpolation
    o = Out()
    o.note("same_function_all_paths:zoom", bool(getattr(aotools, "zoom", None) is interpolation.zoom
                                                 and getattr(aotools, "zoom_rbs", None) is interpolation.zoom_rbs))
    for name in ("zoom_rbs", "zoom"):
        try:
            y = _entry(name)(numpy.arange(16.0).reshape(4, 4), (4, 4), order=1)
            ok, det = numpy.asarray(y).shape == (4, 4), None
        except NotImplementedError as e:
            ok, det = False, "NotImplementedError: " + str(e)[:200]
        o.stat("lib_calls", 1)
        o.check("entry_point_callable", ok, sub=None if ok else name, detail=det)
    # observation only (the docstring asks for a tuple): an integer newSize
    try:
        interpolation.zoom_rbs(numpy.arange(16.0).reshape(4, 4), 4)
        o.note("zoom_rbs_integer_newSize", "accepted")
    except Exception as e:
        o.note("zoom_rbs_integer_newSize", type(e).__name__)
    # observation only (the statement does not fix the default order): which order a call without `order` uses
    x = imgops.monomial(8, 8, 2, 3) + 1.0
    for name in ("zoom_rbs", "zoom"):
        try:
            d = numpy.asarray(_entry(name)(x.copy(), (11, 11)))
            same = [k for k in (1, 3, 5)
                    if _maxabs(d - numpy.asarray(_entry(name)(x.copy(), (11, 11), order=k))) <= TOL_Z * _maxabs(x)]
            o.note("%s_default_order" % name, same)
        except Exception as e:
            o.note("%s_default_order" % name, type(e).__name__)
    return o


def _orient(out, n, xs, ys):
    """grids along axis 0 / axis 1 of the output for target newSize = (xs, ys): the shape tells
    which element of newSize the entry point assigned to which axis"""
    out = numpy.asarray(out)
    if out.shape == (xs, ys):
        return imgops.zoom_grid(n, xs), imgops.zoom_grid(n, ys), "shape==newSize"
    if out.shape == (ys, xs):
        return imgops.zoom_grid(n, ys), imgops.zoom_grid(n, xs), "shape==newSize[::-1]"
    return None, None, "shape %s" % (out.shape,)


def _zoom(p):
    o = Out()
    f = _entry(p["entry"])
    n, order = p["n"], p["order"]
    try:
        f(numpy.arange(float(n * n)).reshape(n, n), (n, n), order=order)
    except NotImplementedError:
        o.stat("zoom_value_cases_skipped", 1)      # reported by zoom:callable
        return o
    targets = sorted(set([(n, n), (2 * n - 1, 2 * n - 1), (3 * n - 2, 3 * n - 2), (n + 3, n + 3),
                          (2 * n - 1, n), (n, 3 * n - 2),
                          # smaller than the input ((n+1)//2 takes every second node when n is odd)
                          (2, 2), ((n + 1) // 2, (n + 1) // 2), (n - 1, n - 1), (n - 1, 2 * n - 1)]))
    for (xs, ys) in targets:
        tag = "target=%dx%d" % (xs, ys)

        def z(x):
            return numpy.asarray(f(x.copy(), (xs, ys), order=order))
        probe = z(imgops.monomial(n, n, 1, 0))
        o.stat("lib_calls", 1)
        gu, gv, how = _orient(probe, n, xs, ys)
        if gu is None:
            o.check("output_shape", False, sub=tag, detail=how)
            continue
        o.check("output_shape", True)
        if xs != ys:
            o.note("%s_rect_target" % p["entry"], how)
        oshape = probe.shape
        # --- the complete operator from all unit images
        try:
            Z, c = linear.operator(z, (n, n), dtype=float, out_shape=oshape)
        except ValueError as e:
            o.check("output_shape", False, sub=tag, detail=str(e))
            continue
        o.stat("lib_calls", c)
        e, c = linear.superposition_error(z, (n, n), Z, dtype=float)
        o.stat("lib_calls", c)
        o.close("linear_in_data", e / (4.0 * n * n), TOL_Z, sub=tag)
        su, sv = imgops.node_stride(n, oshape[0]), imgops.node_stride(n, oshape[1])
        Z4 = Z.reshape(oshape + (n, n))
        if su == 1 and sv == 1:
            o.close("identity_same_size", _maxabs(Z - numpy.eye(n * n)), TOL_Z, sub=tag)
        if su is not None and sv is not None:
            nodes = Z4[::su, ::sv].reshape(n * n, n * n)
            o.close("passes_through_nodes", _maxabs(nodes - numpy.eye(n * n)), TOL_Z, sub=tag)
        # --- every monomial up to the order: total degree a + b <= order is what the statement demands of any
        # interpolant; a, b <= order with a + b > order is reproduced by every tensor-product spline (the library's
        # engine) and is demanded as long as the library under test does so (guard, see ASSUMPTIONS)
        worst = {False: 0.0, True: 0.0}          # key: beyond total degree
        worst_ab = {False: None, True: None}
        dense_in = {False: numpy.zeros((n, n)), True: numpy.zeros((n, n))}
        dense_ex = {False: numpy.zeros(oshape), True: numpy.zeros(oshape)}
        for a in range(order + 1):
            for b in range(order + 1):
                m = imgops.monomial(n, n, a, b)
                ex = imgops.monomial_on_grid(gu, gv, a, b)
                got = z(m)
                o.stat("lib_calls", 1)
                err = _maxabs(got - ex) / _maxabs(m) if got.shape == ex.shape else float("inf")
                beyond = a + b > order
                if not err <= worst[beyond]:
                    worst[beyond], worst_ab[beyond] = err, (a, b)
                cf = ((a * 3 + b * 5) % 7 - 3) / _maxabs(m)
                dense_in[beyond] += cf * m
                dense_ex[beyond] += cf * ex
        tensor = worst[True] <= TOL_Z
        if not tensor:
            o.stat("polynomial_tensor_degree_not_claimed", 1)
        w, wab = max((worst[k], str(worst_ab[k])) for k in ((False, True) if tensor else (False,)))
        o.close("polynomial_exact", w, TOL_Z, sub=tag, detail={"worst_monomial_a_b": wab})
        d_in = dense_in[False] + (dense_in[True] if tensor else 0.0)
        d_ex = dense_ex[False] + (dense_ex[True] if tensor else 0.0)
        got = z(d_in)
        o.stat("lib_calls", 1)
        o.close("polynomial_exact", _maxabs(got - d_ex) / max(_maxabs(d_in), 1e-300) if got.shape == d_ex.shape else float("inf"),
                TOL_Z, sub=tag + ":combination")
        # orientation: the asymmetric monomials alone (a transposed answer is off by O(1))
        ex10 = imgops.monomial_on_grid(gu, gv, 1, 0)
        o.close("orientation", _maxabs(probe - ex10) / (n - 1.0), TOL_Z, sub=tag)
        # --- complex data = real + i imag
        re = (numpy.arange(n * n) * 5 % 7 - 3.0).reshape(n, n)
        im = (numpy.arange(n * n) * 3 % 11 - 5.0).reshape(n, n)
        zr, zi = z(re), z(im)
        o.stat("lib_calls", 2)
        for cdt in (numpy.complex128, numpy.complex64):
            zc = z((re + 1j * im).astype(cdt))
            o.stat("lib_calls", 1)
            okc = numpy.iscomplexobj(zc) and zc.shape == oshape and zr.shape == oshape and zi.shape == oshape
            # complex64: an implementation may keep single precision (the data are small integers, exact in both)
            tol = TOL_Z if cdt is numpy.complex128 else TOL_Z_SINGLE
            o.check("complex_is_real_plus_i_imag", okc and _maxabs(zc - (zr + 1j * zi)) / 5.0 <= tol,
                    sub=tag + ":" + numpy.dtype(cdt).name,
                    measure=_maxabs(zc - (zr + 1j * zi)) / 5.0 if okc else None, tol=tol)
        if numpy.iscomplexobj(zr):       # observation only: values are what the statement speaks about
            o.note("real_input_gives_complex_array", p["entry"])
    o.outcome((p["entry"], n, order))
    return o


# ----------------------------------------------------------------------------- azimuthal average

def _az(n):
    from aotools.image_processing import psf
    import aotools
    o = Out()
    o.note("same_function_all_paths:azimuthal_average",
           bool(getattr(aotools, "azimuthal_average", None) is psf.azimuthal_average))
    # the number of rings is what the library returns for the first image (not fixed by the statement); it has to
    # be a 1-d vector of the same length for every image of this size
    first = [None, True]

    def f(x):
        y = numpy.asarray(psf.azimuthal_average(x.copy()), dtype=float)
        if first[0] is None:
            first[0] = y.shape
        elif y.shape != first[0]:
            first[1] = False
            return numpy.full(first[0], numpy.nan)
        return y
    y0 = f(numpy.ones((n, n)))
    o.stat("lib_calls", 1)
    if y0.ndim != 1 or y0.size == 0:
        o.check("azimuthal_vector_same_length_for_every_image", False, detail="shape %s" % (y0.shape,))
        return o
    A, c = linear.operator(f, (n, n), dtype=float)
    o.stat("lib_calls", c)
    e, c = linear.superposition_error(f, (n, n), A, dtype=float)
    o.stat("lib_calls", c)
    o.close("linear_in_data", e / (4.0 * n * n), TOL_R)
    # every ring is an average: non-negative weights adding up to one. By linearity this gives
    # constant -> constant and min <= value <= max for EVERY image of this size.
    # (exactly 0 on the unchanged library; ring sums formed as differences of nested-circle sums may give -1e-17)
    o.close("ring_weights_nonnegative", max(0.0, -float(A.min())), TOL_R)
    o.close("ring_weights_sum_to_one", _maxabs(A.sum(1) - 1.0), TOL_R)
    for cst in (1.0, 2.5, -3.0, 1e6):
        y = numpy.asarray(f(numpy.full((n, n), cst)))
        o.stat("lib_calls", 1)
        o.close("constant_gives_constant", _maxabs(y - cst) / abs(cst), TOL_R, sub="c=%g" % cst)
    for k, x in enumerate(_dense_images(n)):
        y = numpy.asarray(f(x))
        o.stat("lib_calls", 1)
        lo, hi = x.min(), x.max()
        viol = max(0.0, float(lo - y.min()), float(y.max() - hi)) / max(abs(lo), abs(hi), 1.0)
        o.close("between_min_and_max", viol, TOL_R, sub="dense%d" % k)
    # value-dependent branches (clipping, thresholds relative to the maximum): 16 decades of dynamic range and
    # one hot pixel of 1e12 on a unit background - decided directly, relative to the largest pixel
    for k, x in enumerate(_wide_range_images(n)):
        y = numpy.asarray(f(x))
        o.stat("lib_calls", 1)
        lo, hi = x.min(), x.max()
        viol = max(0.0, float(lo - y.min()), float(y.max() - hi)) / hi
        o.close("between_min_and_max", viol if numpy.all(numpy.isfinite(y)) else float("inf"), TOL_R, sub="wide%d" % k)
    o.check("azimuthal_vector_same_length_for_every_image", first[1])
    o.outcome(A.round(12))
    return o


def _wide_range_images(n):
    k = numpy.arange(n * n)
    yield (10.0 ** ((k * 7) % 17 - 8.0)).reshape(n, n)
    x = numpy.ones((n, n))
    x[n // 3, n // 2] = 1e12
    yield x


def _dense_images(n):
    k = numpy.arange(n * n)
    yield (k * 7 % 13).reshape(n, n).astype(float)
    yield ((k * k) % 17 - 8.0).reshape(n, n)
    yield numpy.add.outer(numpy.arange(n) ** 2, 3.0 * numpy.arange(n))
    g = numpy.arange(n) - (n - 1) / 2.0
    yield numpy.exp(-numpy.add.outer(g ** 2, g ** 2) / (0.1 * n * n))


def _binary_images(n, block, lo, hi):
    off = (n - block) // 2
    for code in range(lo, hi):
        x = numpy.zeros((n, n))
        bits = [(code >> k) & 1 for k in range(block * block)]
        x[off:off + block, off:off + block] = numpy.array(bits, dtype=float).reshape(block, block)
        yield code, x


def _azbin(p):
    from aotools.image_processing import psf
    o = Out()
    n = p["n"]
    worst, bad = 0.0, None
    cnt = 0
    for code, x in _binary_images(n, p["block"], p["lo"], p["hi"]):
        y = numpy.asarray(psf.azimuthal_average(x.copy()))
        o.stat("lib_calls", 1)
        cnt += 1
        lo, hi = x.min(), x.max()
        v = max(0.0, float(lo - y.min()), float(y.max() - hi))
        if not v <= worst:
            worst, bad = v, code
        if not numpy.all(numpy.isfinite(y)):
            worst, bad = float("inf"), code
    o.check("between_min_and_max", worst <= TOL_R, measure=worst, tol=TOL_R, n=cnt,
            detail=None if worst <= TOL_R else {"code": bad})
    return o


# ----------------------------------------------------------------------------- encircled energy

def _curve_clauses(o, xi, yi, sub, detail=None):
    o.close("ee_starts_at_zero", abs(float(yi[0])), TOL_R, sub=sub, detail=detail)
    o.close("ee_non_decreasing", max(0.0, float(numpy.max(-numpy.diff(yi)))), TOL_R, sub=sub, detail=detail)
    o.close("ee_at_most_one", max(0.0, float(yi.max()) - 1.0), TOL_R, sub=sub, detail=detail)
    o.close("ee_at_least_zero", max(0.0, -float(yi.min())), TOL_R, sub=sub, detail=detail)


class _Diam(object):
    """collects the diameter clauses per fraction so that failing ids are (clause, case, fraction)

    ee_diameter_on_grid          the reported diameter is one finite real number inside the range of the returned abscissae
    ee_diameter_value_adjacent   the returned curve, read at the reported diameter, is not below the largest curve
                                 value <= fraction and not above the smallest curve value >= fraction
    ee_diameter_at_crossing      the reported diameter lies on a segment [x_j, x_j+1] of the returned abscissae on
                                 which the returned curve attains the fraction (end points included: a grid-point
                                 answer and an answer interpolated inside the segment are both accepted)
    """

    def __init__(self):
        self.n = {}
        self.bad = {}

    def add(self, psf, x, xi, yi, label, center=None, fractions=None):
        calls = 0
        xi = numpy.asarray(xi, dtype=float)
        yi = numpy.asarray(yi, dtype=float)
        slack = 4.0 * float(numpy.spacing(max(abs(float(xi[-1])), 1.0)))      # the abscissa recomputed another way
        for fr in (FRACTIONS if fractions is None else fractions):
            d = psf.encircled_energy(x.copy(), fraction=fr) if center is None else psf.encircled_energy(x.copy(), fraction=fr, center=center)
            calls += 1
            key = "f=%g" % fr
            self.n[("ee_diameter_on_grid", key)] = self.n.get(("ee_diameter_on_grid", key), 0) + 1
            try:
                dv = float(d) if numpy.ndim(d) == 0 else float("nan")
            except (TypeError, ValueError):
                dv = float("nan")
            if not (xi[0] - slack <= dv <= xi[-1] + slack):
                self.bad.setdefault(("ee_diameter_on_grid", key), {"image": label, "diameter": repr(d)[:80]})
                continue
            lo, hi = imgops.nearest_values(yi, fr)
            if lo is None or hi is None:
                continue          # the curve never reaches the fraction: nothing to locate
            cv = float(numpy.interp(dv, xi, yi))
            self.n[("ee_diameter_value_adjacent", key)] = self.n.get(("ee_diameter_value_adjacent", key), 0) + 1
            if not (lo - TOL_R <= cv <= hi + TOL_R):
                self.bad.setdefault(("ee_diameter_value_adjacent", key),
                                    {"image": label, "diameter": dv, "curve_there": cv, "adjacent": (lo, hi)})
            y0, y1 = numpy.minimum(yi[:-1], yi[1:]), numpy.maximum(yi[:-1], yi[1:])
            seg = numpy.nonzero((y0 - TOL_R <= fr) & (fr <= y1 + TOL_R))[0]      # segments on which the curve attains fr
            self.n[("ee_diameter_at_crossing", key)] = self.n.get(("ee_diameter_at_crossing", key), 0) + 1
            if not numpy.any((xi[seg] - slack <= dv) & (dv <= xi[seg + 1] + slack)):
                ent = self.bad.setdefault(("ee_diameter_at_crossing", key),
                                          {"image": label, "reported_diameter": dv, "curve_there": cv,
                                           "curve_crosses_between": (float(xi[seg[0]]), float(xi[seg[-1] + 1])) if len(seg) else None,
                                           "images_failing": 0})
                ent["images_failing"] += 1
        return calls

    def flush(self, o):
        for (clause, key), n in sorted(self.n.items()):
            bad = self.bad.get((clause, key))
            o.check(clause, bad is None, sub=None if bad is None else key, detail=bad, n=n,
                    measure=None if bad is None else bad.get("images_failing"))


def _compact_image(n, c):
    """all the flux within a diameter of a quarter of the image about (c, c) (corner-origin coordinates, pixel (i, j)
    has its centre at (i + 0.5, j + 0.5); symmetric, so it does not matter which coordinate is which axis): every
    fraction 0.05 .. 0.95 is reached inside the returned abscissae"""
    g = numpy.arange(n) + 0.5 - c
    return numpy.exp(-numpy.add.outer(g ** 2, g ** 2) / (2.0 * (n / 16.0) ** 2)) + 1e-9


def _eeunit(n, center=None):
    """center=None: the default centre; otherwise the curve and the diameters about a caller-given centre (integer,
    half-integer = a pixel centre in the corner-origin convention, arbitrary) - every clause is the same"""
    from aotools.image_processing import psf
    import aotools
    o = Out()
    o.note("same_function_all_paths:encircled_energy", bool(getattr(aotools, "encircled_energy", None) is psf.encircled_energy))
    dm = _Diam()
    # the centre in the spellings a caller uses (list, tuple, array): the same clauses for each
    spell = [list, tuple, numpy.array]

    def curve(x, k=0):
        xi, yi = psf.encircled_energy(x.copy(), eeDiameter=False) if center is None else \
            psf.encircled_energy(x.copy(), center=spell[k % 3](center), eeDiameter=False)
        return numpy.asarray(xi, dtype=float), numpy.asarray(yi, dtype=float)

    def grid_ok(xi, yi):
        return bool(xi.ndim == 1 and xi.shape == yi.shape and len(xi) >= 2 and xi[0] == 0 and numpy.all(numpy.diff(xi) > 0))
    # unit images carry total energy 1, so column k is the curve of pixel k; the curve of any
    # non-negative image is the convex combination sum_k (x_k / sum x) column_k - provided the abscissae are
    # the same for every image of this size (guarded: otherwise every curve is judged on its own abscissae)
    worst = {"ee_starts_at_zero": 0.0, "ee_non_decreasing": 0.0, "ee_at_most_one": 0.0, "ee_at_least_zero": 0.0}
    cols, grid, common, grids_fine = [], None, True, True
    for k in range(n * n):
        x = numpy.zeros((n, n))
        x.flat[k] = 1.0
        xi, yi = curve(x)
        o.stat("lib_calls", 1)
        if not grid_ok(xi, yi):
            grids_fine = False
            continue
        if grid is None:
            grid = xi
        elif xi.shape != grid.shape or _maxabs(xi - grid) > 4.0 * numpy.spacing(max(float(grid[-1]), 1.0)):
            common = False
        cols.append(yi)
        worst["ee_starts_at_zero"] = max(worst["ee_starts_at_zero"], abs(float(yi[0])))
        worst["ee_non_decreasing"] = max(worst["ee_non_decreasing"], float(numpy.max(-numpy.diff(yi))))
        worst["ee_at_most_one"] = max(worst["ee_at_most_one"], float(yi.max()) - 1.0)
        worst["ee_at_least_zero"] = max(worst["ee_at_least_zero"], -float(yi.min()))
        if not numpy.all(numpy.isfinite(yi)):
            worst["ee_non_decreasing"] = float("inf")
        o.stat("lib_calls", dm.add(psf, x, xi, yi, "unit pixel %d" % k, center))
    o.check("ee_grid_increasing_from_zero", grids_fine)
    for cl, v in worst.items():
        o.check(cl, v <= TOL_R, measure=max(v, 0.0), tol=TOL_R, n=n * n)
    E = None
    if common and grids_fine:
        E = numpy.array(cols).T
    else:
        o.stat("ee_common_grid_not_claimed", 1)
    # convexity / normalisation on dense non-negative images, positive scaling invariance
    for k, x in enumerate(_dense_images(n)):
        x = numpy.abs(x) + (k == 0)
        xi, yi = curve(x, k)
        o.stat("lib_calls", 1)
        if not grid_ok(xi, yi):
            o.check("ee_grid_increasing_from_zero", False, sub="dense%d" % k)
            continue
        w = x.reshape(-1) / x.sum()
        if E is not None and E.shape[0] == len(yi):
            o.close("ee_convex_combination_of_unit_curves", _maxabs(yi - E @ w), TOL_R, sub="dense%d" % k)
        _curve_clauses(o, xi, yi, "dense%d" % k)
        y3 = curve(3.0 * x, k)[1]
        o.close("ee_scale_invariant", _maxabs(y3 - yi) if y3.shape == yi.shape else float("inf"), TOL_R, sub="dense%d" % k)
        # the same image as camera counts in narrow dtypes, scaled to use most of the dtype's range: the curve
        # is a property of the values, not of how they are stored
        for dt, top in ((numpy.uint8, 250), (numpy.uint16, 60000), (numpy.int16, 30000), (numpy.int32, 2 ** 30),
                        (numpy.float32, 1.0)):
            xq = x / x.max() * top
            xq = numpy.floor(xq).astype(dt) if numpy.dtype(dt).kind in "iu" else xq.astype(dt)
            if not xq.any():
                continue
            (xq_i, yq), yf = curve(xq, k), curve(xq.astype(float), k)[1]
            o.stat("lib_calls", 2)
            # float32: 3e-8 on the unchanged library
            o.close("ee_independent_of_storage_dtype", _maxabs(yq - yf) if yq.shape == yf.shape else float("inf"),
                    1e-6 if dt is numpy.float32 else TOL_R, sub="dense%d:%s" % (k, numpy.dtype(dt).name))
            _curve_clauses(o, xq_i, yq, "dense%d:%s" % (k, numpy.dtype(dt).name))
        cen = None if center is None else spell[k % 3](center)
        o.stat("lib_calls", 1 + dm.add(psf, x, xi, yi, "dense%d" % k, cen, FRACTIONS + EXTRA_FRACTIONS))
    # images that decide what the dense ones leave open: all the flux near the centre (every fraction is reached
    # inside the abscissae), 16 decades of dynamic range, one hot pixel of 1e12 on a unit background
    extra = [("wide%d" % k, x) for k, x in enumerate(_wide_range_images(n))]
    if center is None or center[0] == center[1]:
        extra.append(("compact", _compact_image(n, n // 2 if center is None else center[0])))
    for name, x in extra:
        xi, yi = curve(x)
        o.stat("lib_calls", 1)
        if not grid_ok(xi, yi):
            o.check("ee_grid_increasing_from_zero", False, sub=name)
            continue
        _curve_clauses(o, xi, yi, name)
        o.stat("lib_calls", dm.add(psf, x, xi, yi, name, center, FRACTIONS + EXTRA_FRACTIONS))
        if name == "compact":
            o.stat("compact_image_fractions_reached", int(sum(float(yi.max()) >= fr for fr in FRACTIONS + EXTRA_FRACTIONS)))
    dm.flush(o)
    o.outcome(numpy.array(cols).round(12) if common and grids_fine else len(cols))
    return o


def _eebin(p):
    from aotools.image_processing import psf
    o = Out()
    n = p["n"]
    dm = _Diam()
    worst = {"ee_starts_at_zero": 0.0, "ee_non_decreasing": 0.0, "ee_at_most_one": 0.0, "ee_at_least_zero": 0.0}
    cnt = 0
    for code, x in _binary_images(n, p["block"], p["lo"], p["hi"]):
        if code == 0:
            continue
        xi, yi = psf.encircled_energy(x.copy(), eeDiameter=False)
        xi, yi = numpy.asarray(xi), numpy.asarray(yi)
        o.stat("lib_calls", 1)
        cnt += 1
        if not numpy.all(numpy.isfinite(yi)):
            worst["ee_non_decreasing"] = float("inf")
            continue
        worst["ee_starts_at_zero"] = max(worst["ee_starts_at_zero"], abs(float(yi[0])))
        worst["ee_non_decreasing"] = max(worst["ee_non_decreasing"], float(numpy.max(-numpy.diff(yi))))
        worst["ee_at_most_one"] = max(worst["ee_at_most_one"], float(yi.max()) - 1.0)
        worst["ee_at_least_zero"] = max(worst["ee_at_least_zero"], -float(yi.min()))
        o.stat("lib_calls", dm.add(psf, x, xi, yi, "code %d" % code))
    for cl, v in worst.items():
        o.check(cl, v <= TOL_R, measure=max(v, 0.0), tol=TOL_R, n=cnt)
    dm.flush(o)
    return o


def _storage(p):
    """zoom, azimuthal average and encircled energy are functions of the pixel VALUES: other memory layouts and
    dtypes of the same image give the same result"""
    from mc import variants
    from aotools import interpolation
    from aotools.image_processing import psf
    o = Out()
    i, j = numpy.indices((8, 8))
    img = ((3 * i * i + 5 * j + 2 * i * j) % 13 + 1).astype(float)
    fns = {
        "zoom_rbs:order1": lambda a: interpolation.zoom_rbs(a, (11, 11), order=1),
        "zoom_rbs:order3": lambda a: interpolation.zoom_rbs(a, (11, 11), order=3),
        "azimuthal_average": lambda a: psf.azimuthal_average(a),
        "encircled_energy:curve": lambda a: psf.encircled_energy(a, eeDiameter=False)[1],
        "encircled_energy:d50": lambda a: psf.encircled_energy(a),
        "binImgs:2": lambda a: interpolation.binImgs(a, 2),
    }
    try:
        interpolation.zoom(numpy.ones((4, 4)), (4, 4))
        fns["zoom:order1"] = lambda a: interpolation.zoom(a, (11, 11), order=1)
        fns["zoom:order3"] = lambda a: interpolation.zoom(a, (11, 11), order=3)
    except Exception:
        pass      # reported by entry_point_callable
    for name, f in fns.items():
        n = variants.check_storage(o, "result_independent_of_storage", f, img, 1e-10, sub=name)
        o.stat("lib_calls", n)
    cimg = img + 1j * img.T
    for name in ("zoom_rbs:order3", "zoom:order3"):
        if name in fns:
            n = variants.check_storage(o, "result_independent_of_storage", fns[name], cimg, 1e-10, sub=name + ":complex")
            o.stat("lib_calls", n)
    return o


def _large(p):
    """sizes beyond the exhaustive alphabets (block-wise implementations change behaviour above 64/128/256):
    binning of 260 x 140 images and of stacks of 130 frames, azimuthal average and encircled energy of 130- and
    258-pixel images, zoom of a 70 x 70 array"""
    from aotools import interpolation
    from aotools.image_processing import psf
    o = Out()
    img = numpy.fromfunction(lambda a, b: (a * 7 + b * 3) % 11 + 1.0 + 0.125 * ((a * b) % 8), (260, 140))  # dyadic: sums are exact in any order
    for n in (2, 4, 10):
        got = numpy.asarray(interpolation.binImgs(img.copy(), n))
        o.check("block_sums_exact_large", got.shape == (260 // n, 140 // n) and numpy.array_equal(got, imgops.block_sum(img, n)),
                sub="2d:n=%d" % n)
    # the bin factor in every spelling a pixel-scale ratio produces: ints, numpy ints, floats holding a whole number
    # (judged: block sums), and floats a rounding error away from the whole number (0.3 / 0.1 = 2.9999999999999996,
    # 0.1 * 3 / 0.1 = 3.0000000000000004): the statement speaks of binning by n for whole n, so for those an
    # implementation may take the nearest whole number or refuse (an exception) - any other result is a violation
    small = img[:12, :24]
    for n_, forms in ((3, (3, 3.0, 0.3 / 0.1, 0.1 * 3 / 0.1 if 0.1 * 3 / 0.1 != 3.0 else 3.0000000000000004, numpy.float64(3.0), numpy.int64(3), numpy.float32(3.0))),
                      (2, (2, 2.0, 1.2 / 0.6, 0.2 / 0.1, 2.0000000000000004, numpy.int32(2))), (4, (4, 4.0, 0.4 / 0.1, 3.9999999999999996, numpy.uint8(4)))):
        want = imgops.block_sum(small, n_)
        for f_ in forms:
            whole = float(f_) == n_
            sub = "n=%r (%s)" % (f_, type(f_).__name__)
            o.stat("lib_calls", 1)
            try:
                got = numpy.asarray(interpolation.binImgs(small.copy(), f_))
            except Exception as e:
                if whole:
                    o.check("bin_factor_in_any_spelling", False, sub=sub, detail="%s: %s" % (type(e).__name__, str(e)[:200]))
                else:
                    o.check("bin_factor_in_any_spelling", True)
                    o.stat("bin_factor_near_integer_refused", 1)
                continue
            o.check("bin_factor_in_any_spelling", got.shape == want.shape and numpy.array_equal(got, want),
                    sub=sub, detail=got.shape)
    st = numpy.array([numpy.roll(img[:20, :12], k, 0) + k for k in range(130)])
    got = numpy.asarray(interpolation.binImgs(st.copy(), 2))
    o.check("block_sums_exact_large", got.shape == (130, 10, 6) and numpy.array_equal(got, imgops.block_sum(st, 2)), sub="stack130")
    st4 = st.reshape(10, 13, 20, 12)                  # the 130 frames on two leading axes
    got = numpy.asarray(interpolation.binImgs(st4.copy(), 2))
    o.check("block_sums_exact_large", got.shape == (10, 13, 10, 6) and numpy.array_equal(got, imgops.block_sum(st4, 2)), sub="stack10x13")
    o.stat("lib_calls", 5)
    # block sums beyond the range of a narrow input dtype ("exactly the n x n block sums": the values, whatever the
    # result dtype).  Judged since the repair 0ef4841 of /repo (uint8 200 binned by 2 had come back as 32).
    for dt, val in (("uint8", 200), ("uint8", 255), ("int8", 127), ("int8", -128), ("uint16", 60000), ("int16", -30000),
                    ("uint32", 2 ** 32 - 1), ("int32", -2 ** 31), ("bool", 1)):
        for shp, n_ in (((4, 4), 2), ((6, 9), 3), ((3, 4, 4), 2), ((2, 2, 8, 4), 4)):
            x = numpy.full(shp, val, dtype=dt)
            x[..., 0, 0] = 0 if dt != "bool" else False
            want = imgops.block_sum(x.astype(object) if False else x.astype(numpy.int64), n_)
            try:
                got = numpy.asarray(interpolation.binImgs(x.copy(), n_))
                ok = got.shape == want.shape and numpy.array_equal(got.astype(numpy.float64), want.astype(numpy.float64))
                o.check("block_sums_exact_beyond_the_input_dtype", ok, sub="%s:%s:%s:n=%d" % (dt, val, "x".join(map(str, shp)), n_),
                        detail=None if ok else {"got": got.reshape(-1)[:4], "want": want.reshape(-1)[:4], "dtype": str(got.dtype)})
            except Exception as e:
                o.check("block_sums_exact_beyond_the_input_dtype", False, sub="%s:%s:%s:n=%d" % (dt, val, "x".join(map(str, shp)), n_),
                        detail="%s: %s" % (type(e).__name__, e))
            o.stat("lib_calls", 1)
    dm = _Diam()
    for n in (130, 258):
        c = numpy.full((n, n), 3.25)
        a = numpy.asarray(psf.azimuthal_average(c.copy()), dtype=float)
        o.close("constant_gives_constant_large", _maxabs(a - 3.25), 1e-12, sub="n=%d" % n)
        d = numpy.fromfunction(lambda y, x: numpy.exp(-((y - n / 2) ** 2 + (x - n / 2) ** 2) / (2.0 * (n / 9.0) ** 2)) + 0.01 * ((y + x) % 5), (n, n))
        a = numpy.asarray(psf.azimuthal_average(d.copy()), dtype=float)
        o.check("between_min_and_max_large", bool(numpy.all(a >= d.min() - 1e-12) and numpy.all(a <= d.max() + 1e-12)), sub="n=%d" % n)
        xi, yi = psf.encircled_energy(d.copy(), eeDiameter=False)
        _curve_clauses(o, numpy.asarray(xi), numpy.asarray(yi), "large:n=%d" % n)
        o.stat("lib_calls", 3)
        # the diameters at these sizes, on the image above and on a compact one (every fraction reached), about
        # the default centre and (130) about a caller-given pixel centre
        for name, x, cen in (("dense", d, None), ("compact", _compact_image(n, n // 2), None),
                             ("compact_centre", _compact_image(n, n // 2 - 8.5), (n // 2 - 8.5, n // 2 - 8.5)))[:3 if n == 130 else 2]:
            xi, yi = psf.encircled_energy(x.copy(), eeDiameter=False) if cen is None else \
                psf.encircled_energy(x.copy(), center=cen, eeDiameter=False)
            xi, yi = numpy.asarray(xi, dtype=float), numpy.asarray(yi, dtype=float)
            if xi.ndim != 1 or xi.shape != yi.shape or len(xi) < 2:
                o.check("ee_grid_increasing_from_zero", False, sub="large:n=%d:%s" % (n, name))
                continue
            _curve_clauses(o, xi, yi, "large:n=%d:%s" % (n, name))
            o.stat("lib_calls", 1 + dm.add(psf, x, xi, yi, "n=%d %s" % (n, name), cen, FRACTIONS + EXTRA_FRACTIONS))
    dm.flush(o)
    # observation only (the statement does not fix the default fraction)
    try:
        dd = psf.encircled_energy(d.copy())
        o.note("ee_default_fraction", [fr for fr in FRACTIONS if psf.encircled_energy(d.copy(), fraction=fr) == dd])
    except Exception as e:
        o.note("ee_default_fraction", type(e).__name__)
    # call histories on one caller-owned image: handed over again unchanged, and again after an in-place edit
    from mc import variants
    im = numpy.fromfunction(lambda y, x: (y * 5 + x * 3) % 7 + 0.5 * y + 1.0, (8, 8))
    hist = {"binImgs": lambda a: interpolation.binImgs(a, 2), "azimuthal_average": lambda a: psf.azimuthal_average(a),
            "encircled_energy": lambda a: numpy.concatenate([numpy.ravel(v) for v in psf.encircled_energy(a, eeDiameter=False)]),
            "ee_diameter": lambda a: numpy.array([psf.encircled_energy(a)])}
    for fn_name in ("zoom_rbs", "zoom"):
        for order in (1, 3):
            hist["%s:order=%d:same" % (fn_name, order)] = lambda a, f_=fn_name, o_=order: getattr(interpolation, f_)(a, (8, 8), order=o_)
            hist["%s:order=%d:15" % (fn_name, order)] = lambda a, f_=fn_name, o_=order: getattr(interpolation, f_)(a, (15, 15), order=o_)
    k = 0
    for name, f in hist.items():
        try:
            f(im.copy())
        except NotImplementedError:
            continue
        k += variants.check_reuse(o, "image", f, im, 1e-12, sub=name,
                                  mutate=lambda a: a.__setitem__(Ellipsis, a[::-1, :].copy() * 1.5 + 2.0))
    o.stat("lib_calls", k)
    z = numpy.fromfunction(lambda y, x: 0.5 * y - 0.25 * x + 0.01 * y * x, (70, 70))
    for fn_name in ("zoom_rbs", "zoom"):
        try:
            out = numpy.asarray(getattr(interpolation, fn_name)(z.copy(), (139, 139), order=3))
        except NotImplementedError:
            continue
        xs = numpy.linspace(0, 69, 139)
        want = 0.5 * xs[:, None] - 0.25 * xs[None, :] + 0.01 * xs[:, None] * xs[None, :]
        ok = out.shape == (139, 139)
        o.close("polynomial_exact_large", _maxabs(out - want) / _maxabs(want) if ok else float("inf"), 1e-10, sub=fn_name)
        o.stat("lib_calls", 1)
        # every order with a polynomial of exactly that degree in each variable (a lower-order or smoothing branch
        # for large arrays does not reproduce it), up (70 -> 139) and down (139 -> 93); a sample-coded image that
        # must come back at the old nodes (70 -> 139) and unchanged (130 -> 130). Unchanged library: <= 5e-15.
        f = getattr(interpolation, fn_name)

        def poly(m, new, k, tensor):
            """0.5 x^k - 0.25 y^k + x y^(k-1) (total degree k) [+ x^k y^k] on the grid of `new` samples, x, y in 0..1"""
            g = numpy.array([float(t) for t in imgops.zoom_grid(m, new)]) / (m - 1.0)
            u, one = g ** k, numpy.ones(new)
            v = 0.5 * numpy.outer(u, one) - 0.25 * numpy.outer(one, u) + numpy.outer(g, g ** (k - 1))
            return v + numpy.outer(u, u) if tensor else v

        def coded(m):
            i, j = numpy.indices((m, m))
            return (i * i * 7 + j * 13 + i * j * 3) % 17 - 8.0
        for order in (1, 3, 5):
            for m, new in ((70, 139), (139, 93)):
                err = {}
                for tensor in (False, True):
                    want = poly(m, new, order, tensor)
                    out = numpy.asarray(f(poly(m, m, order, tensor), (new, new), order=order))
                    err[tensor] = _maxabs(out - want) / _maxabs(want) if out.shape == want.shape else float("inf")
                    o.stat("lib_calls", 1)
                # x^k y^k is demanded as long as the library reproduces it (tensor-product engine, see ASSUMPTIONS)
                if not err[True] <= 1e-10 and err[False] <= 1e-10:
                    o.stat("polynomial_tensor_degree_not_claimed", 1)
                o.close("polynomial_exact_large", max(err[False], err[True]) if err[True] <= 1e-10 else err[False],
                        1e-10, sub="%s:order=%d:%d->%d" % (fn_name, order, m, new))
            r = coded(70)
            out = numpy.asarray(f(r.copy(), (139, 139), order=order))
            o.close("passes_through_nodes_large", _maxabs(out[::2, ::2] - r) / 8.0 if out.shape == (139, 139) else float("inf"),
                    1e-10, sub="%s:order=%d:70->139" % (fn_name, order))
            r = coded(130)
            out = numpy.asarray(f(r.copy(), (130, 130), order=order))
            o.close("identity_same_size_large", _maxabs(out - r) / 8.0 if out.shape == (130, 130) else float("inf"),
                    1e-10, sub="%s:order=%d:130" % (fn_name, order))
            o.stat("lib_calls", 2)
    return o
