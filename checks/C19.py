"""C19 Empirical estimators implement their definitions.

Structure function (slopecovariance.calculate_structure_function): E1 over every array shape
(a, b), every (nbOfPoint, step) whose lags all overlap, and E2 over the input: the estimator is
a quadratic form in the image, so its values on EVERY unit image e_p and EVERY pair e_p + e_q
determine it for all inputs of that shape; each is compared with the definition coded as
explicit loops.  Lag 0, ramps (closed form) and the amplitude law are separate clauses.
'Applied to generated screens': ft_phase_screen is linear in its Gaussian draws, so the
exact ensemble mean of the estimator over ALL screens is sum_k estimator(T e_k) over the
2 N^2 unit draw vectors (mc.env.SeqGenerator) - no Monte-Carlo - and is compared with the
analytic von Karman structure function on a refinement ladder.

Temporal power spectrum (temporal_ps.calc_slope_temporalps / get_tps_time_axis): every frame
count, sub-aperture count and leading shape in the bound, all unit inputs and pairs (quadratic
form again), all pure sinusoid bins, band-limited Parseval, amplitude law, frequency axis for
every (rate, n) pair.

Lag 0: an implementation that allocates its output with numpy.empty and never writes lag 0 (an
earlier state of the library did; the current one uses numpy.zeros) returns whatever the allocator
hands out; to make the verdict on that clause deterministic the check recycles sentinel-filled
blocks of the same size through NumPy's small-block cache immediately before every call (a correct
implementation writes lag 0 and is unaffected).

What is NOT judged: how many lags / bins are returned beyond the ones every reading of the
documentation agrees on (see ASSUMPTIONS), the second return value of calc_slope_temporalps, the
private draw layout of ft_phase_screen (only: normal draws, linear response - both tested on the
library under test first; when they do not hold the screens clauses are 'not claimed').
"""
import itertools
import math
import warnings

import numpy

from mc import Out, Case
from mc.env import unit_draws, SeqGenerator
from mc.refmodels import estimators as est
from mc.refmodels import vk_closed_forms as vk

PROPERTY = "C19"
LEVEL = "exploration"
ENGINES = ["E1-product-enumeration", "E2-basis-exhaustion", "E5-environment-answers"]
TECHNIQUE = ("bounded exhaustive enumeration of shapes x (nbOfPoint, step) x all unit images and pairs "
             "(quadratic-form exhaustion) against the definitions; exact ensemble mean over all screens from the "
             "draw-response operator of ft_phase_screen; all frame counts x sub-apertures x leading shapes x unit/pair/"
             "sinusoid inputs for the temporal power spectrum")
RULE = ("cases = sf:{a x b} + lag0:{a} + sfscreen:{N ladder} + sfscreen_lin + tps:{n_frames} + tpsaxis + storage + "
        "many_subaps + tps_long:{n_frames} + sf_large:{shape} + sf_default + calling + reuse; an sf case "
        "loops over every (nbOfPoint in 1..a+1 and default, step in 1..3 and default) in the domain and over all unit "
        "images and pairs; non-trivial when a != b or step > 1 exists in the domain (always), tps non-trivial for n >= 4")
ASSUMPTIONS = [
    "domain of the structure-function clauses: calls whose documented lag count min(nbOfPoint, b/step - 1) keeps every "
    "lag j*step < a (a lag with no overlapping rows has no defined mean); other combinations are counted in the "
    "evidence notes and not called. Of the result, every returned lag j with j*step < a is compared with the definition",
    "the number of returned lags (documented: min(nbOfPoint, b/step - 1), which uses the SECOND axis length although "
    "the shift is along the first) is not part of the statement: judged is only that the result is 1-D, has at most "
    "nbOfPoint entries and at least as many as BOTH the documented count and the count bounded by the shifted axis "
    "min(nbOfPoint, (a-1)//step + 1) give; a deviation from the documented count is recorded as a note",
    "lag 0: the verdict is 'value != 0 after sentinel blocks of the same size were recycled through the allocator'; "
    "on an implementation that writes lag 0 this is independent of memory contents",
    "sf_ramp_on_large_piston reads 'mean squared DIFFERENCE' as an algorithmic promise: a dyadic ramp on a piston of "
    "up to 2^26 must come out to 1e-9 (exact when differences are formed first); an estimator that expands "
    "<x^2>+<y^2>-2<xy> (autocorrelation / FFT based) loses eps*piston^2/diff^2 ~ 0.5 there and is rejected",
    "screens clause: ensemble induced by an injected Generator (unit draws; premise 'only normal() draws, screen "
    "linear in them, zero draws -> zero screen' is tested first and the clause is not claimed when it fails), ladder "
    "N = 8,16,32(,64) at fixed N delta = 4 L0, separations L0/2 and L0; bounded surrogate of 'follows the analytic "
    "structure function': error <= 25 % at N = 32 (<= 8 % at N = 64) and at the finest N less than half of the error at "
    "N = 8; measured 59/24/8.2/2.4 % (the tolerances are 3x the measured values: the residual is the discretisation of "
    "ft_phase_screen, not the estimator, whose exact agreement with the definition on the ensemble is a separate clause)",
    "Parseval is decided on band-limited real signals (DC and sinusoids at bins 1 <= k < floor(n/2)), with the weights "
    "1 (DC, Nyquist), 2 (0 < k < n/2), 0 (mirror bins k > n/2) on whatever bins are returned",
    "number of spectrum bins / axis entries: at least floor(n/2) (documented) and at most n; every returned bin k is "
    "compared with |DFT_k|^2, every returned axis entry k < n/2 with k*rate/n; the second return value of "
    "calc_slope_temporalps (a tuple is unpacked when one is returned) is not judged",
    "calling conventions: the documented keyword names nbOfPoint / step, numpy integer scalars, and float values that "
    "are whole numbers (the library converts step with int(); the default nbOfPoint is itself the float b/4) must give "
    "the result of the positional int call",
    "tolerance 1e-12 relative to the largest value for identities (measured <= 5e-14 with the reference DFT whose "
    "phases are reduced mod n; <= 2e-15 for the structure function); 1e-10 for records of >= 1000 frames "
    "(measured <= 2e-14)",
]
TOL = 1e-12
TOL_LONG = 1e-10        # records of >= 1000 frames; measured <= 2e-14 on the unchanged library
SENTINEL = 12345.678
BIG = (2.0 ** -27, 2.0 ** 27)       # amplitude factors far from 1 (powers of two: the scaling itself is exact)


def _ab(tier):
    return range(2, 7) if tier == "quick" else range(2, 10)


def _frames(tier):
    # every small frame count, plus counts with a large prime factor (13, 17, 19, 23, 26 = 2*13, ...): FFT
    # implementations treat those differently from 2/3/5/7/11-smooth lengths
    if tier == "quick":
        return list(range(2, 17)) + [17, 19, 23, 26, 29, 34, 37, 46]
    return list(range(2, 41)) + [46, 58, 62, 74, 97, 101, 127, 202]


def _long_frames(tier):
    # long records (real ones have 10^3 - 10^5 frames): smooth, power of two, odd composite, prime (8191)
    return [1000, 4096] if tier == "quick" else [1000, 2187, 4096, 8191]


LONG_SUBAPS = [2, 70]               # 1000 x 70 and 4096 x 70 values: beyond 2^16 elements


def _ladder(tier):
    return [8, 16, 32] if tier == "quick" else [8, 16, 32, 64]


LEADS = [(), (2,), (2, 2)]
SUBAPS = [1, 2, 3]
RATES = [1.0, 50.0, 150.5, 500.0, 1000.0, 100, 3]        # the last two are Python ints
SCREEN = {"r0": 0.2, "L0": 2.0, "extent_in_L0": 4.0}
# 3x the error measured on the unchanged library (0.082 / 0.024): what remains at these N is the discretisation
# of ft_phase_screen (fixed extent 4 L0, PSD constant 0.023), which is not the subject of this property
LADDER_END_TOL = {32: 0.25, 64: 0.08}
LARGE_SHAPES = [(1024, 256), (257, 1030)]
DEFAULT_SHAPES = [(a, b) for a in (5, 16, 40) for b in (16, 20, 33)]


def BOUNDS(tier):
    return {"sf_shapes": "all (a,b), a,b in %d..%d" % (min(_ab(tier)), max(_ab(tier))),
            "nbOfPoint": "1..a+1 and default", "step": "1..3 and default",
            "sf_inputs": "all a*b unit images, all pairs e_p+e_q, 4 dense images, ramps of 4 slopes, all-zero image, "
                         "amplitude factors 2, -3, 2^-27, 2^27",
            "sf_default_nbOfPoint_shapes": [list(s) for s in DEFAULT_SHAPES], "sf_default_steps": [None, 2, 3],
            "sf_large_shapes": [list(s) for s in LARGE_SHAPES] + [[130, 70]], "sf_large_params": "nbOfPoint None/64/30, step default/1/7",
            "largest_phase_array": "1024 x 256 and 257 x 1030",
            "screen_ladder_N": _ladder(tier), "screen": SCREEN, "screen_steps": [1, 2],
            "tps_frames": list(_frames(tier)), "tps_subaps": SUBAPS, "tps_leading_shapes": [list(l) for l in LEADS],
            "tps_long_frames": _long_frames(tier), "tps_long_subaps": LONG_SUBAPS,
            "largest_slope_record": "%d frames x 70 sub-apertures" % max(_long_frames(tier)),
            "tps_many_subaps": "8, 9 frames x 127..300 sub-apertures",
            "tps_axis": {"rates": RATES, "n_frames": "1..33 (int and numpy.int64), 1000, 4096, 8191"}}


def cases(tier):
    for a in _ab(tier):
        for b in _ab(tier):
            yield Case("sf:a=%d:b=%d" % (a, b), {"kind": "sf", "a": a, "b": b})
        yield Case("lag0:a=%d" % a, {"kind": "lag0", "a": a, "bs": list(_ab(tier))})
    for N in _ladder(tier):
        yield Case("sfscreen:N=%d" % N, {"kind": "sfscreen", "N": N})
    yield Case("sfscreen_lin:N=8", {"kind": "sfscreen_lin", "N": 8})
    for n in _frames(tier):
        yield Case("tps:n=%d" % n, {"kind": "tps", "n": n}, n >= 4)
    yield Case("tpsaxis", {"kind": "tpsaxis"})
    yield Case("storage", {"kind": "storage"})
    yield Case("many_subaps", {"kind": "many"})
    for n in _long_frames(tier):
        yield Case("tps_long:n=%d" % n, {"kind": "tps_long", "n": n})
    for a, b in LARGE_SHAPES:
        yield Case("sf_large:a=%d:b=%d" % (a, b), {"kind": "sf_large", "a": a, "b": b})
    yield Case("sf_default", {"kind": "sf_default"})
    yield Case("calling", {"kind": "calling"})
    yield Case("reuse", {"kind": "reuse"})


# ----------------------------------------------------------------------------- helpers

def _sc():
    from aotools.turbulence import slopecovariance
    return slopecovariance


def _dirty(n):
    """recycle 8 sentinel-filled float64 blocks of n elements through the allocator"""
    if n > 0:
        blocks = [numpy.full(n, SENTINEL) for _ in range(8)]
        del blocks


def _expected_len(b, nb, step):
    """the DOCUMENTED number of lags (used to choose which calls are in the domain, and as a note; not judged)"""
    nbv = b / 4 if nb is None else nb
    st = 1 if step is None else step
    return int(min(nbv, b / st - 1)), st


def _len_bounds(a, b, nb, step):
    """(lo, hi) for the number of returned lags: at least what BOTH the documented count and the count bounded by
    the shifted axis give, at most nbOfPoint (default: the larger of the two quarter lengths)"""
    doc, st = _expected_len(b, nb, step)
    alt = (a - 1) // st + 1
    if nb is None:
        lo = min(doc, int(min(a / 4, alt)), int(min(b / 4, alt)))
        hi = max(int(a / 4), int(b / 4))
    else:
        lo = min(doc, int(min(nb, alt)))
        hi = int(nb)
    return max(0, lo), hi


def _judged(got, a, st):
    """number of leading entries of a result that are lags with overlapping rows (j*step <= a-1)"""
    return min(len(got), (a - 1) // st + 1)


def _call_sf(sc, phase, nb, step, xm):
    _dirty(xm)
    with warnings.catch_warnings():
        warnings.simplefilter("ignore")
        if nb is None and step is None:
            r = sc.calculate_structure_function(phase)
        elif step is None:
            r = sc.calculate_structure_function(phase, nb)
        elif nb is None:
            r = sc.calculate_structure_function(phase, step=step)
        else:
            r = sc.calculate_structure_function(phase, nb, step)
    return numpy.asarray(r)


def _len_ok(got, a, b, nb, step):
    lo, hi = _len_bounds(a, b, nb, step)
    return got.ndim == 1 and lo <= got.shape[0] <= hi


def _params(a, b):
    """every (nbOfPoint, step) of the alphabet; yields (nb, step, nlags, st, in_domain)"""
    for step in (None, 1, 2, 3):
        for nb in [None] + list(range(1, a + 2)):
            xm, st = _expected_len(b, nb, step)
            if xm < 1:
                yield nb, step, xm, st, None          # empty result: nothing to judge
            else:
                yield nb, step, xm, st, (xm - 1) * st < a


def _dense_images(a, b):
    idx = numpy.arange(a * b).reshape(a, b)
    yield "mod7", ((idx * 5 + 3) % 7 - 3).astype(float)
    yield "squares", ((idx % 4) ** 2 - 1.5 * (idx % 3)).astype(float)
    yield "int_dtype", ((idx * 3 + 1) % 5 - 2).astype(numpy.int64)
    yield "irrational", numpy.sin(1.0 + idx * 0.7) * 2.5


def evaluate(p):
    return {"sf": _sf, "lag0": _lag0, "sfscreen": _sfscreen, "sfscreen_lin": _sfscreen_lin,
            "tps": _tps, "tpsaxis": _tpsaxis, "storage": _storage, "many": _many, "tps_long": _tps_long,
            "sf_large": _sf_large, "sf_default": _sf_default, "calling": _calling, "reuse": _reuse}[p["kind"]](p)


def _nanmax(x):
    x = numpy.asarray(x, dtype=float)
    if x.size == 0:
        return 0.0
    if numpy.any(numpy.isnan(x)):
        return float("inf")
    return float(numpy.max(x))


def _dev(got, want, J, scale=None):
    """max |got[1:J] - want[1:J]| / scale (scale default: largest |want|)"""
    if J < 2:
        return 0.0
    w = numpy.asarray(want, dtype=float)[1:J]
    if scale is None:
        scale = max(1e-300, _nanmax(numpy.abs(w)))
    return _nanmax(numpy.abs(numpy.asarray(got, dtype=float)[1:J] - w)) / scale


# ----------------------------------------------------------------------------- structure function

def _sf(p):
    o = Out()
    sc = _sc()
    a, b = p["a"], p["b"]
    n = a * b
    outside = 0
    undoc = 0
    full = {}                        # step -> (nb, xm) with the most lags in the domain
    w_def = w_ramp = w_quad = w_trunc = w_piston = w_big = 0.0
    bad_len = []
    nonzero = []
    for nb, step, xm, st, dom in _params(a, b):
        if dom is None:
            continue
        if not dom:
            outside += 1
            continue
        if st not in full or xm > full[st][1]:
            full[st] = (nb, xm, step)
        # definition on dense images, lags >= 1 (lag 0 has its own clause)
        for name, img in _dense_images(a, b):
            got = _call_sf(sc, img.copy(), nb, step, xm)
            o.stat("lib_calls", 1)
            if not _len_ok(got, a, b, nb, step):
                bad_len.append((nb, step, got.shape))
                continue
            undoc += int(got.shape[0] != xm)
            J = _judged(got, a, st)
            want = numpy.array(est.structure_function(img.tolist(), J, st))
            scale = max(1e-300, float(numpy.max(numpy.abs(want))))
            if J > 1:
                w_def = max(w_def, _dev(got, want, J, scale))
                # quadratic in amplitude: x2 -> x4, x(-3) -> x9; and far from 1 (x 2^-27, x 2^27: an absolute floor /
                # epsilon, or a clip, in the estimator shows only there)
                for c in (2.0, -3.0) + BIG:
                    g2 = _call_sf(sc, (img * c).copy(), nb, step, xm)
                    o.stat("lib_calls", 1)
                    d = _dev(g2, c * c * got[:J], min(J, len(g2)), c * c * scale) if len(g2) >= J else float("inf")
                    if c in BIG:
                        w_big = max(w_big, d)
                    else:
                        w_quad = max(w_quad, d)
        # an all-zero phase has structure function exactly 0 at every lag (every difference is exactly 0)
        got = _call_sf(sc, numpy.zeros((a, b)), nb, step, xm)
        o.stat("lib_calls", 1)
        J = _judged(got, a, st) if got.ndim == 1 else 0
        if J and not numpy.all(got[:J] == 0.0):
            nonzero.append((nb, step, got[:J].tolist()))
        # ramps: slope s along the first axis (plus arbitrary column offsets) -> s^2 (j step)^2
        for s in (1.0, -2.0, 0.5, 3.0):
            ramp = s * numpy.arange(a)[:, None] + (numpy.arange(b)[None, :] * 1.75 - 2.0)
            got = _call_sf(sc, ramp, nb, step, xm)
            o.stat("lib_calls", 1)
            J = _judged(got, a, st) if got.ndim == 1 else 0
            if J > 1:
                want = (s * numpy.arange(J) * st) ** 2
                w_ramp = max(w_ramp, _nanmax(numpy.abs(got[1:J] - want[1:]) / want[1:]))
            # the same ramp riding on a large piston (a screen with its mean level left in; dyadic values, so every
            # difference is exact): only differences enter the definition, the piston must cancel completely
            for piston in (2.0 ** 10, 2.0 ** 20, 2.0 ** 26):
                got = _call_sf(sc, ramp + piston, nb, step, xm)
                o.stat("lib_calls", 1)
                J = _judged(got, a, st) if got.ndim == 1 else 0
                if J > 1:
                    want = (s * numpy.arange(J) * st) ** 2
                    w_piston = max(w_piston, _nanmax(numpy.abs(got[1:J] - want[1:]) / want[1:]))
    o.close("sf_ramp_on_large_piston", w_piston, 1e-9)
    o.stat("sf_param_combinations_outside_domain", outside)
    if undoc:
        o.note("sf_lag_count_differs_from_documented_formula:a=%d:b=%d" % (a, b), undoc)
    o.check("sf_result_length", not bad_len, detail="(nbOfPoint, step, shape) %s" % (bad_len[:3],))
    o.close("sf_definition", w_def, TOL, detail="dense images, all (nbOfPoint, step) in the domain, lags >= 1")
    o.close("sf_ramp_closed_form", w_ramp, TOL)
    o.close("sf_quadratic_in_amplitude", w_quad, TOL)
    o.close("sf_quadratic_in_amplitude_far_from_1", w_big, TOL, detail="amplitude x 2^-27 and x 2^27")
    o.check("sf_zero_phase_gives_zero", not nonzero, detail="(nbOfPoint, step, result) %s" % (nonzero[:2],))
    # truncation: a smaller nbOfPoint returns a prefix of the longest result
    for st, (nb, xm, step) in full.items():
        img = list(_dense_images(a, b))[3][1]
        long = _call_sf(sc, img.copy(), nb, step, xm)
        for nb2 in range(1, xm):
            short = _call_sf(sc, img.copy(), nb2, step, nb2)
            o.stat("lib_calls", 1)
            if short.ndim != 1 or long.ndim != 1:
                continue                     # reported by sf_result_length
            J = min(_judged(short, a, st), _judged(long, a, st))
            if J > 1:
                w_trunc = max(w_trunc, _nanmax(numpy.abs(short[1:J] - long[1:J])) / max(1e-300, _nanmax(numpy.abs(long[1:J]))))
    o.close("sf_prefix_consistent", w_trunc, TOL)
    # quadratic-form exhaustion: all unit images and all pairs, at the longest lag set of each step
    w_unit = w_pair = w_rec = 0.0
    for st, (nb, xm, step) in full.items():
        if xm < 2:
            continue
        probe = _call_sf(sc, numpy.zeros((a, b)), nb, step, xm)
        J = _judged(probe, a, st) if probe.ndim == 1 else 0
        if J < 2:
            continue                         # reported by sf_result_length
        Q1 = numpy.zeros((n, J))
        for k in range(n):
            e = numpy.zeros(n)
            e[k] = 1.0
            img = e.reshape(a, b)
            got = _call_sf(sc, img, nb, step, xm)[:J]
            Q1[k] = got
            want = numpy.array(est.structure_function(img.tolist(), J, st))
            w_unit = max(w_unit, _nanmax(numpy.abs(got[1:] - want[1:])))
        o.stat("lib_calls", n)
        # closed form of the definition on pairs: Q(e_p+e_q) = Q(e_p)+Q(e_q) - 2/(count_j) if q = p +- shift rows
        M = numpy.zeros((J, n, n))          # bilinear coefficients recovered from the real code
        for k in range(n):
            for l in range(k + 1, n):
                e = numpy.zeros(n)
                e[k] = 1.0
                e[l] = 1.0
                img = e.reshape(a, b)
                got = _call_sf(sc, img, nb, step, xm)[:J]
                want = numpy.array(est.structure_function(img.tolist(), J, st))
                w_pair = max(w_pair, _nanmax(numpy.abs(got[1:] - want[1:])))
                M[:, k, l] = 0.5 * (got - Q1[k] - Q1[l])
        o.stat("lib_calls", n * (n - 1) // 2)
        # polarisation: a dense image must be reproduced from the unit/pair responses (quadratic-form premise)
        x = numpy.sin(1.0 + numpy.arange(n) * 0.7) * 2.5
        got = _call_sf(sc, x.reshape(a, b).copy(), nb, step, xm)[:J]
        o.stat("lib_calls", 1)
        rec = Q1.T @ (x * x) + 2.0 * numpy.einsum("jkl,k,l->j", M, x, x)
        w_rec = max(w_rec, _nanmax(numpy.abs(got[1:] - rec[1:])) / max(1e-300, _nanmax(numpy.abs(got[1:]))))
    o.close("sf_definition_unit_images", w_unit, TOL, detail="every unit image e_p, every step, longest lag set")
    o.close("sf_definition_unit_pairs", w_pair, TOL, detail="every pair e_p+e_q")
    o.close("sf_is_quadratic_form", w_rec, 1e-10)
    o.outcome([a, b, sorted(full)])
    return o


def _lag0(p):
    """value 0 at lag 0, for every b, (nbOfPoint, step) and several images of first-axis length a"""
    o = Out()
    sc = _sc()
    a = p["a"]
    bad = []
    n = 0
    armed = 0
    for b in p["bs"]:
        for nb, step, xm, st, dom in _params(a, b):
            if not dom:
                continue
            # is the allocator recycling? (evidence only)
            _dirty(xm)
            probe = numpy.empty(xm)
            armed += int(probe[0] == SENTINEL)
            del probe
            for name, img in _dense_images(a, b):
                got = _call_sf(sc, img.copy(), nb, step, xm)
                n += 1
                # the number of lags is judged by sf_result_length (sf cases); here only the value at lag 0
                if got.ndim != 1 or got.shape[0] < 1:
                    o.stat("sf_lag0_no_lag_returned", 1)
                    continue
                if not (got[0] == 0.0):
                    bad.append((b, nb, step, name, float(got[0])))
    o.stat("lib_calls", n)
    o.note("allocator_recycles_sentinel_blocks", armed > 0)
    o.check("sf_lag0_zero", not bad, n=n, measure=len(bad), tol=0,
            detail=None if not bad else "%d of %d calls return a non-zero lag 0, e.g. phase shape (%d,%d) nbOfPoint=%s step=%s "
            "image=%s -> sf[0]=%r" % (len(bad), n, a, bad[0][0], bad[0][1], bad[0][2], bad[0][3], bad[0][4]))
    o.outcome([a, len(bad) > 0])
    return o


def _sf_fast_check(o, sc, clause, ph, nb, st, sub, tol=TOL):
    """one call on a large array against the vectorised definition; every returned lag with overlap is judged"""
    a, b = ph.shape
    doc, step = _expected_len(b, nb, st)
    if doc < 1 or (doc - 1) * step >= a:
        o.stat("sf_param_combinations_outside_domain", 1)        # a documented lag without overlapping rows: not called
        return
    got = numpy.asarray(_call_sf(sc, ph.copy(), nb, st, 0), dtype=float)
    o.stat("lib_calls", 1)
    if not _len_ok(got, a, b, nb, st):
        o.check(clause, False, sub=sub, detail="result shape %s, bounds on the number of lags %s" % (got.shape, _len_bounds(a, b, nb, st)))
        return
    J = _judged(got, a, step)
    want = numpy.array([est.structure_function_lag_fast(ph, j * step) for j in range(J)])
    o.close(clause, max(_dev(got, want, J), 0.0 if got[0] == 0.0 else float("inf")), tol, sub=sub,
            detail="%d lags judged" % J)


def _sf_large(p):
    """large non-square arrays with column-dependent content (a size-dependent path - sub-sampling, another
    algorithm beyond some size - is decided here)"""
    o = Out()
    sc = _sc()
    a, b = p["a"], p["b"]
    i, j = numpy.indices((a, b))
    ph = numpy.sin(0.013 * i * i % 5.0) * (1.0 + (j % 5)) + 0.002 * j * i + numpy.cos(0.9 * j)
    for nb, st in ((None, 1), (64, 1), (None, 7), (64, 7), (30, 7), (None, None)):
        _sf_fast_check(o, sc, "sf_definition_large_array", ph, nb, st, "nb=%s:step=%s" % (nb, st))
    return o


def _sf_default(p):
    """the default nbOfPoint (a quarter of the second axis) actually returning lags >= 1, alone and with step given
    by keyword only"""
    o = Out()
    sc = _sc()
    for a, b in DEFAULT_SHAPES:
        for k, (name, img) in enumerate(_dense_images(a, b)):
            for st in (None, 2, 3):
                _sf_fast_check(o, sc, "sf_definition_default_nbOfPoint", numpy.asarray(img, dtype=float), None, st,
                               "a=%d:b=%d:%s:step=%s" % (a, b, name, st))
    return o


def _calling(p):
    """documented calling conventions give the result of the positional int call"""
    o = Out()
    sc = _sc()
    tp = _tps_fn()
    i, j = numpy.indices((9, 12))
    ph = numpy.sin(0.4 * i * i + 0.3 * j) + 0.1 * i * j
    with warnings.catch_warnings():
        warnings.simplefilter("ignore")
        base = numpy.asarray(sc.calculate_structure_function(ph.copy(), 3, 2), dtype=float)
        variants_ = [
            ("keywords", lambda: sc.calculate_structure_function(ph.copy(), nbOfPoint=3, step=2)),
            ("keywords_swapped", lambda: sc.calculate_structure_function(phase=ph.copy(), step=2, nbOfPoint=3)),
            ("numpy_int64", lambda: sc.calculate_structure_function(ph.copy(), numpy.int64(3), numpy.int64(2))),
            ("numpy_int32", lambda: sc.calculate_structure_function(ph.copy(), numpy.int32(3), numpy.int32(2))),
            ("float_step", lambda: sc.calculate_structure_function(ph.copy(), 3, 2.0)),
            ("numpy_float_step", lambda: sc.calculate_structure_function(ph.copy(), 3, numpy.float64(2.0))),
            ("float_nbOfPoint", lambda: sc.calculate_structure_function(ph.copy(), 3.0, 2)),
            ("numpy_float_nbOfPoint", lambda: sc.calculate_structure_function(ph.copy(), numpy.float64(3.0), 2)),
        ]
        for name, f in variants_:
            got = numpy.asarray(f(), dtype=float)
            o.stat("lib_calls", 1)
            ok = got.shape == base.shape
            o.close("sf_calling_convention", _nanmax(numpy.abs(got - base)) / _nanmax(numpy.abs(base)) if ok else float("inf"),
                    TOL, sub=name, detail="result %s vs positional ints %s" % (got.tolist()[:4], base.tolist()[:4]))
        # default step with keyword nbOfPoint, default nbOfPoint with keyword step
        # (default nbOfPoint with keyword step: compared with the definition in the sf_default case)
        for name, f, g in (
                ("nbOfPoint_only", lambda: sc.calculate_structure_function(ph.copy(), nbOfPoint=4),
                 lambda: sc.calculate_structure_function(ph.copy(), 4, 1)),):
            got = numpy.asarray(f(), dtype=float)
            ref = numpy.asarray(g(), dtype=float)
            o.stat("lib_calls", 2)
            ok = got.shape == ref.shape and got.size > 1
            o.close("sf_calling_convention", _nanmax(numpy.abs(got - ref)) / _nanmax(numpy.abs(ref)) if ok else float("inf"),
                    TOL, sub=name)
    # frequency axis: integer rate, numpy scalars
    for n in (9, 16):
        base = numpy.asarray(tp.get_tps_time_axis(200.0, n), dtype=float)
        for name, args in (("int_rate", (200, n)), ("numpy_scalars", (numpy.float64(200.0), numpy.int64(n))),
                           ("numpy_int_rate", (numpy.int64(200), numpy.int32(n)))):
            got = numpy.asarray(tp.get_tps_time_axis(*args), dtype=float)
            o.stat("lib_calls", 1)
            ok = got.shape == base.shape
            o.close("tps_axis_calling_convention", _nanmax(numpy.abs(got - base)) / 200.0 if ok else float("inf"), TOL,
                    sub="%s:n=%d" % (name, n))
        got = numpy.asarray(tp.get_tps_time_axis(frame_rate=200.0, n_frames=n), dtype=float)
        o.stat("lib_calls", 2)
        o.close("tps_axis_calling_convention", _nanmax(numpy.abs(got - base)) / 200.0 if got.shape == base.shape else float("inf"),
                TOL, sub="keywords:n=%d" % n)
    return o


def _reuse(p):
    """call histories on caller-owned objects: the same array handed in twice, a result held across later calls,
    the caller's in-place edit between calls (mc.variants.check_reuse)"""
    from mc import variants
    o = Out()
    sc = _sc()
    tp = _tps_fn()
    i, j = numpy.indices((8, 6))
    x = ((3 * i * i + 5 * j + i * j) % 17).astype(float)
    for nb, st in ((3, 1), (2, 2), (4, None)):
        def f(arr, nb=nb, st=st):
            with warnings.catch_warnings():
                warnings.simplefilter("ignore")
                return sc.calculate_structure_function(arr, nb) if st is None else sc.calculate_structure_function(arr, nb, st)
        o.stat("lib_calls", variants.check_reuse(o, "sf_history", f, x, TOL, sub="nb=%s:step=%s" % (nb, st)))
    fr, k = numpy.indices((8, 3))
    sl = ((7 * fr + 3 * k * k + fr * k) % 11).astype(float)
    for name, data in (("2d", sl), ("3d", numpy.array([sl, sl[::-1] + 1]))):
        o.stat("lib_calls", variants.check_reuse(o, "tps_history", lambda arr: tp.calc_slope_temporalps(arr), data, TOL, sub=name))
    # frequency axis: a held axis survives later calls (also with another rate for the same n) and the caller's edit
    bad = []
    for n in (8, 9):
        a1 = tp.get_tps_time_axis(100.0, n)
        keep = numpy.array(a1, dtype=float)
        a2 = numpy.array(tp.get_tps_time_axis(250.0, n), dtype=float)
        if not numpy.array_equal(numpy.asarray(a1, dtype=float), keep):
            bad.append(("held axis changed by a later call", n))
        if isinstance(a1, numpy.ndarray) and a1.flags.writeable:
            a1[...] = -7.0
        a3 = numpy.array(tp.get_tps_time_axis(100.0, n), dtype=float)
        a4 = numpy.array(tp.get_tps_time_axis(250.0, n), dtype=float)
        o.stat("lib_calls", 4)
        K = min(len(keep), (n + 1) // 2)
        want = numpy.arange(K) / n
        for nm, arr, rate in (("first", keep, 100.0), ("other_rate", a2, 250.0), ("after_caller_edit", a3, 100.0),
                              ("other_rate_again", a4, 250.0)):
            if len(arr) < K or not numpy.max(numpy.abs(arr[:K] - want * rate)) <= TOL * rate:
                bad.append((nm, n, arr.tolist()))
    o.check("tps_axis_history", not bad, detail="%s" % (bad[:2],))
    return o


# ----------------------------------------------------------------------------- screens (E2 on the draws)

def _screen_cfg(N):
    L0, r0 = SCREEN["L0"], SCREEN["r0"]
    delta = SCREEN["extent_in_L0"] * L0 / N
    return r0, L0, delta, delta * 1e-3


def _draw_premise(phasescreen, N):
    """How many normal draws does one screen consume, and do zero draws give the zero screen?  Returns (nd, None)
    or (0, reason).  Only this is assumed of the generator (how the draws are requested - two (N,N) blocks, one
    (2,N,N) block, ... - is private to it)."""
    r0, L0, delta, l0 = _screen_cfg(N)
    try:
        g0 = SeqGenerator(numpy.zeros(1))
        z = numpy.asarray(phasescreen.ft_phase_screen(r0, N, delta, L0, l0, seed=g0))
    except Exception as e:          # SeqGenerator raises on any other distribution method: instrumentation, not a finding
        return 0, "%s: %s" % (type(e).__name__, str(e)[:120])
    nd = int(g0.consumed)
    if nd < 1 or nd > 8 * N * N:
        return 0, "%d normal draws consumed from the injected Generator" % nd
    if z.shape != (N, N) or numpy.any(z != 0):
        return 0, "zero draws do not give the zero screen"
    return nd, None


def _sampled_spectrum_sf(N, shifts):
    """structure function of the stationary field  Re sum_k c_k exp(2 pi i f_k x),  <|c_k|^2> = 2 PSD(f_k) df^2  on the
    FFT grid f = (-N/2..N/2-1) df  (what an FFT screen generator with the sampled von Karman spectrum produces)"""
    r0, L0, delta, l0 = _screen_cfg(N)
    df = 1.0 / (N * delta)
    fx = numpy.arange(-N / 2., N / 2.) * df
    FX, FY = numpy.meshgrid(fx, fx)
    psd = vk.screen_psd(numpy.sqrt(FX ** 2 + FY ** 2), r0, L0, l0, 0.023)
    psd[N // 2, N // 2] = 0.0
    return numpy.array([2.0 * float(numpy.sum(psd * df * df * (1.0 - numpy.cos(2 * math.pi * FX * s * delta)))) for s in shifts])


def _sfscreen(p):
    o = Out()
    sc = _sc()
    from aotools.turbulence import phasescreen
    N = p["N"]
    r0, L0, delta, l0 = _screen_cfg(N)
    nb = N // 4 + 1
    nb2 = N // 8 + 1                 # step 2: lag j <-> shift 2 j, the same separations
    nd, why = _draw_premise(phasescreen, N)
    if not nd:
        o.stat("screen_ensemble_not_claimed", 1)
        o.note("screen_ensemble_not_claimed:N=%d" % N, why)
        return o
    acc = numpy.zeros(nb)
    accref = numpy.zeros(nb)
    acc2 = numpy.zeros(nb2)
    probes = [numpy.sin(0.3 + numpy.arange(nd) * 1.1), ((numpy.arange(nd) * 7) % 5 - 2.0)]
    super_ = [numpy.zeros((N, N)) for _ in probes]
    shape_ok = True
    for k in range(nd):
        try:
            T = numpy.asarray(phasescreen.ft_phase_screen(r0, N, delta, L0, l0, seed=unit_draws(nd, k)))
        except RuntimeError as e:
            o.stat("screen_ensemble_not_claimed", 1)
            o.note("screen_ensemble_not_claimed:N=%d" % N, str(e)[:120])
            return o
        for v, s_ in zip(probes, super_):
            s_ += v[k] * T
        got = _call_sf(sc, T, nb, 1, nb)
        got2 = _call_sf(sc, T, nb2, 2, nb2)
        if got.shape != (nb,) or got2.shape != (nb2,):
            shape_ok = False
            break
        acc[1:] += got[1:]
        acc2[1:] += got2[1:]
        for j in range(1, nb):
            accref[j] += est.structure_function_lag_fast(T, j)
    o.stat("lib_calls", 3 * nd + 1)
    # (N//4+1 <= N/2 - 1 lags of a square N x N screen: documented count and shifted-axis count agree)
    o.check("sf_result_length", shape_ok, detail="N x N screen, nbOfPoint = N/4+1 (step 1) / N/8+1 (step 2)")
    if not shape_ok:
        return o
    # premise of the ensemble-mean formula: the screen is the superposition of its unit-draw responses
    lin = 0.0
    for v, s_ in zip(probes, super_):
        s = numpy.asarray(phasescreen.ft_phase_screen(r0, N, delta, L0, l0, seed=SeqGenerator(v)))
        lin = max(lin, float(numpy.max(numpy.abs(s - s_))) / max(1e-300, float(numpy.max(numpy.abs(s)))))
    o.note("screen_superposition_error:N=%d" % N, lin)
    # exact ensemble mean of the estimator == definition applied to the exact ensemble (no PSD assumed; holds for the
    # sum over ANY set of screens, linear generator or not)
    o.close("sf_screen_ensemble_mean_is_definition", _nanmax(numpy.abs(acc[1:] - accref[1:])) / _nanmax(accref[1:]), 1e-10)
    o.close("sf_screen_ensemble_mean_is_definition_step2",
            _nanmax(numpy.abs(acc2[1:] - accref[2:2 * nb2 - 1:2])) / _nanmax(accref[1:]), 1e-10,
            detail="lag j at step 2 against the shift 2 j")
    if not lin <= 1e-8:
        o.stat("screen_ensemble_not_claimed", 1)
        o.note("screen_ensemble_not_claimed:N=%d" % N, "screen not linear in its draws (superposition error %g)" % lin)
        return o
    # against the analytic von Karman structure function at r = L0/2 and L0 (lags N/8 and N/4)
    lags = [N // 8, N // 4]
    D = vk.structure_function(numpy.array(lags) * delta, r0, L0)
    err = numpy.abs(acc[lags] / D - 1.0)
    o.note("rel_err_at_L0/2_and_L0:N=%d" % N, [float(e) for e in err])
    o.note("ensemble_mean_at_L0/2_and_L0:N=%d" % N, [float(v) for v in acc[lags]])
    # observation (not judged: it would pin the discretisation of the generator): the structure function of the
    # von Karman spectrum SAMPLED on the FFT grid, which an FFT generator reproduces exactly
    Ds = _sampled_spectrum_sf(N, lags)
    o.note("rel_dev_from_sampled_spectrum_sf:N=%d" % N, [float(e) for e in numpy.abs(acc[lags] / Ds - 1.0)])
    if N in LADDER_END_TOL:
        o.close("sf_screen_follows_analytic_N=%d" % N, float(err.max()), LADDER_END_TOL[N],
                detail="ensemble mean %s vs analytic D %s at r = L0/2, L0" % (acc[lags].tolist(), D.tolist()))
    o.outcome(numpy.round(acc, 9))
    return o


def _sfscreen_lin(p):
    """premise of the ensemble-mean formula: the screen is linear in its draws (superposition on the basis)"""
    o = Out()
    from aotools.turbulence import phasescreen
    N = p["N"]
    r0, L0, delta, l0 = _screen_cfg(N)
    nd, why = _draw_premise(phasescreen, N)
    if not nd:
        o.stat("screen_ensemble_not_claimed", 1)
        o.note("screen_ensemble_not_claimed:lin", why)
        return o
    try:
        T = numpy.array([phasescreen.ft_phase_screen(r0, N, delta, L0, l0, seed=unit_draws(nd, k)).reshape(-1) for k in range(nd)])
        worst = 0.0
        vs = [numpy.sin(0.3 + numpy.arange(nd) * 1.1), ((numpy.arange(nd) * 7) % 5 - 2.0)]
        for a_ in range(0, nd, 7):
            v = numpy.zeros(nd)
            v[a_] = 1.0
            v[(a_ * 5 + 3) % nd] += 2.0
            vs.append(v)
        for v in vs:
            s = phasescreen.ft_phase_screen(r0, N, delta, L0, l0, seed=SeqGenerator(v)).reshape(-1)
            worst = max(worst, float(numpy.max(numpy.abs(s - v @ T))) / max(1e-300, float(numpy.max(numpy.abs(s)))))
    except RuntimeError as e:        # raised by SeqGenerator (another distribution method was used)
        o.stat("screen_ensemble_not_claimed", 1)
        o.note("screen_ensemble_not_claimed:lin", str(e)[:120])
        return o
    o.stat("lib_calls", nd + len(vs))
    o.close("screen_linear_in_draws", worst, 1e-10)
    return o


def finalize(tier, results):
    """refinement ladder: the error of the ensemble-mean structure function against the analytic one at the finest
    N is less than half of the error at the coarsest N, at both separations (measured: 59 % -> 8.2 % / 2.4 %);
    whether it decreases at every single rung is recorded as a note"""
    o = Out()
    errs = []
    for N in _ladder(tier):
        r = results.get("sfscreen:N=%d" % N)
        key = "rel_err_at_L0/2_and_L0:N=%d" % N
        if r is None or key not in r.notes:
            return None          # --only run, the case raised (reported there), or the screens clause is not claimed
        errs.append(r.notes[key])
    errs = numpy.array(errs, dtype=float)
    o.note("sf_screen_error_strictly_decreasing_at_every_rung", bool(numpy.all(numpy.diff(errs, axis=0) < 0)))
    ratio = float(numpy.max(errs[-1] / numpy.maximum(errs[0], 1e-300)))
    o.check("sf_screen_error_decreases_along_ladder", ratio < 0.5, measure=ratio, tol=0.5,
            detail="relative errors per N (rows) at r = L0/2, L0: %s" % numpy.round(errs, 4).tolist())
    return o


# ----------------------------------------------------------------------------- temporal power spectrum

def _tps_fn():
    from aotools.turbulence import temporal_ps
    return temporal_ps


def _tps_call(tp, x):
    """the spectrum (first return value when a tuple is returned) as a float array"""
    r = tp.calc_slope_temporalps(x)
    if isinstance(r, (tuple, list)):
        r = r[0]
    return numpy.asarray(r, dtype=float)


def _bins_ok(got, lead, n):
    """leading shape kept; at least the documented floor(n/2) bins and at most n"""
    return got.ndim == len(lead) + 1 and got.shape[:-1] == tuple(lead) and n // 2 <= got.shape[-1] <= n


def _parseval_weights(K, n):
    k = numpy.arange(K)
    w = numpy.where(2 * k < n, 2.0, 0.0)
    w[2 * k == n] = 1.0
    w[0] = 1.0
    return w


def _tps_inputs(n, m):
    """deterministic input family for one (n frames, m sub-apertures): all units, all pairs, dense"""
    d = n * m
    for k in range(d):
        e = numpy.zeros(d)
        e[k] = 1.0
        yield "unit", e.reshape(n, m)
    for k in range(d):
        for l in range(k + 1, d):
            e = numpy.zeros(d)
            e[k] = 1.0
            e[l] = 1.0
            yield "pair", e.reshape(n, m)
    idx = numpy.arange(d).reshape(n, m)
    yield "dense", ((idx * 5 + 3) % 7 - 3).astype(float)
    yield "dense", numpy.sin(1.0 + idx * 0.9) * 1.5 + 0.25
    yield "dense", ((idx * 3 + 1) % 5 - 2).astype(numpy.int64)


def _tps(p):
    o = Out()
    tp = _tps_fn()
    n = p["n"]
    nbins = n // 2
    w_def = {"unit": 0.0, "pair": 0.0, "dense": 0.0}
    w_quad = w_pars = w_batch = w_big = 0.0
    first_def = first_quad = first_pars = None
    bad_shape = []
    peaks_bad = []
    nonzero = []
    undoc = 0
    lost = 0.0
    for m in SUBAPS:
        # definition on every unit, pair and dense input (leading shape ())
        for kind, x in _tps_inputs(n, m):
            got = _tps_call(tp, x.copy())
            o.stat("lib_calls", 1)
            if not _bins_ok(got, (), n):
                bad_shape.append((m, kind, got.shape))
                continue
            K = got.shape[-1]
            undoc += int(K != nbins)
            want = est.temporal_power_spectrum(x, K)
            scale = max(1e-300, float(numpy.max(numpy.abs(want))))
            dv = _nanmax(numpy.abs(got - want)) / scale
            if dv > TOL and first_def is None:
                first_def = "n=%d subaps=%d %s input: got %s, |FFT|^2 mean %s" % (n, m, kind, got[:4].tolist(), want[:4].tolist())
            w_def[kind] = max(w_def[kind], dv)
            if kind == "dense":
                # evidence only: the part of sum_t x^2 that the returned bins do not carry (Nyquist bin for even n,
                # bin (n-1)/2 for odd n are not returned by the documented floor(n/2) bins)
                energy = float(numpy.sum(numpy.asarray(x, dtype=float) ** 2) / m)
                lost = max(lost, abs(energy - float(numpy.sum(_parseval_weights(K, n) * got)) / n) / energy)
            if kind != "unit":
                for c in (2.0, -3.0) + (BIG if kind == "dense" else ()):
                    g2 = _tps_call(tp, x * c)
                    o.stat("lib_calls", 1)
                    if g2.shape != got.shape:
                        bad_shape.append((m, kind + " x%g" % c, g2.shape))
                        continue
                    gs = max(1e-300, float(numpy.max(numpy.abs(got))))
                    dq = _nanmax(numpy.abs(g2 - c * c * got)) / (c * c * gs)
                    if dq > TOL and first_quad is None:
                        k = int(numpy.argmax(numpy.abs(got)))
                        first_quad = ("n=%d subaps=%d %s input: amplitude x%g changes bin %d by x%.6g (must be x%g)"
                                      % (n, m, kind, c, k, g2[k] / got[k], c * c))
                    if c in BIG:
                        w_big = max(w_big, dq)
                    else:
                        w_quad = max(w_quad, dq)
        # all-zero slopes have an all-zero spectrum, exactly
        got = _tps_call(tp, numpy.zeros((n, m)))
        o.stat("lib_calls", 1)
        if numpy.any(got != 0.0):
            nonzero.append((m, got.reshape(-1)[:3].tolist()))
        # pure sinusoids: every bin 1 <= k < floor(n/2), three phases, different phase per sub-aperture
        t = numpy.arange(n)
        for k in range(1, nbins):
            for ph in (0.0, 0.7, 2.1):
                x = numpy.stack([numpy.cos(2 * math.pi * k * t / n + ph + 0.4 * c) * (1.0 + c) for c in range(m)], axis=-1)
                got = _tps_call(tp, x)
                o.stat("lib_calls", 1)
                # (bins beyond n/2, if an implementation returns them, mirror the ones below: not searched)
                if got.ndim != 1 or got.shape[0] <= k or int(numpy.argmax(got[:nbins + 1])) != k or not got[k] > 0:
                    peaks_bad.append((m, k, ph))
        # Parseval on band-limited signals: mean_c sum_t x^2 = (P_0 + 2 sum_{k>=1} P_k)/n
        for variant in range(3):
            x = numpy.zeros((n, m))
            for c in range(m):
                x[:, c] = 0.5 * (variant + 1) - 0.3 * c
                for k in range(1, nbins):
                    x[:, c] += (1.0 + 0.5 * ((k + c + variant) % 3)) * numpy.cos(2 * math.pi * k * t / n + 0.9 * k + 0.4 * c + variant)
            got = _tps_call(tp, x.copy())
            o.stat("lib_calls", 1)
            if not _bins_ok(got, (), n):
                continue
            energy = float(numpy.sum(x * x) / m)
            spec = float(numpy.sum(_parseval_weights(got.shape[0], n) * got) / n)
            dp = abs(spec - energy) / energy
            if dp > 1e-11 and first_pars is None:
                first_pars = "n=%d subaps=%d: sum_t x^2 (mean over sub-apertures) = %r, (P0 + 2 sum P_k)/n = %r" % (n, m, energy, spec)
            w_pars = max(w_pars, dp)
        # leading shapes: each item of a stack is transformed on its own
        for lead in LEADS[1:]:
            nl = int(numpy.prod(lead))
            items = [numpy.sin(0.5 + numpy.arange(n * m).reshape(n, m) * (0.3 + 0.2 * i)) * (1 + i) for i in range(nl)]
            stack = numpy.array(items).reshape(lead + (n, m))
            got = _tps_call(tp, stack.copy())
            o.stat("lib_calls", 1 + nl)
            if not _bins_ok(got, lead, n):
                bad_shape.append((m, "lead=%s" % (lead,), got.shape))
                continue
            K = got.shape[-1]
            singles = [_tps_call(tp, it.copy()) for it in items]
            if any(s_.shape != (K,) for s_ in singles):
                bad_shape.append((m, "lead=%s item" % (lead,), singles[0].shape))
                continue
            single = numpy.array(singles).reshape(lead + (K,))
            w_batch = max(w_batch, _nanmax(numpy.abs(got - single)) / max(1e-300, _nanmax(numpy.abs(single))))
    if undoc:
        o.note("tps_bin_count_differs_from_documented_floor_n_2:n=%d" % n, undoc)
    o.note("tps_energy_fraction_outside_returned_bins_dense_inputs:n=%d" % n, lost)
    o.check("tps_result_shape", not bad_shape, detail="(subaps, input, shape) %s" % (bad_shape[:3],))
    o.close("tps_definition_unit_inputs", w_def["unit"], TOL)
    o.close("tps_definition", max(w_def["pair"], w_def["dense"]), TOL, detail=first_def)
    o.close("tps_quadratic_in_amplitude", w_quad, TOL, detail=first_quad)
    o.close("tps_quadratic_in_amplitude_far_from_1", w_big, TOL, detail=first_quad or "amplitude x 2^-27 and x 2^27")
    o.check("tps_zero_slopes_give_zero", not nonzero, detail="(subaps, spectrum) %s" % (nonzero[:2],))
    o.close("tps_parseval", w_pars, 1e-11, detail=first_pars)
    o.check("tps_sinusoid_peak", not peaks_bad, n=max(1, 3 * len(SUBAPS) * max(0, nbins - 1)),
            detail="(subaps, bin, phase) %s" % (peaks_bad[:3],))
    o.close("tps_leading_shapes_per_item", w_batch, TOL)
    o.outcome([n, round(w_quad, 6)])
    return o


def _tps_long(p):
    """records of realistic length (a size-dependent path - reduced precision beyond some size, segment averaging
    of long records - is decided here): definition, sinusoid and DC closed forms, Parseval, amplitude law"""
    o = Out()
    tp = _tps_fn()
    n = p["n"]
    nbins = n // 2
    t = numpy.arange(n)
    for m in LONG_SUBAPS:
        sub = "subaps=%d" % m
        c = numpy.arange(m)
        # dense: broadband deterministic signal, different in every sub-aperture
        x = (numpy.sin(1.0 + 0.37 * numpy.outer(t, 1.0 + 0.01 * c) ** 1.1 % 9.0) * 1.5 + 0.25
             + 0.5 * numpy.cos(2 * math.pi * numpy.outer(t, (3 + c) % nbins) / n))
        got = _tps_call(tp, x.copy())
        o.stat("lib_calls", 1)
        if not _bins_ok(got, (), n):
            o.check("tps_result_shape", False, sub=sub, detail="shape %s" % (got.shape,))
            continue
        K = got.shape[0]
        want = est.temporal_power_spectrum(x, K)
        o.close("tps_definition_long_record", _nanmax(numpy.abs(got - want)) / float(numpy.max(want)), TOL_LONG, sub=sub)
        for cc in (-3.0,) + BIG:
            g2 = _tps_call(tp, x * cc)
            o.stat("lib_calls", 1)
            o.close("tps_quadratic_in_amplitude_long_record",
                    _nanmax(numpy.abs(g2 - cc * cc * got)) / (cc * cc * float(numpy.max(got))) if g2.shape == got.shape else float("inf"),
                    TOL_LONG, sub="%s:x%g" % (sub, cc))
        # Parseval, band-limited: DC + sinusoids at 40 bins spread over 1..nbins-1
        ks = sorted(set(int(v) for v in numpy.linspace(1, nbins - 1, 40)))
        y = numpy.zeros((n, m))
        for q, k in enumerate(ks):
            y += (1.0 + 0.5 * ((q + c) % 3))[None, :] * numpy.cos(2 * math.pi * ((k * t) % n)[:, None] / n + 0.9 * q + 0.4 * c[None, :])
        y += 0.5 - 0.003 * c[None, :]
        got = _tps_call(tp, y.copy())
        o.stat("lib_calls", 1)
        if _bins_ok(got, (), n):
            energy = float(numpy.sum(y * y) / m)
            spec = float(numpy.sum(_parseval_weights(got.shape[0], n) * got) / n)
            o.close("tps_parseval_long_record", abs(spec - energy) / energy, TOL_LONG, sub=sub)
        # closed forms: A cos(2 pi k t/n + phase) -> P_k = (A n/2)^2, every other bin 0; constant c0 -> P_0 = (n c0)^2
        worst = 0.0
        for k in (1, 7, nbins // 3, nbins - 1):
            amp = 1.0 + 0.25 * c
            z = amp[None, :] * numpy.cos(2 * math.pi * ((k * t) % n)[:, None] / n + 0.3 + 0.4 * c[None, :])
            got = _tps_call(tp, z)
            o.stat("lib_calls", 1)
            if not _bins_ok(got, (), n):
                worst = float("inf")
                continue
            want = numpy.zeros(got.shape[0])
            want[k] = float(numpy.mean((amp * n / 2.0) ** 2))
            if got.shape[0] > n - k:
                want[n - k] = want[k]
            worst = max(worst, _nanmax(numpy.abs(got - want)) / want[k])
            if int(numpy.argmax(got[:nbins + 1])) != k:
                worst = float("inf")
        o.close("tps_sinusoid_closed_form_long_record", worst, TOL_LONG, sub=sub)
        z = numpy.ones((n, 1)) * (0.75 - 0.5 * (c % 4))[None, :]
        got = _tps_call(tp, z)
        o.stat("lib_calls", 1)
        if _bins_ok(got, (), n):
            want = numpy.zeros(got.shape[0])
            want[0] = float(numpy.mean((n * (0.75 - 0.5 * (c % 4))) ** 2))
            o.close("tps_constant_closed_form_long_record", _nanmax(numpy.abs(got - want)) / want[0], TOL_LONG, sub=sub)
    return o


def _axis_dev(got, rate, n):
    """max |axis[k] - k rate/n| / rate over the returned entries k < n/2, or None when the length is out of bounds"""
    got = numpy.asarray(got, dtype=float)
    if got.ndim != 1 or not (n // 2 <= got.shape[0] <= n):
        return None
    K = min(got.shape[0], (n + 1) // 2)
    if K == 0:
        return 0.0
    want = numpy.array([k * float(rate) / n for k in range(K)])
    return float(numpy.max(numpy.abs(got[:K] - want))) / float(rate)


def _tpsaxis(p):
    o = Out()
    tp = _tps_fn()
    worst = 0.0
    bad = []
    undoc = 0
    ns = [(n, n) for n in range(1, 34)] + [(numpy.int64(n), n) for n in (7, 8, 33)] + [(n, n) for n in (1000, 4096, 8191)]
    for rate in RATES:
        for narg, n in ns:
            got = numpy.asarray(tp.get_tps_time_axis(rate, narg), dtype=float)
            o.stat("lib_calls", 1)
            d = _axis_dev(got, rate, n)
            if d is None:
                bad.append((rate, n, got.shape))
                continue
            undoc += int(got.shape[0] != len(est.frequency_axis(rate, n)))
            worst = max(worst, d)
    if undoc:
        o.note("tps_axis_length_differs_from_documented_floor_n_2", undoc)
    o.check("tps_axis_length", not bad, detail="(rate, n, shape) %s" % (bad[:3],))
    o.close("tps_axis_is_k_rate_over_n", worst, TOL)
    return o


LEVEL_TEXT = ("Structure function: every shape (a,b) with a,b in 2..6 (quick) / 2..9 (thorough), every (nbOfPoint, step) in the "
              "domain, and every unit image and every pair of unit images (the estimator is a quadratic form, so these "
              "decide it for all inputs of that shape); default nbOfPoint on 9 shapes up to 40 x 33; arrays of 1024 x 256 and "
              "257 x 1030 (step 1, 7); the ensemble mean over ALL FFT screens from the complete draw-"
              "response operator (all unit draws, N = 8..32 / 64, step 1 and 2). Temporal spectrum: every frame count 2..16 / "
              "2..40 (plus counts with large prime factors up to 46 / 202) x 1..3 "
              "sub-apertures x 3 leading shapes, all unit inputs and pairs, every sinusoid bin, every (rate, n<=33) axis; "
              "records of 1000 and 4096 (thorough: also 2187, 8191) frames x 2 / 70 sub-apertures; call histories on one "
              "caller-owned array; documented calling conventions.")
LEVEL_NOTE = ("Trusted: the loop definitions in mc/refmodels/estimators.py and the textbook structure function in "
              "mc/refmodels/vk_closed_forms.py. Not covered: shapes beyond the bound, lags without overlap, the number of "
              "lags / bins beyond the bounds given in the assumptions, the std-error "
              "output of calc_slope_temporalps, plotting/fitting helpers; the screens clause is a bounded refinement ladder "
              "on one (r0, L0) and one generator (ft_phase_screen).")


def _storage(p):
    """the estimators are functions of the VALUES: the same numbers in another memory layout or dtype
    (Fortran order, strided / transposed views, read-only, float32, integer types) give the same answer"""
    from mc import variants
    tp = _tps_fn()
    sc = _sc()
    o = Out()
    i, j = numpy.indices((8, 6))
    x = ((3 * i * i + 5 * j + i * j) % 17).astype(float)
    for nb, st in ((3, 1), (2, 2), (None, None)):
        n = variants.check_storage(o, "sf_independent_of_storage",
                                   (lambda a: sc.calculate_structure_function(a)) if nb is None else
                                   (lambda a: sc.calculate_structure_function(a, nb, st)), x, 1e-12, sub="nb=%s:step=%s" % (nb, st),
                                   kinds=("float32", "int64", "int32"))     # phases and slopes are signed quantities
        o.stat("lib_calls", n)
    f, k = numpy.indices((8, 3))
    sl = ((7 * f + 3 * k * k + f * k) % 11).astype(float)
    for name, data in (("2d", sl), ("3d", numpy.array([sl, sl[::-1] + 1]))):
        n = variants.check_storage(o, "tps_independent_of_storage", lambda a: _tps_call(tp, a), data, 1e-12,
                                   sub=name, kinds=("float32", "int64", "int32"))
        o.stat("lib_calls", n)
    return o


def _many(p):
    """The definitions do not depend on how many sub-apertures / pixels there are: slope data with up to a few
    hundred sub-apertures (counts around and beyond 128 and 256, with the signal concentrated in the LAST ones)
    and a large non-square phase array against the reference definitions.  (Added after a seeded change averaged
    sub-apertures in blocks of 128 with an unweighted mean of the block means.)"""
    o = Out()
    tp = _tps_fn()
    sc = _sc()
    for n in (8, 9):
        t = numpy.arange(n)
        for m in (127, 128, 129, 130, 200, 256, 257, 300):
            x = 0.01 * numpy.cos(0.3 * numpy.outer(t, numpy.arange(m)) % 7.0)
            x[:, -2:] += 5.0 * numpy.cos(2 * math.pi * 2 * t / n)[:, None]      # strong signal in the last two
            got = _tps_call(tp, x.copy())
            o.stat("lib_calls", 1)
            ok = _bins_ok(got, (), n)
            want = est.temporal_power_spectrum(x, got.shape[-1]) if ok else None
            o.close("tps_definition_many_subapertures",
                    _nanmax(numpy.abs(got - want)) / max(1e-300, float(numpy.max(numpy.abs(want)))) if ok else float("inf"),
                    TOL, sub="n=%d:subaps=%d" % (n, m))
    i, j = numpy.indices((130, 70))
    ph = numpy.sin(0.07 * i * i % 5.0) + 0.01 * j * i
    for nb, st in ((20, 1), (10, 3), (None, None)):
        _sf_fast_check(o, sc, "sf_definition_large_array", ph, nb, st, "nb=%s:step=%s" % (nb, st))
    return o
