"""C19 Empirical estimators implement their definitions.

Structure function (slopecovariance.calculate_structure_function): E1 over every array shape
(a, b), every (nbOfPoint, step) whose lags all overlap, and E2 over the input: the estimator is
a quadratic form in the image, so its values on EVERY unit image e_p and EVERY pair e_p + e_q
determine it for all inputs of that shape; each is compared with the definition coded as
explicit loops.  Lag 0, ramps (closed form) and the amplitude law are separate clauses.
'Applied to generated screens': ft_phase_screen is linear in its Gaussian draws, so the
exact ensemble mean of the estimator over ALL screens is sum_k estimator(T e_k) over the
2 N^2 unit draw vectors (mc.env.SeqGenerator) - no Monte-Carlo - and is compared with the
analytic von Karman structure function on a refinement ladder.

Temporal power spectrum (temporal_ps.calc_slope_temporalps / get_tps_time_axis): every frame
count, sub-aperture count and leading shape in the bound, all unit inputs and pairs (quadratic
form again), all pure sinusoid bins, band-limited Parseval, amplitude law, frequency axis for
every (rate, n) pair.

Lag 0 is allocated with numpy.empty in the code under test; to make the verdict on that
clause deterministic the check recycles sentinel-filled blocks of the same size through
NumPy's small-block cache immediately before every call (a correct implementation writes
lag 0 and is unaffected).
"""
import itertools
import math
import warnings

import numpy

from mc import Out, Case
from mc.env import unit_draws, SeqGenerator
from mc.refmodels import estimators as est
from mc.refmodels import vk_closed_forms as vk

PROPERTY = "C19"
LEVEL = "exploration"
ENGINES = ["E1-product-enumeration", "E2-basis-exhaustion", "E5-environment-answers"]
TECHNIQUE = ("bounded exhaustive enumeration of shapes x (nbOfPoint, step) x all unit images and pairs "
             "(quadratic-form exhaustion) against the definitions; exact ensemble mean over all screens from the "
             "draw-response operator of ft_phase_screen; all frame counts x sub-apertures x leading shapes x unit/pair/"
             "sinusoid inputs for the temporal power spectrum")
RULE = ("cases = sf:{a x b} + lag0:{a} + sfscreen:{N ladder} + sfscreen_lin + tps:{n_frames} + tpsaxis; an sf case "
        "loops over every (nbOfPoint in 1..a+1 and default, step in 1..3 and default) in the domain and over all unit "
        "images and pairs; non-trivial when a != b or step > 1 exists in the domain (always), tps non-trivial for n >= 4")
ASSUMPTIONS = [
    "domain of the structure-function clauses: every returned lag j satisfies j*step < a (a lag with no "
    "overlapping rows has no defined mean); combinations outside are counted in the evidence notes, not judged",
    "the number of returned lags (min(nbOfPoint, b/step - 1), which uses the SECOND axis length although the shift "
    "is along the first) is not part of the statement and is not judged",
    "lag 0: the verdict is 'value != 0 after sentinel blocks of the same size were recycled through the allocator'; "
    "on an implementation that writes lag 0 this is independent of memory contents",
    "screens clause: ensemble induced by an injected Generator (unit draws), ladder N = 8,16,32(,64) at fixed "
    "N delta = 4 L0, separations L0/2 and L0; bounded surrogate of 'follows the analytic structure function': "
    "error strictly decreasing along the ladder and <= 10 % at N = 32 (<= 3 % at N = 64); measured 59/24/8.2/2.4 %",
    "Parseval is decided on band-limited real signals (DC and sinusoids at returned bins k < n/2), because the "
    "function returns only the bins 0..floor(n/2)-1",
    "tolerance 1e-12 relative to the largest value for identities (measured <= 1e-15)",
]
TOL = 1e-12
SENTINEL = 12345.678


def _ab(tier):
    return range(2, 7) if tier == "quick" else range(2, 10)


def _frames(tier):
    # every small frame count, plus counts with a large prime factor (13, 17, 19, 23, 26 = 2*13, ...): FFT
    # implementations treat those differently from 2/3/5/7/11-smooth lengths
    if tier == "quick":
        return list(range(2, 17)) + [17, 19, 23, 26, 29, 34, 37, 46]
    return list(range(2, 41)) + [46, 58, 62, 74, 97, 101, 127, 202]


def _ladder(tier):
    return [8, 16, 32] if tier == "quick" else [8, 16, 32, 64]


LEADS = [(), (2,), (2, 2)]
SUBAPS = [1, 2, 3]
RATES = [1.0, 50.0, 150.5, 500.0, 1000.0]
SCREEN = {"r0": 0.2, "L0": 2.0, "extent_in_L0": 4.0}
LADDER_END_TOL = {32: 0.10, 64: 0.03}


def BOUNDS(tier):
    return {"sf_shapes": "all (a,b), a,b in %d..%d" % (min(_ab(tier)), max(_ab(tier))),
            "nbOfPoint": "1..a+1 and default", "step": "1..3 and default",
            "sf_inputs": "all a*b unit images, all pairs e_p+e_q, 4 dense images, ramps of 4 slopes",
            "screen_ladder_N": _ladder(tier), "screen": SCREEN,
            "tps_frames": list(_frames(tier)), "tps_subaps": SUBAPS, "tps_leading_shapes": [list(l) for l in LEADS],
            "tps_axis": {"rates": RATES, "n_frames": "1..33"}}


def cases(tier):
    for a in _ab(tier):
        for b in _ab(tier):
            yield Case("sf:a=%d:b=%d" % (a, b), {"kind": "sf", "a": a, "b": b})
        yield Case("lag0:a=%d" % a, {"kind": "lag0", "a": a, "bs": list(_ab(tier))})
    for N in _ladder(tier):
        yield Case("sfscreen:N=%d" % N, {"kind": "sfscreen", "N": N})
    yield Case("sfscreen_lin:N=8", {"kind": "sfscreen_lin", "N": 8})
    for n in _frames(tier):
        yield Case("tps:n=%d" % n, {"kind": "tps", "n": n}, n >= 4)
    yield Case("tpsaxis", {"kind": "tpsaxis"})
    yield Case("storage", {"kind": "storage"})
    yield Case("many_subaps", {"kind": "many"})


# ----------------------------------------------------------------------------- helpers

def _sc():
    from aotools.turbulence import slopecovariance
    return slopecovariance


def _dirty(n):
    """recycle 8 sentinel-filled float64 blocks of n elements through the allocator"""
    if n > 0:
        blocks = [numpy.full(n, SENTINEL) for _ in range(8)]
        del blocks


def _expected_len(b, nb, step):
    nbv = b / 4 if nb is None else nb
    st = 1 if step is None else step
    return int(min(nbv, b / st - 1)), st


def _call_sf(sc, phase, nb, step, xm):
    _dirty(xm)
    with warnings.catch_warnings():
        warnings.simplefilter("ignore")
        if nb is None and step is None:
            return numpy.asarray(sc.calculate_structure_function(phase))
        if step is None:
            return numpy.asarray(sc.calculate_structure_function(phase, nb))
        return numpy.asarray(sc.calculate_structure_function(phase, nb, step))


def _params(a, b):
    """every (nbOfPoint, step) of the alphabet; yields (nb, step, nlags, st, in_domain)"""
    for step in (None, 1, 2, 3):
        for nb in [None] + list(range(1, a + 2)):
            xm, st = _expected_len(b, nb, step)
            if xm < 1:
                yield nb, step, xm, st, None          # empty result: nothing to judge
            else:
                yield nb, step, xm, st, (xm - 1) * st < a


def _dense_images(a, b):
    idx = numpy.arange(a * b).reshape(a, b)
    yield "mod7", ((idx * 5 + 3) % 7 - 3).astype(float)
    yield "squares", ((idx % 4) ** 2 - 1.5 * (idx % 3)).astype(float)
    yield "int_dtype", ((idx * 3 + 1) % 5 - 2).astype(numpy.int64)
    yield "irrational", numpy.sin(1.0 + idx * 0.7) * 2.5


def evaluate(p):
    if p["kind"] == "storage":
        return _storage(p)
    if p["kind"] == "many":
        return _many(p)
    return {"sf": _sf, "lag0": _lag0, "sfscreen": _sfscreen, "sfscreen_lin": _sfscreen_lin,
            "tps": _tps, "tpsaxis": _tpsaxis}[p["kind"]](p)


# ----------------------------------------------------------------------------- structure function

def _sf(p):
    o = Out()
    sc = _sc()
    a, b = p["a"], p["b"]
    n = a * b
    outside = 0
    full = {}                        # step -> (nb, xm) with the most lags in the domain
    w_def = w_ramp = w_quad = w_trunc = w_piston = 0.0
    bad_len = []
    for nb, step, xm, st, dom in _params(a, b):
        if dom is None:
            continue
        if not dom:
            outside += 1
            continue
        if st not in full or xm > full[st][1]:
            full[st] = (nb, xm, step)
        # definition on dense images, lags >= 1 (lag 0 has its own clause)
        for name, img in _dense_images(a, b):
            got = _call_sf(sc, img.copy(), nb, step, xm)
            o.stat("lib_calls", 1)
            if got.shape != (xm,):
                bad_len.append((nb, step, got.shape))
                continue
            want = numpy.array(est.structure_function(img.tolist(), xm, st))
            scale = max(1e-300, float(numpy.max(numpy.abs(want))))
            if xm > 1:
                w_def = max(w_def, _nanmax(numpy.abs(got[1:] - want[1:])) / scale)
                # quadratic in amplitude: x2 -> x4, x(-3) -> x9
                for c in (2.0, -3.0):
                    g2 = _call_sf(sc, (img * c).copy(), nb, step, xm)
                    o.stat("lib_calls", 1)
                    w_quad = max(w_quad, _nanmax(numpy.abs(g2[1:] - c * c * got[1:])) / (c * c * scale))
        # ramps: slope s along the first axis (plus arbitrary column offsets) -> s^2 (j step)^2
        for s in (1.0, -2.0, 0.5, 3.0):
            ramp = s * numpy.arange(a)[:, None] + (numpy.arange(b)[None, :] * 1.75 - 2.0)
            got = _call_sf(sc, ramp, nb, step, xm)
            o.stat("lib_calls", 1)
            if got.shape == (xm,) and xm > 1:
                want = (s * numpy.arange(xm) * st) ** 2
                w_ramp = max(w_ramp, _nanmax(numpy.abs(got[1:] - want[1:]) / want[1:]))
            # the same ramp riding on a large piston (a screen with its mean level left in; dyadic values, so every
            # difference is exact): only differences enter the definition, the piston must cancel completely
            for piston in (2.0 ** 10, 2.0 ** 20, 2.0 ** 26):
                got = _call_sf(sc, ramp + piston, nb, step, xm)
                o.stat("lib_calls", 1)
                if got.shape == (xm,) and xm > 1:
                    want = (s * numpy.arange(xm) * st) ** 2
                    w_piston = max(w_piston, _nanmax(numpy.abs(got[1:] - want[1:]) / want[1:]))
    o.close("sf_ramp_on_large_piston", w_piston, 1e-9)
    o.stat("sf_param_combinations_outside_domain", outside)
    o.check("sf_result_length", not bad_len, detail="(nbOfPoint, step, shape) %s" % (bad_len[:3],))
    o.close("sf_definition", w_def, TOL, detail="dense images, all (nbOfPoint, step) in the domain, lags >= 1")
    o.close("sf_ramp_closed_form", w_ramp, TOL)
    o.close("sf_quadratic_in_amplitude", w_quad, TOL)
    # truncation: a smaller nbOfPoint returns a prefix of the longest result
    for st, (nb, xm, step) in full.items():
        img = list(_dense_images(a, b))[3][1]
        long = _call_sf(sc, img.copy(), nb, step, xm)
        for nb2 in range(1, xm):
            short = _call_sf(sc, img.copy(), nb2, step, nb2)
            o.stat("lib_calls", 1)
            if short.shape != (nb2,):
                o.check("sf_prefix_consistent", False, sub="step=%d" % st, detail="shape %s" % (short.shape,))
            elif nb2 > 1:
                w_trunc = max(w_trunc, _nanmax(numpy.abs(short[1:] - long[1:nb2])) / max(1e-300, _nanmax(numpy.abs(long[1:]))))
    o.close("sf_prefix_consistent", w_trunc, TOL)
    # quadratic-form exhaustion: all unit images and all pairs, at the longest lag set of each step
    w_unit = w_pair = w_rec = 0.0
    for st, (nb, xm, step) in full.items():
        if xm < 2:
            continue
        Q1 = numpy.zeros((n, xm))
        for k in range(n):
            e = numpy.zeros(n)
            e[k] = 1.0
            img = e.reshape(a, b)
            got = _call_sf(sc, img, nb, step, xm)
            Q1[k] = got
            want = numpy.array(est.structure_function(img.tolist(), xm, st))
            w_unit = max(w_unit, _nanmax(numpy.abs(got[1:] - want[1:])))
        o.stat("lib_calls", n)
        # closed form of the definition on pairs: Q(e_p+e_q) = Q(e_p)+Q(e_q) - 2/(count_j) if q = p +- shift rows
        M = numpy.zeros((xm, n, n))          # bilinear coefficients recovered from the real code
        for k in range(n):
            for l in range(k + 1, n):
                e = numpy.zeros(n)
                e[k] = 1.0
                e[l] = 1.0
                img = e.reshape(a, b)
                got = _call_sf(sc, img, nb, step, xm)
                want = numpy.array(est.structure_function(img.tolist(), xm, st))
                w_pair = max(w_pair, _nanmax(numpy.abs(got[1:] - want[1:])))
                M[:, k, l] = 0.5 * (got - Q1[k] - Q1[l])
        o.stat("lib_calls", n * (n - 1) // 2)
        # polarisation: a dense image must be reproduced from the unit/pair responses (quadratic-form premise)
        x = numpy.sin(1.0 + numpy.arange(n) * 0.7) * 2.5
        got = _call_sf(sc, x.reshape(a, b).copy(), nb, step, xm)
        o.stat("lib_calls", 1)
        rec = Q1.T @ (x * x) + 2.0 * numpy.einsum("jkl,k,l->j", M, x, x)
        w_rec = max(w_rec, _nanmax(numpy.abs(got[1:] - rec[1:])) / max(1e-300, _nanmax(numpy.abs(got[1:]))))
    o.close("sf_definition_unit_images", w_unit, TOL, detail="every unit image e_p, every step, longest lag set")
    o.close("sf_definition_unit_pairs", w_pair, TOL, detail="every pair e_p+e_q")
    o.close("sf_is_quadratic_form", w_rec, 1e-10)
    o.outcome([a, b, sorted(full)])
    return o


def _nanmax(x):
    x = numpy.asarray(x, dtype=float)
    if x.size == 0:
        return 0.0
    if numpy.any(numpy.isnan(x)):
        return float("inf")
    return float(numpy.max(x))


def _lag0(p):
    """value 0 at lag 0, for every b, (nbOfPoint, step) and several images of first-axis length a"""
    o = Out()
    sc = _sc()
    a = p["a"]
    bad = []
    n = 0
    armed = 0
    for b in p["bs"]:
        for nb, step, xm, st, dom in _params(a, b):
            if not dom:
                continue
            # is the allocator recycling? (evidence only)
            _dirty(xm)
            probe = numpy.empty(xm)
            armed += int(probe[0] == SENTINEL)
            del probe
            for name, img in _dense_images(a, b):
                got = _call_sf(sc, img.copy(), nb, step, xm)
                n += 1
                if got.shape != (xm,) or not (got[0] == 0.0):
                    bad.append((b, nb, step, name, None if got.size == 0 else float(got[0])))
    o.stat("lib_calls", n)
    o.note("allocator_recycles_sentinel_blocks", armed > 0)
    o.check("sf_lag0_zero", not bad, n=n, measure=len(bad), tol=0,
            detail=None if not bad else "%d of %d calls return a non-zero lag 0, e.g. phase shape (%d,%d) nbOfPoint=%s step=%s "
            "image=%s -> sf[0]=%r" % (len(bad), n, a, bad[0][0], bad[0][1], bad[0][2], bad[0][3], bad[0][4]))
    o.outcome([a, len(bad) > 0])
    return o


# ----------------------------------------------------------------------------- screens (E2 on the draws)

def _screen_cfg(N):
    L0, r0 = SCREEN["L0"], SCREEN["r0"]
    delta = SCREEN["extent_in_L0"] * L0 / N
    return r0, L0, delta, delta * 1e-3


def _sfscreen(p):
    o = Out()
    sc = _sc()
    from aotools.turbulence import phasescreen
    N = p["N"]
    r0, L0, delta, l0 = _screen_cfg(N)
    nb = N // 4 + 1
    nd = 2 * N * N
    g0 = SeqGenerator(numpy.zeros(nd))
    z = phasescreen.ft_phase_screen(r0, N, delta, L0, l0, seed=g0)
    o.check("screen_draw_requests", list(g0.calls) == [(N, N), (N, N)] and not numpy.any(z),
            detail="normal() requests %s, zero draws give max|screen|=%r" % (g0.calls, float(numpy.max(numpy.abs(z)))))
    acc = numpy.zeros(nb)
    accref = numpy.zeros(nb)
    for k in range(nd):
        T = phasescreen.ft_phase_screen(r0, N, delta, L0, l0, seed=unit_draws(nd, k))
        got = _call_sf(sc, T, nb, 1, nb)
        acc[1:] += got[1:]
        for j in range(1, nb):
            accref[j] += est.structure_function_lag_fast(T, j)
    o.stat("lib_calls", 2 * nd + 1)
    # exact ensemble mean of the estimator == definition applied to the exact ensemble (no PSD assumed)
    o.close("sf_screen_ensemble_mean_is_definition", _nanmax(numpy.abs(acc[1:] - accref[1:])) / _nanmax(accref[1:]), 1e-10)
    # against the analytic von Karman structure function at r = L0/2 and L0 (lags N/8 and N/4)
    lags = [N // 8, N // 4]
    D = vk.structure_function(numpy.array(lags) * delta, r0, L0)
    err = numpy.abs(acc[lags] / D - 1.0)
    o.note("rel_err_at_L0/2_and_L0:N=%d" % N, [float(e) for e in err])
    o.note("ensemble_mean_at_L0/2_and_L0:N=%d" % N, [float(v) for v in acc[lags]])
    if N in LADDER_END_TOL:
        o.close("sf_screen_follows_analytic_N=%d" % N, float(err.max()), LADDER_END_TOL[N],
                detail="ensemble mean %s vs analytic D %s at r = L0/2, L0" % (acc[lags].tolist(), D.tolist()))
    o.outcome(numpy.round(acc, 9))
    return o


def _sfscreen_lin(p):
    """premise of the ensemble-mean formula: the screen is linear in its draws (superposition on the basis)"""
    o = Out()
    from aotools.turbulence import phasescreen
    N = p["N"]
    r0, L0, delta, l0 = _screen_cfg(N)
    nd = 2 * N * N
    T = numpy.array([phasescreen.ft_phase_screen(r0, N, delta, L0, l0, seed=unit_draws(nd, k)).reshape(-1) for k in range(nd)])
    worst = 0.0
    vs = [numpy.sin(0.3 + numpy.arange(nd) * 1.1), ((numpy.arange(nd) * 7) % 5 - 2.0)]
    for a_ in range(0, nd, 7):
        v = numpy.zeros(nd)
        v[a_] = 1.0
        v[(a_ * 5 + 3) % nd] += 2.0
        vs.append(v)
    for v in vs:
        s = phasescreen.ft_phase_screen(r0, N, delta, L0, l0, seed=SeqGenerator(v)).reshape(-1)
        worst = max(worst, float(numpy.max(numpy.abs(s - v @ T))) / max(1e-300, float(numpy.max(numpy.abs(s)))))
    o.stat("lib_calls", nd + len(vs))
    o.close("screen_linear_in_draws", worst, 1e-10)
    return o


def finalize(tier, results):
    """refinement ladder: the error of the ensemble-mean structure function against the analytic one
    decreases strictly with N at both separations"""
    o = Out()
    errs = []
    for N in _ladder(tier):
        r = results.get("sfscreen:N=%d" % N)
        key = "rel_err_at_L0/2_and_L0:N=%d" % N
        if r is None or key not in r.notes:
            return None          # --only run, or the case raised (reported there)
        errs.append(r.notes[key])
    errs = numpy.array(errs, dtype=float)
    ok = bool(numpy.all(numpy.diff(errs, axis=0) < 0))
    o.check("sf_screen_error_decreases_along_ladder", ok, measure=float(numpy.max(numpy.diff(errs, axis=0))), tol=0.0,
            detail="relative errors per N (rows) at r = L0/2, L0: %s" % numpy.round(errs, 4).tolist())
    return o


# ----------------------------------------------------------------------------- temporal power spectrum

def _tps_fn():
    from aotools.turbulence import temporal_ps
    return temporal_ps


def _tps_inputs(n, m):
    """deterministic input family for one (n frames, m sub-apertures): all units, all pairs, dense"""
    d = n * m
    for k in range(d):
        e = numpy.zeros(d)
        e[k] = 1.0
        yield "unit", e.reshape(n, m)
    for k in range(d):
        for l in range(k + 1, d):
            e = numpy.zeros(d)
            e[k] = 1.0
            e[l] = 1.0
            yield "pair", e.reshape(n, m)
    idx = numpy.arange(d).reshape(n, m)
    yield "dense", ((idx * 5 + 3) % 7 - 3).astype(float)
    yield "dense", numpy.sin(1.0 + idx * 0.9) * 1.5 + 0.25
    yield "dense", ((idx * 3 + 1) % 5 - 2).astype(numpy.int64)


def _tps(p):
    o = Out()
    tp = _tps_fn()
    n = p["n"]
    nbins = n // 2
    w_def = {"unit": 0.0, "pair": 0.0, "dense": 0.0}
    w_quad = w_pars = w_batch = 0.0
    first_def = first_quad = first_pars = None
    bad_shape = []
    peaks_bad = []
    for m in SUBAPS:
        # definition on every unit, pair and dense input (leading shape ())
        for kind, x in _tps_inputs(n, m):
            got, err = tp.calc_slope_temporalps(x.copy())
            got = numpy.asarray(got, dtype=float)
            o.stat("lib_calls", 1)
            if got.shape != (nbins,) or numpy.asarray(err).shape != (nbins,):
                bad_shape.append((m, kind, got.shape))
                continue
            want = est.temporal_power_spectrum(x)
            scale = max(1e-300, float(numpy.max(numpy.abs(want))))
            dv = _nanmax(numpy.abs(got - want)) / scale
            if dv > TOL and first_def is None:
                first_def = "n=%d subaps=%d %s input: got %s, |FFT|^2 mean %s" % (n, m, kind, got[:4].tolist(), want[:4].tolist())
            w_def[kind] = max(w_def[kind], dv)
            if kind != "unit":
                for c in (2.0, -3.0):
                    g2 = numpy.asarray(tp.calc_slope_temporalps(x * c)[0], dtype=float)
                    o.stat("lib_calls", 1)
                    gs = max(1e-300, float(numpy.max(numpy.abs(got))))
                    dq = _nanmax(numpy.abs(g2 - c * c * got)) / (c * c * gs)
                    if dq > TOL and first_quad is None:
                        k = int(numpy.argmax(numpy.abs(got)))
                        first_quad = ("n=%d subaps=%d %s input: amplitude x%g changes bin %d by x%.6g (must be x%g)"
                                      % (n, m, kind, c, k, g2[k] / got[k], c * c))
                    w_quad = max(w_quad, dq)
        # pure sinusoids: every returned bin k >= 1, three phases, different phase per sub-aperture
        t = numpy.arange(n)
        for k in range(1, nbins):
            for ph in (0.0, 0.7, 2.1):
                x = numpy.stack([numpy.cos(2 * math.pi * k * t / n + ph + 0.4 * c) * (1.0 + c) for c in range(m)], axis=-1)
                got = numpy.asarray(tp.calc_slope_temporalps(x)[0], dtype=float)
                o.stat("lib_calls", 1)
                if got.shape != (nbins,) or int(numpy.argmax(got)) != k or not got[k] > 0:
                    peaks_bad.append((m, k, ph))
        # Parseval on band-limited signals: mean_c sum_t x^2 = (P_0 + 2 sum_{k>=1} P_k)/n
        for variant in range(3):
            x = numpy.zeros((n, m))
            for c in range(m):
                x[:, c] = 0.5 * (variant + 1) - 0.3 * c
                for k in range(1, nbins):
                    x[:, c] += (1.0 + 0.5 * ((k + c + variant) % 3)) * numpy.cos(2 * math.pi * k * t / n + 0.9 * k + 0.4 * c + variant)
            got = numpy.asarray(tp.calc_slope_temporalps(x.copy())[0], dtype=float)
            o.stat("lib_calls", 1)
            if got.shape != (nbins,):
                continue
            energy = float(numpy.sum(x * x) / m)
            spec = float((got[0] + 2.0 * got[1:].sum()) / n)
            dp = abs(spec - energy) / energy
            if dp > 1e-11 and first_pars is None:
                first_pars = "n=%d subaps=%d: sum_t x^2 (mean over sub-apertures) = %r, (P0 + 2 sum P_k)/n = %r" % (n, m, energy, spec)
            w_pars = max(w_pars, dp)
        # leading shapes: each item of a stack is transformed on its own
        for lead in LEADS[1:]:
            nl = int(numpy.prod(lead))
            items = [numpy.sin(0.5 + numpy.arange(n * m).reshape(n, m) * (0.3 + 0.2 * i)) * (1 + i) for i in range(nl)]
            stack = numpy.array(items).reshape(lead + (n, m))
            got = numpy.asarray(tp.calc_slope_temporalps(stack.copy())[0], dtype=float)
            o.stat("lib_calls", 1 + nl)
            if got.shape != lead + (nbins,):
                bad_shape.append((m, "lead=%s" % (lead,), got.shape))
                continue
            single = numpy.array([numpy.asarray(tp.calc_slope_temporalps(it.copy())[0], dtype=float) for it in items]).reshape(lead + (nbins,))
            w_batch = max(w_batch, _nanmax(numpy.abs(got - single)) / max(1e-300, _nanmax(numpy.abs(single))))
    o.check("tps_result_shape", not bad_shape, detail="(subaps, input, shape) %s" % (bad_shape[:3],))
    o.close("tps_definition_unit_inputs", w_def["unit"], TOL)
    o.close("tps_definition", max(w_def["pair"], w_def["dense"]), TOL, detail=first_def)
    o.close("tps_quadratic_in_amplitude", w_quad, TOL, detail=first_quad)
    o.close("tps_parseval", w_pars, 1e-11, detail=first_pars)
    o.check("tps_sinusoid_peak", not peaks_bad, n=max(1, 3 * len(SUBAPS) * max(0, nbins - 1)),
            detail="(subaps, bin, phase) %s" % (peaks_bad[:3],))
    o.close("tps_leading_shapes_per_item", w_batch, TOL)
    o.outcome([n, round(w_quad, 6)])
    return o


def _tpsaxis(p):
    o = Out()
    tp = _tps_fn()
    worst = 0.0
    bad = []
    for rate in RATES:
        for n in range(1, 34):
            got = numpy.asarray(tp.get_tps_time_axis(rate, n), dtype=float)
            o.stat("lib_calls", 1)
            want = numpy.array(est.frequency_axis(rate, n))
            if got.shape != want.shape:
                bad.append((rate, n, got.shape))
                continue
            if want.size:
                worst = max(worst, float(numpy.max(numpy.abs(got - want))) / rate)
    o.check("tps_axis_length", not bad, detail="(rate, n, shape) %s" % (bad[:3],))
    o.close("tps_axis_is_k_rate_over_n", worst, TOL)
    return o


LEVEL_TEXT = ("Structure function: every shape (a,b) with a,b in 2..6 (quick) / 2..9 (thorough), every (nbOfPoint, step) in the "
              "domain, and every unit image and every pair of unit images (the estimator is a quadratic form, so these "
              "decide it for all inputs of that shape); the ensemble mean over ALL FFT screens from the complete draw-"
              "response operator (2 N^2 unit draws, N = 8..32 / 64). Temporal spectrum: every frame count 2..10 / 2..16 x 1..3 "
              "sub-apertures x 3 leading shapes, all unit inputs and pairs, every sinusoid bin, every (rate, n<=33) axis.")
LEVEL_NOTE = ("Trusted: the loop definitions in mc/refmodels/estimators.py and the textbook structure function in "
              "mc/refmodels/vk_closed_forms.py. Not covered: shapes beyond the bound, lags without overlap, the std-error "
              "output of calc_slope_temporalps, plotting/fitting helpers; the screens clause is a bounded refinement ladder.")


def _storage(p):
    """the estimators are functions of the VALUES: the same numbers in another memory layout or dtype
    (Fortran order, strided / transposed views, read-only, float32, integer types) give the same answer"""
    from mc import variants
    from aotools.turbulence import temporal_ps as tp
    sc = _sc()
    o = Out()
    i, j = numpy.indices((8, 6))
    x = ((3 * i * i + 5 * j + i * j) % 17).astype(float)
    for nb, st in ((3, 1), (2, 2), (None, None)):
        n = variants.check_storage(o, "sf_independent_of_storage",
                                   lambda a: sc.calculate_structure_function(a, nb, st), x, 1e-12, sub="nb=%s:step=%s" % (nb, st),
                                   kinds=("float32", "int64", "int32"))     # phases and slopes are signed quantities
        o.stat("lib_calls", n)
    f, k = numpy.indices((8, 3))
    sl = ((7 * f + 3 * k * k + f * k) % 11).astype(float)
    for name, data in (("2d", sl), ("3d", numpy.array([sl, sl[::-1] + 1]))):
        n = variants.check_storage(o, "tps_independent_of_storage", lambda a: tp.calc_slope_temporalps(a)[0], data, 1e-12,
                                   sub=name, kinds=("float32", "int64", "int32"))
        o.stat("lib_calls", n)
    return o


def _many(p):
    """The definitions do not depend on how many sub-apertures / pixels there are: slope data with up to a few
    hundred sub-apertures (counts around and beyond 128 and 256, with the signal concentrated in the LAST ones)
    and a large non-square phase array against the reference definitions.  (Added after a seeded change averaged
    sub-apertures in blocks of 128 with an unweighted mean of the block means.)"""
    o = Out()
    tp = _tps_fn()
    sc = _sc()
    for n in (8, 9):
        t = numpy.arange(n)
        for m in (127, 128, 129, 130, 200, 256, 257, 300):
            x = 0.01 * numpy.cos(0.3 * numpy.outer(t, numpy.arange(m)) % 7.0)
            x[:, -2:] += 5.0 * numpy.cos(2 * math.pi * 2 * t / n)[:, None]      # strong signal in the last two
            got = numpy.asarray(tp.calc_slope_temporalps(x.copy())[0], dtype=float)
            want = est.temporal_power_spectrum(x)
            o.stat("lib_calls", 1)
            scale = max(1e-300, float(numpy.max(numpy.abs(want))))
            ok = got.shape == want.shape
            o.close("tps_definition_many_subapertures", _nanmax(numpy.abs(got - want)) / scale if ok else float("inf"),
                    TOL, sub="n=%d:subaps=%d" % (n, m))
    i, j = numpy.indices((130, 70))
    ph = numpy.sin(0.07 * i * i % 5.0) + 0.01 * j * i
    for nb, st in ((20, 1), (10, 3), (None, None)):
        got = numpy.asarray(sc.calculate_structure_function(ph.copy(), nb, st), dtype=float)
        want = None
        o.stat("lib_calls", 1)
        if want is None:
            # definition coded here: lag j -> mean over all pairs of rows j*step apart
            step = 1 if st is None else st
            nbv = ph.shape[1] / 4 if nb is None else nb
            xm = int(min(nbv, ph.shape[1] / step - 1))
            want = numpy.array([0.0] + [float(numpy.mean((ph[:-k * step] - ph[k * step:]) ** 2)) for k in range(1, xm)])
        ok = got.shape == want.shape
        scale = max(1e-300, float(numpy.max(numpy.abs(want))))
        o.close("sf_definition_large_array", _nanmax(numpy.abs(got - want)) / scale if ok else float("inf"), TOL,
                sub="nb=%s:step=%s" % (nb, st))
    return o
