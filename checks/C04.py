"""C04 Infinite phase screen rows follow the exact conditional von Karman law.

E1 x E2: every configuration of the bounded lattice (variant, size, stencil depth, atmosphere)
is constructed with an injected generator (public `random_seed=`); then EVERY pixel of the working
array is set to a unit image (zero innovation) and add_row() is called -> one column of the screen
response L, and every unit innovation vector is fed on a zero screen -> one column of B.  The
identities

    A Czz = Cxz,      A Czz A^T + B B^T = Cxx

are verified on the extracted operators against an independent float64 von Karman covariance
at positions recomputed from the documented geometry, which decides the conditional law for
every stencil content and every innovation vector of that configuration (affinity is itself
tested on the basis, and on irrational / wide-range screens).

Setting the working array needs the private attribute `_scrn`.  That protocol (the attribute exists,
an assigned array is honoured, row 0 is the newest row, `.scrn` is its leading block, the injected
generator is asked for the same number of values in every step) is CALIBRATED on the library under
test first; when it does not hold the dependent clauses are skipped and counted
(`state_injection_not_claimed`, `innovation_probe_not_claimed`), never reported.  The `history:` cases
use the public API only (generator / patched default_rng, `.scrn`): the whole life of a screen
(construction + K rows) is linear in the stream of unit normals it consumes, the operators are
extracted from the unit vectors of that stream, and the innovations of all rows must be white, uncorrelated
with the initial screen and have the reference conditional covariance.
"""
import json
import os
import subprocess
import sys

import numpy

from mc import Out, Case
from mc.env import SeqGenerator
from mc.refmodels import vk_cov, fried_stencil as geom

PROPERTY = "C04"
LEVEL = "exploration"
TECHNIQUE = ("bounded exhaustive enumeration of screen configurations (variant x size x stencil depth x "
             "atmosphere) with basis exhaustion of the affine row map: every pixel of the working array "
             "and every innovation unit vector is pushed through add_row() with an injected Generator; "
             "whole-life histories (construction + up to 70 rows) as linear maps of the consumed normal stream")
RULE = ("cases = {vk} x nx x n_columns x atmospheres  +  {fried} x requested nx x "
        "stencil_length_factor x atmospheres; each case extracts the full operators L (new row <- "
        "screen) and B (new row <- innovation); a case is non-trivial when construction succeeds "
        "(LinAlgError at construction is outside the property and counted in construction_failed)")
ASSUMPTIONS = [
    "atmosphere lattice of four (quick; the other three at spot configurations only) or seven (thorough) (pixel_scale, r0, L0) "
    "triples and the size bound; values outside are not covered",
    "identities are decided for all stencil contents / innovations of an enumerated configuration by "
    "affinity of add_row, which is tested on the basis (zero -> zero, pair and dense superpositions, irrational "
    "screens of amplitude 1e2 and 1e4)",
    "tolerance max(1e-5, eps*cond(Czz))*B(0) on the covariance identities (the library casts separations to float32; "
    "measured residuals <= 3e-7*B(0)); 0.25 / 0.3 of the optimal innovation variance on the same identities "
    "in innovation units (measured <= 0.04 / 0.07); 1e-10 on exact algebraic clauses",
    "the reference covariance is the closed-form von Karman covariance in float64 "
    "(mc/refmodels/vk_cov.py, self-tested against its own power spectrum in setup())",
    "the working array is set through the private attribute `_scrn`; the protocol is calibrated on the library "
    "under test and the dependent clauses are skipped (counted in state_injection_not_claimed) when it does not hold",
    "stationarity of the joint statistics is a consequence of the two identities (plus C05's "
    "fixed-point clause) and of the whiteness of the innovations over a history, which is decided for the "
    "history: configurations only",
]
ENGINES = ["E1-product-enumeration", "E2-basis-exhaustion", "E5-environment-answers"]

TOL_COV = 1e-5      # relative to B(0); unchanged library measures <= 3e-7 (float32 separations): > 30x margin
TOL_ALG = 1e-10     # exact algebra in float64: measured <= 1e-15
# The same identities weighted with Czz^-1, i.e. in units of the optimal innovation variance (the natural scale:
# B(0) is dominated by piston-like modes that cancel in a new row).  The unchanged library measures <= 0.040
# (prediction) and <= 0.066 (innovation) over the thorough lattice, both at the near-Kolmogorov atmosphere
# (0.1, 1, 1000) where the float32 separations cost most; 0.25 / 0.3 leave a factor > 4.5.
TOL_PRED = 0.25
TOL_INNOV = 0.3
NEGLIGIBLE_WEIGHT = 1e-6   # a stencil pixel may have an exactly-zero weight only if its optimal weight is below this
EPS = float(numpy.finfo(float).eps)

ATMOSPHERES = [(0.1, 0.2, 25.0), (0.5, 0.1, 10.0), (0.05, 0.2, 100.0), (0.25, 0.15, 5.0)]
# pixel larger than L0/2, very fine sampling of a large outer scale, near-Kolmogorov (whole lattice in the thorough
# tier, spot configurations in the quick tier)
ATMOSPHERES_MORE = [(1.0, 0.1, 2.0), (0.02, 0.3, 50.0), (0.1, 1.0, 1000.0)]


R0_EXTREMES = [(0.1, 1000.0, 10.0), (0.25, 400.0, 25.0), (0.1, 30.0, 5.0), (0.1, 0.002, 25.0), (0.05, 1e-4, 100.0)]

ILL_CONDITIONED = [(0.01, 0.2, 1e4), (0.001, 0.2, 1e3), (0.0005, 0.1, 1e3), (0.002, 0.2, 300.0)]

DEFAULT_DEPTH = {"vk": 2, "fried": 4}       # documented defaults of n_columns / stencil_length_factor


def _factors(tier):
    return [1, 2, 4] if tier == "quick" else [1, 2, 3, 4]


def _atm(tier):
    return ATMOSPHERES if tier == "quick" else ATMOSPHERES + ATMOSPHERES_MORE


def _ncols(tier):
    return [1, 2, 3] if tier == "quick" else [1, 2, 3, 4]


def _vk_sizes(tier):
    return list(range(1, 10)) if tier == "quick" else list(range(1, 21))


def _fried_sizes(tier):
    # requested sizes; internal size is the next 2^M + 1 (2,3,5,9,17,33 / ...,65)
    return list(range(1, 11)) + [17, 18] if tier == "quick" else list(range(1, 19)) + [33, 34, 65]


def _big(tier):
    vk = ((350, 2),) if tier == "quick" else ((350, 2), (520, 1), (300, 3))
    fried = ((100, 1), (200, 4)) if tier == "quick" else ((100, 1), (100, 4), (129, 1), (129, 4), (200, 1), (200, 4))
    return vk, fried


# whole-life histories: (variant, requested nx, depth, seed mode, rows added, atmosphere index)
HISTORIES = [("vk", 2, 1, "gen", 70, 0), ("vk", 2, 2, "int", 70, 1), ("vk", 3, 2, "none", 9, 0), ("vk", 3, 1, "gen", 70, 2),
             ("vk", 4, 2, "int", 9, 3), ("fried", 2, 1, "gen", 70, 0), ("fried", 3, 1, "int", 70, 1), ("fried", 5, 1, "gen", 8, 0),
             ("fried", 3, 2, "none", 9, 2), ("fried", 2, 4, "int", 12, 0), ("fried", 5, 1, "none", 7, 3)]

CONVENTIONS = ["int_scalars:vk", "int_scalars:fried", "float32_pixel_scale:vk", "float32_scalars:fried",
               "zero_d_array_scalars:vk", "zero_d_array_scalars:fried", "numpy_int64_size:vk", "numpy_int64_size:fried",
               "positional_depth:vk", "positional_depth:fried", "default_depth:vk", "default_depth:fried",
               "default_depth_size_1:vk"]


def BOUNDS(tier):
    vkb, frb = _big(tier)
    return {"vk_nx": _vk_sizes(tier), "vk_n_columns": _ncols(tier),
            "fried_requested_nx": _fried_sizes(tier),
            "fried_internal_nx": sorted(set(geom.allowed_size(n)[0] for n in _fried_sizes(tier))),
            "fried_stencil_length_factor": _factors(tier),
            "atmospheres(pixel_scale,r0,L0)": _atm(tier), "r0_extremes(pixel_scale,r0,L0)": R0_EXTREMES,
            "spot_atmospheres_quick(pixel_scale,r0,L0)": ATMOSPHERES_MORE,
            "big_vk(nx,n_columns)": list(vkb), "big_fried(requested nx,factor)": list(frb),
            "largest_internal_size": {"vk": max(n for n, _ in vkb), "fried": max(geom.allowed_size(n)[0] for n, _ in frb)},
            "histories(variant,nx,depth,seed mode,rows,atmosphere)": [list(h) for h in HISTORIES],
            "calling_conventions": CONVENTIONS, "numba_threads_case": 4,
            "tolerances": {"covariance_identities_rel_B0": "max(%g, eps*cond(Czz))" % TOL_COV, "algebraic": TOL_ALG,
                           "prediction_error_excess_rel_innovation_variance": TOL_PRED,
                           "innovation_covariance_rel_innovation_variance": TOL_INNOV}}


def _tag(atm):
    return "ps=%g,r0=%g,L0=%g" % tuple(atm)


def cases(tier):
    seen = set()

    def lattice(variant, nx, depth, atm, nontrivial=False):
        cid = ("vk:nx=%d:nc=%d:%s" if variant == "vk" else "fried:nx=%d:f=%d:%s") % (nx, depth, _tag(atm))
        if cid in seen:
            return None
        seen.add(cid)
        return Case(cid, {"variant": variant, "nx": nx, "depth": depth, "atm": atm}, nontrivial)

    regular = []
    for atm in _atm(tier):
        for nx in _vk_sizes(tier):
            for nc in _ncols(tier):
                # n_columns > nx_size constructs too (it includes the DEFAULT n_columns=2 at nx_size=1): the stencil is
                # the whole working array
                regular.append(lattice("vk", nx, nc, atm))
        for nx in _fried_sizes(tier):
            for f in _factors(tier):
                regular.append(lattice("fried", nx, f, atm))

    # the strength of the turbulence only scales the matrices (A does not depend on r0, B ~ r0^(-5/6)): very weak and
    # very strong turbulence relative to the outer scale, where an absolute regulariser or threshold would show
    for atm in R0_EXTREMES:
        for nx, nc in ((4, 2), (7, 2), (7, 3)):
            regular.append(lattice("vk", nx, nc, atm, True))
        for nx, f in ((5, 2), (9, 4)):
            regular.append(lattice("fried", nx, f, atm, True))
    # quantifier values that are enumerated completely in the thorough tier only get spot configurations in the
    # quick tier (the ids are those of the thorough lattice)
    spots = []
    for atm in ATMOSPHERES_MORE:
        spots += [("vk", 5, 2, atm), ("vk", 8, 3, atm), ("vk", 12, 4, atm), ("fried", 5, 2, atm), ("fried", 9, 4, atm),
                  ("fried", 6, 1, atm), ("fried", 9, 3, atm)]
    for atm in ATMOSPHERES[:2]:
        spots += [("fried", 3, 3, atm), ("fried", 5, 3, atm), ("fried", 10, 3, atm), ("fried", 33, 2, atm),
                  ("vk", 4, 4, atm), ("vk", 6, 4, atm), ("vk", 9, 4, atm), ("vk", 14, 2, atm), ("vk", 20, 3, atm)]
    regular += [lattice(*sp, nontrivial=True) for sp in spots]
    for c in regular:
        if c is not None:
            yield c
    # the ensemble over INTEGER seeds: every default_rng(<int>) the library makes restarts the same stream
    for variant, nx, depth in (("vk", 4, 2), ("vk", 6, 1), ("fried", 3, 2), ("fried", 5, 1)):
        yield Case("intseed:%s:nx=%d:depth=%d" % (variant, nx, depth), {"variant": variant, "nx": nx, "depth": depth, "intseed": True,
                                                                          "atm": ATMOSPHERES[0]}, True)
    for variant, nx, depth, atm in (("fried", 3, 4, ATMOSPHERES[1]), ("vk", 3, 3, ATMOSPHERES_MORE[2])):
        yield Case("intseed:%s:nx=%d:depth=%d:%s" % (variant, nx, depth, _tag(atm)),
                   {"variant": variant, "nx": nx, "depth": depth, "intseed": True, "atm": atm}, True)
    # long extrusions: step k of a long-lived screen against the row a fresh screen makes from the same
    # working array and the same noise (the law of the new row depends on the current stencil values only)
    for variant, nx, depth in (("vk", 3, 2), ("vk", 5, 2), ("vk", 8, 3), ("fried", 3, 1), ("fried", 5, 2), ("fried", 6, 1)):
        yield Case("extrude:%s:nx=%d:depth=%d" % (variant, nx, depth), {"variant": variant, "nx": nx, "depth": depth, "extrude": True,
                                                                          "atm": ATMOSPHERES[0]}, True)
    for variant, nx, depth, atm in (("fried", 3, 4, ATMOSPHERES[1]), ("vk", 4, 2, ATMOSPHERES[2]), ("fried", 7, 3, ATMOSPHERES_MORE[1])):
        yield Case("extrude:%s:nx=%d:depth=%d:%s" % (variant, nx, depth, _tag(atm)),
                   {"variant": variant, "nx": nx, "depth": depth, "extrude": True, "atm": atm}, True)
    vkb, frb = _big(tier)
    for nx, nc in vkb:
        atm = (0.1, 0.2, 25.0)
        yield Case("vk:big:nx=%d:nc=%d" % (nx, nc), {"variant": "vk", "nx": nx, "depth": nc, "atm": atm, "big": True}, True)
    # Fried variant with 7 and 8 stencil levels (internal 129, 257; requested sizes that are and are not 2^n+1)
    for nx, f in frb:
        atm = (0.1, 0.2, 25.0)
        yield Case("fried:big:nx=%d:f=%d" % (nx, f), {"variant": "fried", "nx": nx, "depth": f, "atm": atm, "big": True}, True)
    # Configurations on which the unchanged library refuses to construct (Cholesky of an ill-conditioned
    # stencil covariance raises LinAlgError): outside the property ("for which construction succeeds") as long
    # as they are refused - but if a changed library constructs them anyway, the identities are judged (with
    # the tolerance scaled to the condition number of the reference stencil covariance).
    for atm in ILL_CONDITIONED:
        tag = _tag(atm)
        for nx in (6, 8):
            for nc in (2, 3):
                yield Case("vk:ill:nx=%d:nc=%d:%s" % (nx, nc, tag), {"variant": "vk", "nx": nx, "depth": nc, "atm": atm}, False)
        yield Case("fried:ill:nx=9:f=2:%s" % tag, {"variant": "fried", "nx": 9, "depth": 2, "atm": atm}, False)
    # whole-life histories through the public API only
    for variant, nx, depth, mode, steps, ia in HISTORIES:
        atm = (ATMOSPHERES + ATMOSPHERES_MORE)[ia]
        yield Case("history:%s:nx=%d:depth=%d:seed=%s:rows=%d:%s" % (variant, nx, depth, mode, steps, _tag(atm)),
                   {"variant": variant, "nx": nx, "depth": depth, "atm": atm, "history": mode, "steps": steps}, True)
    # the anchored separations kernel is compiled parallel=True; the harness runs it single-threaded everywhere else
    yield Case("threads:vk:big:nx=350:nc=2", {"variant": "vk", "nx": 350, "depth": 2, "atm": (0.1, 0.2, 25.0), "big": True,
                                               "threads": 4}, True)
    yield Case("threads:fried:nx=18:f=2:%s" % _tag(ATMOSPHERES[0]), {"variant": "fried", "nx": 18, "depth": 2,
                                                                      "atm": ATMOSPHERES[0], "threads": 4}, True)
    # calling conventions of the scalar parameters
    for name in CONVENTIONS:
        conv, variant = name.split(":")
        yield Case("conv:%s" % name, {"variant": variant, "conv": conv}, True)


def setup(tier):
    vk_cov.selftest()        # reference model vs. its own power spectrum (scipy only, no numba)


# ------------------------------------------------------------------------------------------------ helpers

class _NotClaimed(Exception):
    """an assumption of the check's own instrumentation does not hold on the library under test"""


def _maxabs(a):
    a = numpy.asarray(a)
    return float(numpy.max(numpy.abs(a))) if a.size else 0.0


def _count(gen):
    return sum(int(numpy.prod(c)) if c else 1 for c in gen.calls)


def _reload(gen, values=()):
    """give the check's OWN generator double (passed through the public random_seed=) a new list of answers"""
    gen._values = numpy.asarray(values, dtype=float).reshape(-1)
    gen._pos = 0
    gen.calls = []


def _irrational(n, amplitude, shift=0):
    """deterministic non-dyadic values of both signs and a wide range: amplitude * sqrt(prime-like) * (-1)^k"""
    k = numpy.arange(n) + shift
    return amplitude * numpy.sqrt(2.0 + 3.0 * k + (k % 7)) * numpy.where(k % 2 == 0, 1.0, -1.0) / numpy.sqrt(3.0 * n + 9.0)


def _lin_errors():
    from scipy import linalg
    return (linalg.LinAlgError, numpy.linalg.LinAlgError)


def _construct(ips, p, seed):
    """-> (object, requested nx, depth, (ps, r0, L0) as the floats the given scalars denote)"""
    try:
        return _construct_raw(ips, p, seed)
    except RuntimeError as e:
        if "SeqGenerator" in str(e):       # raised by the generator double itself (a distribution it does not script)
            raise _NotClaimed("the library draws through %s" % e)
        raise


def _construct_raw(ips, p, seed):
    variant = p["variant"]
    cls = ips.PhaseScreenVonKarman if variant == "vk" else ips.PhaseScreenKolmogorov
    dkw = "n_columns" if variant == "vk" else "stencil_length_factor"
    conv = p.get("conv")
    if conv is None:
        ps, r0, L0 = p["atm"]
        return cls(p["nx"], ps, r0, L0, random_seed=seed, **{dkw: p["depth"]}), p["nx"], p["depth"], (ps, r0, L0)
    nx, depth = 6, 2
    ps, r0, L0 = 0.1, 0.2, 25.0
    if conv == "int_scalars":
        ps, r0, L0 = 1, 2, 20
        obj = cls(nx, ps, r0, L0, random_seed=seed, **{dkw: depth})
    elif conv == "float32_pixel_scale":
        ps = numpy.float32(0.1)
        obj = cls(nx, ps, r0, L0, random_seed=seed, **{dkw: depth})
    elif conv == "float32_scalars":
        ps, r0, L0 = numpy.float32(0.1), numpy.float32(0.2), numpy.float32(25.0)
        obj = cls(nx, ps, r0, L0, random_seed=seed, **{dkw: depth})
    elif conv == "zero_d_array_scalars":
        ps, r0, L0 = numpy.array(0.1), numpy.array(0.2), numpy.array(25.0)
        obj = cls(nx, ps, r0, L0, random_seed=seed, **{dkw: depth})
    elif conv == "numpy_int64_size":
        nx, depth = (7, 3) if variant == "vk" else (7, 2)
        obj = cls(numpy.int64(nx), ps, r0, L0, random_seed=seed, **{dkw: numpy.int64(depth)})
    elif conv == "positional_depth":
        depth = 3
        obj = cls(nx, ps, r0, L0, seed, depth)
    elif conv == "default_depth":
        nx, depth = 5, DEFAULT_DEPTH[variant]
        obj = cls(nx, ps, r0, L0, random_seed=seed)
    elif conv == "default_depth_size_1":
        nx, depth = 1, DEFAULT_DEPTH[variant]
        obj = cls(nx, ps, r0, L0, random_seed=seed)
    else:
        raise ValueError(conv)
    return obj, nx, depth, (float(ps), float(r0), float(L0))


def _reference(variant, req, depth):
    """documented geometry -> (internal width, stencil list sorted by (row, col))"""
    if variant == "fried":
        nx_ref, _sl, S_ref = geom.fried_stencil(req, depth)
        return nx_ref, S_ref
    return req, geom.vk_stencil(req, min(depth, req))


def _covariances(S, W, atm):
    ps, r0, L0 = atm
    Zpos = numpy.array(S, dtype=float).reshape(-1, 2) * ps
    Xpos = numpy.array(geom.new_row_coords(W), dtype=float) * ps
    return (vk_cov.covariance_matrix(Zpos, Zpos, r0, L0), vk_cov.covariance_matrix(Xpos, Zpos, r0, L0),
            vk_cov.covariance_matrix(Xpos, Xpos, r0, L0), vk_cov.variance(r0, L0))


def _cond(Czz):
    try:
        sv = numpy.linalg.svd(Czz, compute_uv=False)
        return float(sv[0] / sv[-1]) if sv[-1] > 0 else float("inf")
    except Exception:
        return float("inf")


def _judge_identities(o, A, Bop, S, W, atm, keep_outcome=True):
    """the two identities of the statement (and the form in which B is usually derived) for A on stencil S, in units of
    B(0) and in units of the optimal innovation variance"""
    from scipy import linalg
    Czz, Cxz, Cxx, B0 = _covariances(S, W, atm)
    # The explicit inverse of Czz (Cholesky based in the library) is accurate to ~eps*cond(Czz) relative to B(0): on
    # the well-conditioned lattice that is far below 1e-5, on the ILL_CONDITIONED configurations (cond ~1e9..2e11,
    # refused by the unchanged library, constructed e.g. by one that evaluates the covariance in float64: measured
    # 4.4e-6 = 0.19*eps*cond) the tolerance follows the condition number.
    cond = _cond(Czz)
    tol = max(TOL_COV, EPS * cond) if numpy.isfinite(cond) else TOL_COV
    o.close("A_Czz_eq_Cxz", _maxabs(A @ Czz - Cxz) / B0, tol)
    try:
        A_ref = linalg.solve(Czz, Cxz.T, assume_a="sym").T
        Q = Cxx - A_ref @ Cxz.T
        sc = float(numpy.max(numpy.diag(Q)))
    except Exception:
        A_ref, sc = None, 0.0
    in_units = A_ref is not None and numpy.isfinite(sc) and sc > 1e3 * EPS * B0
    if in_units:
        # E|x - A z|^2 - E|x - A_opt z|^2 = (A - A_opt) Czz (A - A_opt)^T = (A Czz - Cxz) Czz^-1 (A Czz - Cxz)^T >= 0:
        # the first identity weighted with Czz^-1
        dA = A - A_ref
        # (quadratic in the error of A: the rounding of an explicit inverse contributes eps^2*cond, nothing, even on the
        # ILL_CONDITIONED configurations - a float64 library measures 1.3e-3 there)
        o.close("prediction_error_excess", _maxabs(numpy.einsum("ij,jk,ik->i", dA, Czz, dA)) / sc, TOL_PRED)
    if Bop is not None:
        BBt = Bop @ Bop.T
        o.close("A_Czz_At_plus_BBt_eq_Cxx", _maxabs(A @ Czz @ A.T + BBt - Cxx) / B0, tol)
        # the same statement in the form the innovation is usually derived: B B^T = Cxx - A Czx
        o.close("BBt_eq_Cxx_minus_A_Czx", _maxabs(BBt - (Cxx - A @ Cxz.T)) / B0, tol)
        if in_units:
            # both identities together: B B^T is the covariance of x - A z
            true_cc = Cxx - A @ Cxz.T - Cxz @ A.T + A @ Czz @ A.T
            o.close("innovation_covariance_in_own_units", _maxabs(BBt - true_cc) / sc, max(TOL_INNOV, EPS * cond * B0 / sc))
    o.note("case_max_abs_A", _maxabs(A))
    if keep_outcome:
        o.outcome(numpy.round(A, 6))


def _attribute_notes(o, obj, A, Bop):
    """`A_mat` / `B_mat` are named as a cross-check in the anchors; their existence, layout, column order and dtype are not
    part of the statement: observations only"""
    try:
        A_attr = numpy.asarray(getattr(obj, "A_mat"), dtype=float)
        o.note("A_mat_vs_behaviour", "shape %s vs %s" % (A_attr.shape, A.shape) if A_attr.shape != A.shape
               else _maxabs(A_attr - A) / max(_maxabs(A_attr), 1e-300))
    except Exception as e:
        o.note("A_mat_vs_behaviour", "not available: %s" % type(e).__name__)
    if Bop is None:
        return
    try:
        B_attr = numpy.asarray(getattr(obj, "B_mat"), dtype=float)
        o.note("B_mat_vs_behaviour", "shape %s vs %s" % (B_attr.shape, Bop.shape) if B_attr.shape != Bop.shape
               else _maxabs(B_attr - Bop) / max(_maxabs(B_attr), 1e-300))
    except Exception as e:
        o.note("B_mat_vs_behaviour", "not available: %s" % type(e).__name__)


class _Prober(object):
    """drives add_row() on a live object: the working array is set through `_scrn` (private; the protocol is calibrated
    first), the innovation through the check's own generator double that was passed as random_seed= (public)."""

    def __init__(self, obj, gen, out, req):
        self.obj, self.gen, self.o, self.req = obj, gen, out, int(req)
        self.H = self.W = None
        self.nd = None                 # values requested from the generator per add_row
        self.draws_constant = True
        self.state_dtype = numpy.dtype(float)

    def _add_row(self):
        try:
            return self.obj.add_row()
        except RuntimeError as e:
            if "SeqGenerator" in str(e):        # raised by the generator double itself (a draw it does not script)
                raise _NotClaimed("the library draws through %s" % e)
            raise

    def calibrate(self):
        """-> return value of the first (public, untouched) add_row.  Raises _NotClaimed when the injection protocol does
        not hold on this library."""
        obj, req = self.obj, self.req
        _reload(self.gen)
        ret = self._add_row()            # public API only: an exception here is the library's
        self.o.stat("lib_calls", 1)
        try:
            arr = numpy.asarray(obj._scrn)
            vis = numpy.asarray(obj.scrn)
        except AttributeError as e:
            raise _NotClaimed("no working array attribute: %s" % e)
        if arr.ndim != 2 or arr.dtype.kind != "f" or vis.ndim != 2 or vis.shape[0] > arr.shape[0] or vis.shape[1] > arr.shape[1]:
            raise _NotClaimed("_scrn is %s %s, .scrn %s" % (arr.shape, arr.dtype, vis.shape))
        if not numpy.array_equal(arr[:vis.shape[0], :vis.shape[1]], vis):
            raise _NotClaimed(".scrn is not the leading block of _scrn")
        H, W = arr.shape
        self.state_dtype = arr.dtype
        P = _irrational(H * W, 3.0).reshape(H, W)
        try:
            obj._scrn = P.copy()
            vis = numpy.asarray(obj.scrn)
            if not numpy.array_equal(vis, P[:vis.shape[0], :vis.shape[1]]):
                raise _NotClaimed("an array assigned to _scrn does not show through .scrn")
            _reload(self.gen)
            self._add_row()
            nd = _count(self.gen)
            after = numpy.asarray(obj._scrn)
            vis = numpy.asarray(obj.scrn)
        except _NotClaimed:
            raise
        except Exception as e:
            raise _NotClaimed("add_row after assigning _scrn: %s: %s" % (type(e).__name__, str(e)[:80]))
        self.o.stat("lib_calls", 1)
        if after.shape != (H, W):
            raise _NotClaimed("working array %s -> %s in one step" % ((H, W), after.shape))
        if not numpy.array_equal(after[1:], P[:-1].astype(after.dtype)):
            raise _NotClaimed("rows 1.. of _scrn after a step are not rows 0.. before it")
        if not numpy.array_equal(after[:vis.shape[0], :vis.shape[1]], vis):
            raise _NotClaimed(".scrn is not the leading block of _scrn after a step")
        self.H, self.W, self.nd = H, W, nd
        return ret

    def step(self, screen, draws=()):
        obj = self.obj
        _reload(self.gen, draws)
        # always a private copy: a library may update its working array in place
        obj._scrn = numpy.array(screen, dtype=float).reshape(self.H, self.W)
        ret = self._add_row()
        self.o.stat("lib_calls", 1)
        if _count(self.gen) != self.nd:
            self.draws_constant = False
        after = numpy.asarray(obj._scrn)
        if after.shape != (self.H, self.W):
            raise _NotClaimed("working array %s -> %s in one step" % ((self.H, self.W), after.shape))
        return numpy.array(after[0], dtype=float), ret

    def innovation_probe_ok(self):
        return self.draws_constant and bool(self.nd)

    def alg_tol(self):
        # exact algebra is judged at 1e-10 when the working array is float64 (measured <= 1e-15); a library that keeps
        # its screen in single precision rounds every row to 6e-8 and is judged at 2e-5 (the identities hold to 1e-5)
        return TOL_ALG if self.state_dtype.itemsize >= 8 else 2e-5


def _not_claimed(o, key, e):
    o.stat(key, 1)
    o.note(key + "_reason", str(e)[:200])
    return o


# ------------------------------------------------------------------------------------------------ lattice cases

def _prefix(ips, p, o):
    """History prefix: screens that differ from the one under test in exactly ONE parameter (an atmosphere parameter,
    the class, the depth, the requested size) are constructed first and discarded.  The matrices of a screen must
    depend on ITS parameters only; anything remembered from an earlier screen under a key that forgets a parameter
    (added after a seeded A/B-matrix cache without r0 was missed, extended to class / depth / size after a cache
    keyed without the class was only found by the accident of the worker schedule) shows up in the identities,
    deterministically, in every case."""
    variant, req, depth = p["variant"], p["nx"], p["depth"]
    ps, r0, L0 = p["atm"]
    other = "fried" if variant == "vk" else "vk"
    n_int = geom.allowed_size(req)[0] if variant == "fried" else req
    sibs = [(variant, req, depth, (ps, r0 * 2.0, L0)), (variant, req, depth, (ps, r0, L0 * 2.0)),
            (variant, req, depth, (ps * 2.0, r0, L0)),
            (other, n_int, 1, (ps, r0, L0)), (other, n_int, min(depth, 4), (ps, r0, L0)), (other, n_int, 2, (ps, r0, L0)),
            (variant, req, depth + 1, (ps, r0, L0))]
    if depth > 1:
        sibs.append((variant, req, depth - 1, (ps, r0, L0)))
    if variant == "fried":
        for r2 in (n_int, n_int - 1):
            if r2 != req and r2 >= 1 and geom.allowed_size(r2)[0] == n_int:
                sibs.append((variant, r2, depth, (ps, r0, L0)))
                break
        sibs.append((variant, n_int + 1, depth, (ps, r0, L0)) if n_int <= 17 else (variant, max(1, n_int // 2), depth, (ps, r0, L0)))
    else:
        sibs.append((variant, req + 1, depth, (ps, r0, L0)))
        if req > 1:
            sibs.append((variant, req - 1, depth, (ps, r0, L0)))
    done = set()
    for v, n, d, atm in sibs:
        if (v, n, d, atm) in done or (v, n, d, atm) == (variant, req, depth, (ps, r0, L0)):
            continue
        done.add((v, n, d, atm))
        try:
            _construct(ips, {"variant": v, "nx": n, "depth": d, "atm": atm}, SeqGenerator(()))
            o.stat("lib_calls", 1)
        except _lin_errors():
            pass


def _find_hidden_reference(Lop, S_used, W, cand, atm, tol_scale):
    """The Fried reference pixel r lies INSIDE the stencil: its own column of A multiplies (z_r - z_r) = 0 and cannot be
    observed through add_row.  For each candidate r the unobservable column is the one that fits the first identity
    best (least squares: a free column, W unknowns).  -> (r, A with that column filled in, residual/B0) of the first
    candidate within tolerance, else of the best one."""
    Czz, Cxz, _Cxx, B0 = _covariances(S_used, W, atm)
    idx = numpy.array([i * W + j for (i, j) in S_used])
    best = None
    for r in cand:
        jr = S_used.index(r)
        A = Lop[:, idx].copy()
        A[:, jr] = 0.0
        c = Czz[jr, :]
        R = Cxz - A @ Czz
        A[:, jr] = R @ c / float(c @ c)
        res = _maxabs(A @ Czz - Cxz) / B0
        if best is None or res < best[2]:
            best = (r, A, res)
        if res <= tol_scale:
            return r, A, res
    return best


def _evaluate_lattice(p):
    from aotools.turbulence import infinitephasescreen as ips
    o = Out()
    fried = p["variant"] == "fried"
    gen0 = SeqGenerator(())
    if p.get("conv") is None and not p.get("threads"):
        _prefix(ips, p, o)
    try:
        obj, req, depth, atm = _construct(ips, p, gen0)
    except _lin_errors() as e:
        o.stat("construction_failed", 1)
        o.note("construction_failed_example", "%s %s: %s" % (p["variant"], (p.get("nx"), p.get("depth"), p.get("atm")),
                                                            str(e)[:80]))
        return o
    o.stat("lib_calls", 1)
    o.stat("nontrivial", 1)
    ps, r0, L0 = atm

    # documented geometry -------------------------------------------------------------------
    nx_ref, S_ref = _reference(p["variant"], req, depth)

    pr = _Prober(obj, gen0, o, req)
    try:
        ret_first = pr.calibrate()
    except _NotClaimed as e:
        # public part of the observation point only
        try:
            _reload(gen0)
            ret = obj.add_row()
            ok = numpy.shape(ret) == (req, req) and numpy.array_equal(numpy.asarray(ret), numpy.asarray(obj.scrn))
            o.check("row_visible_through_scrn", bool(ok), detail="shape %s" % (numpy.shape(ret),))
        except RuntimeError as e2:
            if "SeqGenerator" not in str(e2):
                raise
        return _not_claimed(o, "state_injection_not_claimed", e)
    try:
        return _lattice_body(o, obj, pr, p, fried, req, depth, atm, nx_ref, S_ref, ret_first)
    except _NotClaimed as e:
        return _not_claimed(o, "state_injection_not_claimed", e)


def _lattice_body(o, obj, pr, p, fried, req, depth, atm, nx_ref, S_ref, ret_first):
    ps, r0, L0 = atm
    H, W = pr.H, pr.W
    npix = H * W
    alg = pr.alg_tol()
    o.check("new_row_width", W == nx_ref, detail="working array %s, documented width %d" % ((H, W), nx_ref))

    # E2: full operators (zero innovation while L is extracted) ------------------------------
    zero = numpy.zeros((H, W))
    x0, ret0 = pr.step(zero)
    o.check("zero_maps_to_zero", bool(numpy.all(x0 == 0.0)), measure=_maxabs(x0), tol=0.0)
    Lop = numpy.empty((W, npix))
    for k in range(npix):
        buf = numpy.zeros(npix)
        buf[k] = 1.0
        Lop[:, k], _ = pr.step(buf)
    have_B = pr.innovation_probe_ok()
    nd = pr.nd if have_B else 0
    Bop = None
    if have_B:
        # one column per value the library asks the generator for in one step (their number and order are not part
        # of the statement; B B^T does not depend on either)
        Bop = numpy.empty((W, nd))
        for k in range(nd):
            d = numpy.zeros(nd)
            d[k] = 1.0
            Bop[:, k], _ = pr.step(zero, d)
        have_B = pr.innovation_probe_ok()
    o.note("normal_values_requested_per_add_row", pr.nd)
    if not have_B:
        Bop = None
        nd = 0
        o.stat("innovation_probe_not_claimed", 1)
        o.note("innovation_probe_not_claimed_reason", "the generator is not asked for the same number of values in every step")
    scale = max(_maxabs(Lop), _maxabs(Bop) if have_B else 0.0, 1e-300)

    def model(s, d):
        return Lop @ s + (Bop @ d if have_B else 0.0)

    # affinity on the basis: pair classes + dense combination + non-zero innovation ----------
    worst = 0.0
    for a in range(npix):
        b = (a * 7 + 3) % npix
        s = numpy.zeros(npix)
        s[a] += 1.0
        s[b] += 2.0
        d = numpy.zeros(nd)
        if have_B:
            d[a % nd] = -0.5
        x, _ = pr.step(s, d)
        worst = max(worst, _maxabs(x - model(s, d)))
    s = (numpy.arange(1, npix + 1) % 5 - 2).astype(float)
    d_dense = ((numpy.arange(nd) * 3) % 7 - 3).astype(float)
    x, ret = pr.step(s, d_dense)
    worst = max(worst, _maxabs(x - model(s, d_dense)) / 4.0)
    o.close("affine_superposition", worst / scale, alg)
    # "all stencil contents": non-dyadic values of both signs, amplitude ~1e2 and ~1e4 (a wrapped, clipped, rounded or
    # reduced-precision read of the stencil is exact on the small dyadic images above)
    worst = 0.0
    for amp, shift in ((137.3, 0), (1.0e4, 5), (0.37, 11)):
        s_irr = _irrational(npix, amp, shift)
        x, _ = pr.step(s_irr, d_dense)
        worst = max(worst, _maxabs(x - model(s_irr, d_dense)) / (_maxabs(s_irr) * scale))
    o.close("affine_on_irrational_screens", worst, alg)
    if have_B:
        # "for all innovation vectors": large entries too (b is unbounded; an entry of 10 or 1000 standard deviations
        # is an input like any other for an affine map)
        worst = 0.0
        for k in range(0, nd, max(1, nd // 3)):
            for c in (10.0, -50.0, 1.0e3):
                d = numpy.zeros(nd)
                d[k] = c
                xl, _ = pr.step(zero, d)
                worst = max(worst, _maxabs(xl - c * Bop[:, k]) / (abs(c) * scale))
        o.close("affine_in_large_innovations", worst, alg)
    x, ret = pr.step(s, d_dense)     # the dense step again (last state)

    # observation point named in the anchors: .scrn / return value of add_row -----------------
    view_ok = (numpy.shape(ret) == (req, req) and numpy.shape(ret_first) == (req, req)
               and numpy.array_equal(numpy.asarray(ret), numpy.asarray(obj.scrn))
               and numpy.array_equal(numpy.asarray(obj.scrn)[0], x[:req]))
    o.check("row_visible_through_scrn", bool(view_ok), detail="shape %s" % (numpy.shape(ret),))

    # support of L ---------------------------------------------------------------------------
    nzc = numpy.flatnonzero(numpy.any(numpy.abs(Lop) > 1e-13 * scale, axis=0))
    D = set((int(k // W), int(k % W)) for k in nzc)
    # Fried variant: "a reference pixel" - found behaviourally.  It is the one pixel outside the stencil that has
    # influence, or (no such pixel) it lies inside the stencil.
    ref_pix, ref_hidden = None, False
    if fried:
        outside = D - set(S_ref)
        if geom.REFERENCE_PIXEL in outside:
            ref_pix = geom.REFERENCE_PIXEL
        elif len(outside) == 1:
            ref_pix = next(iter(outside))
            o.note("reference_pixel_observed", list(ref_pix))
        elif not outside:
            ref_hidden = True
        else:
            ref_pix = geom.REFERENCE_PIXEL      # several pixels outside the stencil: stencil_support fails below
    want = set(S_ref) | ({ref_pix} if ref_pix is not None else set())
    extra, missing = D - want, want - D
    # A documented stencil pixel whose weight is exactly zero is not a defect when the optimal weight
    # is negligible anyway (the library evaluates the covariance in float32, which underflows to 0
    # for separations of many outer scales); it is one when the pixel should carry weight.
    negligible = set()
    if missing:
        Cz, Cx, _c, _b = _covariances(S_ref, W, atm)
        A_opt = numpy.linalg.lstsq(Cz, Cx.T, rcond=None)[0].T
        for m in missing:
            if m in S_ref and m != ref_pix and _maxabs(A_opt[:, S_ref.index(m)]) <= NEGLIGIBLE_WEIGHT:
                negligible.add(m)
        o.stat("stencil_pixels_with_underflowed_weight", len(negligible))
    significant = missing - negligible
    o.check("stencil_support", not extra and not significant,
            detail={"outside_documented_stencil": sorted(extra)[:8], "missing": sorted(significant)[:8],
                    "n_observed": len(D), "n_expected": len(want)})
    S_used = sorted(((set(S_ref) - significant) | extra))
    S_used = [(i, j) for (i, j) in S_used if 0 <= i < H and 0 <= j < W]
    if not S_used:
        o.check("A_Czz_eq_Cxz", False, detail="new row does not depend on the screen at all")
        return o
    idx = numpy.array([i * W + j for (i, j) in S_used])
    A = Lop[:, idx].copy()

    if fried:
        # L = A S + (1 - A 1) e_ref^T : constants pass through exactly
        ones = numpy.ones(npix)
        o.close("constant_passes_through", _maxabs(Lop @ ones - 1.0), alg, sub="operator")
        worst = 0.0
        for c in (1.0, -3.5, 1e3):
            x, _ = pr.step(numpy.full((H, W), c))
            worst = max(worst, _maxabs(x - c) / abs(c))
            e = numpy.full(npix, c)
            a = (int(abs(c)) * 5 + 1) % npix
            e[a] += 1.0
            x, _ = pr.step(e)
            worst = max(worst, _maxabs(x - c - Lop[:, a]) / max(abs(c), 1.0))
        # an irrational screen plus an irrational constant
        s_irr = _irrational(npix, 41.7, 3)
        x1, _ = pr.step(s_irr)
        x2, _ = pr.step(s_irr + 977.1234567)
        worst = max(worst, _maxabs(x2 - x1 - 977.1234567) / 977.1234567)
        o.close("constant_passes_through", worst, alg, sub="direct")
        if ref_hidden:
            # the reference pixel is a stencil pixel (internal size 2, where the tail pixel is (1,1); or a library
            # that measures relative to another stencil pixel): its column of A is not observable through add_row.
            Czz_c = _covariances(S_used, W, atm)[0]
            cond = _cond(Czz_c)
            cand = [c for c in [geom.REFERENCE_PIXEL] + S_used if c in S_used]
            cand = sorted(set(cand), key=cand.index)
            found = _find_hidden_reference(Lop, S_used, W, cand, atm, max(TOL_COV, EPS * cond) if numpy.isfinite(cond) else TOL_COV)
            ref_pix, A, _res = found
            o.note("reference_pixel_inside_stencil", list(ref_pix))
            jr = S_used.index(ref_pix)
            others = [j for j in range(len(S_used)) if j != jr]
            kr = ref_pix[0] * W + ref_pix[1]
            o.close("reference_pixel_column", _maxabs(Lop[:, kr] - (1.0 - A[:, others].sum(axis=1))), alg)
        else:
            kr = ref_pix[0] * W + ref_pix[1]
            o.close("reference_pixel_column", _maxabs(Lop[:, kr] - (1.0 - A.sum(axis=1))), alg)

    _attribute_notes(o, obj, A, Bop)
    # oracle: independent covariance at the documented positions ------------------------------
    _judge_identities(o, A, Bop, S_used, W, atm)
    return o


# ------------------------------------------------------------------------------------------------ big configurations

def _evaluate_big(p):
    """A configuration with more than 1024 stencil + new-row points (block-wise implementations change behaviour
    there), or a Fried screen with 7 / 8 stencil levels: the complete affine map is too large to extract pixel by
    pixel, so the response is extracted for every documented stencil pixel (and the reference pixel), for a spread of
    other pixels (which must have no influence) and for every innovation, and the same covariance identities are
    judged."""
    from aotools.turbulence import infinitephasescreen as ips
    o = Out()
    fried = p["variant"] == "fried"
    gen0 = SeqGenerator(())
    try:
        obj, req, depth, atm = _construct(ips, p, gen0)
    except _lin_errors() as e:
        o.stat("construction_failed", 1)          # "for which construction succeeds"
        o.note("construction_failed_example", "%s %s: %s" % (p["variant"], (p["nx"], p["depth"], p["atm"]), str(e)[:80]))
        return o
    o.stat("lib_calls", 1)
    o.stat("nontrivial", 1)
    pr = _Prober(obj, gen0, o, req)
    try:
        pr.calibrate()
        H, W = pr.H, pr.W
        nx_ref, S_ref = _reference(p["variant"], req, depth)
        o.check("new_row_width", W == nx_ref, detail="working array %s, documented width %d" % ((H, W), nx_ref))
        if W != nx_ref or H * W <= max(i * W + j for i, j in S_ref):
            return o
        zero = numpy.zeros((H, W))

        def unit(i, j):
            buf = numpy.zeros((H, W))
            buf[i, j] = 1.0
            return pr.step(buf)[0]
        A = numpy.empty((W, len(S_ref)))
        for c, (i, j) in enumerate(S_ref):
            A[:, c] = unit(i, j)
        scale = max(_maxabs(A), 1e-300)
        inside = set(S_ref)
        ref_pix = None
        if fried:
            ref_pix = geom.REFERENCE_PIXEL
            inside.add(ref_pix)
        others = list(range(0, H * W, max(1, (H * W) // 97)))
        # neighbours of the stencil rows / the last rows and columns
        others += [i * W + j for (i, j) in ((0 + H // 2, 0), (H - 1, 0), (H - 1, W - 1), (H - 2, W // 2), (1, 0), (1, W - 1))]
        influence = {}
        for k in others:
            i, j = divmod(k, W)
            if (i, j) in inside:
                continue
            col = unit(i, j)
            if _maxabs(col) > 1e-13 * scale:
                influence[(i, j)] = col
        if fried and len(influence) == 1 and _maxabs(next(iter(influence.values())) - (1.0 - A.sum(axis=1))) <= pr.alg_tol():
            o.note("reference_pixel_observed", list(next(iter(influence))))      # "a reference pixel": any pixel will do
            influence = {}
        o.close("stencil_support", max([_maxabs(c) for c in influence.values()] or [0.0]), 1e-13 * scale,
                detail="a pixel outside the documented stencil influences the new row: %s" % sorted(influence)[:6])
        s_irr = _irrational(H * W, 137.3).reshape(H, W)
        x, _ = pr.step(s_irr)
        zs = numpy.array([s_irr[i, j] for (i, j) in S_ref])
        want = A @ zs
        if fried:
            worst = 0.0
            for c in (1.0, -3.5, 1e3):
                xc, _ = pr.step(numpy.full((H, W), c))
                worst = max(worst, _maxabs(xc - c) / abs(c))
            o.close("constant_passes_through", worst, pr.alg_tol(), sub="direct")
            # "a reference pixel": x = A (z - z_ref) + z_ref = A z + g z_ref with g = 1 - A 1
            g = 1.0 - A.sum(axis=1)
            col_ref = unit(*ref_pix)
            if _maxabs(g) <= pr.alg_tol():
                # the measured stencil columns already sum to one: the reference pixel is one of the stencil pixels and
                # its column of A cannot be observed (resolved on the small lattice only)
                raise _NotClaimed("reference pixel inside the stencil of a big configuration")
            elif ref_pix not in S_ref and _maxabs(col_ref - g) <= pr.alg_tol():
                want = want + g * s_irr[ref_pix]
            else:
                # another pixel outside the stencil: its value is the one number that explains the rest of the row
                o.note("reference_pixel_differs_from_documented_pixel", _maxabs(col_ref - g))
                want = want + g * float(g @ (x - want) / (g @ g))
        # an irrational screen: the stencil response must explain the row completely
        o.close("affine_on_irrational_screens", _maxabs(x - want) / (_maxabs(s_irr) * max(scale, 1.0)), pr.alg_tol())
        Bop = None
        if pr.innovation_probe_ok():
            nd = pr.nd
            Bop = numpy.empty((W, nd))
            for k in range(nd):
                d = numpy.zeros(nd)
                d[k] = 1.0
                Bop[:, k], _ = pr.step(zero, d)
        if Bop is None or not pr.innovation_probe_ok():
            Bop = None
            o.stat("innovation_probe_not_claimed", 1)
        _judge_identities(o, A, Bop, S_ref, W, atm, keep_outcome=False)
    except _NotClaimed as e:
        return _not_claimed(o, "state_injection_not_claimed", e)
    return o


# ------------------------------------------------------------------------------------------------ long-lived object

def _evaluate_extrude(p):
    """One screen object is extruded for 3*rows+5 steps through the public API (its own generator reloaded per step);
    every step is compared with the row that the operators L, B - extracted once from a FRESH object of the same
    configuration - give for the working array before the step and the same noise."""
    from aotools.turbulence import infinitephasescreen as ips
    o = Out()
    req = p["nx"]
    fresh_gen = SeqGenerator(())
    fresh, _r, _d, atm = _construct(ips, p, fresh_gen)
    o.stat("lib_calls", 1)
    pr = _Prober(fresh, fresh_gen, o, req)
    try:
        pr.calibrate()
        H, W = pr.H, pr.W
        npix = H * W
        Lop = numpy.empty((W, npix))
        for k in range(npix):
            buf = numpy.zeros(npix)
            buf[k] = 1.0
            Lop[:, k], _ = pr.step(buf)
        if not pr.innovation_probe_ok():
            raise _NotClaimed("the generator is not asked for the same number of values in every step")
        nd = pr.nd
        Bop = numpy.empty((W, nd))
        zero = numpy.zeros((H, W))
        for k in range(nd):
            d = numpy.zeros(nd)
            d[k] = 1.0
            Bop[:, k], _ = pr.step(zero, d)
        if not pr.innovation_probe_ok():
            raise _NotClaimed("the generator is not asked for the same number of values in every step")
        # the long-lived object: never touched except through add_row and its generator; initial screen from
        # non-trivial draws
        gen = SeqGenerator(_irrational(1 << 14, 1.3))
        scr = _construct(ips, p, gen)[0]
        o.stat("lib_calls", 1)
        Z = numpy.array(scr._scrn, dtype=float)
        if Z.shape != (H, W) or not numpy.array_equal(Z[:req, :req], numpy.asarray(scr.scrn)):
            raise _NotClaimed("working array of the long-lived object is not observable")
        steps = 3 * H + 5
        scale = max(_maxabs(Z), 1e-300)
        worst = 0.0
        tol = max(1e-10, pr.alg_tol())
        # rows are copied, not recomputed (a screen kept in single precision may round the float64 initial screen once)
        tol_old = 1e-14 if pr.state_dtype.itemsize >= 8 else 5e-7
        for k in range(steps):
            b = ((numpy.arange(nd) * 7 + 3 * k) % 11 - 5.0) / 4.0
            _reload(gen, b)
            try:
                ret = scr.add_row()
            except RuntimeError as e:
                if "SeqGenerator" in str(e):
                    raise _NotClaimed(str(e))
                raise
            o.stat("lib_calls", 1)
            if _count(gen) != nd:
                raise _NotClaimed("the generator is not asked for the same number of values in every step")
            got = numpy.asarray(scr._scrn, dtype=float)
            if got.shape != (H, W):
                raise _NotClaimed("working array changed shape")
            vis = numpy.asarray(ret)
            want0 = Lop @ Z.ravel() + Bop @ b
            # public part: the visible block
            pub_ok = vis.shape == (req, req) and numpy.array_equal(vis, got[:req, :req])
            e_new = _maxabs(got[0] - want0) / scale
            e_old = _maxabs(got[1:] - Z[:-1]) / scale
            worst = max(worst, e_new, e_old)
            if not (pub_ok and e_new <= tol and e_old <= tol_old):
                o.check("long_lived_screen_steps_like_a_fresh_one", False, sub="step=%d" % (k + 1),
                        measure=max(e_new, e_old), tol=tol,
                        detail="step %d of one object differs from the row a fresh object makes from the same working array "
                               "(new row %.3g, older rows %.3g, visible block consistent: %s)" % (k + 1, e_new, e_old, pub_ok))
                return o
            Z = got.copy()
        o.check("long_lived_screen_steps_like_a_fresh_one", True, measure=worst, tol=tol, n=steps)
    except _NotClaimed as e:
        return _not_claimed(o, "state_injection_not_claimed", e)
    except AttributeError as e:
        if "_scrn" in str(e):
            return _not_claimed(o, "state_injection_not_claimed", e)
        raise
    return o


# ------------------------------------------------------------------------------------------------ whole-life histories

class _Streams(object):
    """Model of the library's sources of unit normals during one execution.  `gen` mode: one generator double handed over
    as random_seed=.  `int` / `none` mode: numpy.random.default_rng is replaced; a Generator argument is passed
    through (as numpy does), every other argument yields a fresh generator double that replays the block of z KEYED ON THE
    ARGUMENT (the same integer restarts the same stream, another seed or a spawned SeedSequence is an independent
    stream, None is fresh entropy at every call)."""

    def __init__(self, blocks):
        self.blocks = blocks          # key -> values
        self.gens = []                # (key, generator) in order of creation
        self.n_none = 0

    def key(self, seed):
        if seed is None:
            self.n_none += 1
            return "none#%d" % self.n_none
        if isinstance(seed, (bool, int, numpy.integer)):
            return "int:%d" % int(seed)
        if isinstance(seed, numpy.random.SeedSequence):
            return "ss:%r:%r" % (seed.entropy, tuple(seed.spawn_key))
        if isinstance(seed, numpy.random.BitGenerator):
            raise _NotClaimed("default_rng(BitGenerator) is not modelled")
        try:
            return "seq:%r" % (tuple(int(v) for v in numpy.asarray(seed).ravel()),)
        except Exception:
            raise _NotClaimed("default_rng(%s) is not modelled" % type(seed).__name__)

    def make(self, key):
        g = SeqGenerator(self.blocks.get(key, ()))
        self.gens.append((key, g))
        return g

    def default_rng(self, seed=None):
        if isinstance(seed, numpy.random.Generator):
            return seed
        return self.make(self.key(seed))

    def layout(self):
        """-> list of (key, number of values consumed) in order of first use"""
        used, order = {}, []
        for k, g in self.gens:
            if k not in used:
                order.append(k)
            used[k] = max(used.get(k, 0), g.consumed)
        return [(k, used[k]) for k in order]


def _global_random_used(*a, **k):
    raise _NotClaimed("the library draws from the global numpy.random state")


def _run_life(ips, p, mode, steps, blocks, private, info=None):
    """one life of a screen: construction + `steps` rows -> (list of observed states, stream layout)"""
    st = _Streams(blocks)
    patches = []                  # (module, attribute, original, replacement)
    if mode != "gen":
        real = numpy.random.default_rng
        patches.append((numpy.random, "default_rng", real, st.default_rng))
        # a library that did `from numpy.random import default_rng`
        for name, mod in list(sys.modules.items()):
            if mod is not None and (name == "aotools" or name.startswith("aotools.")):
                for attr, val in list(vars(mod).items()):
                    if val is real:
                        patches.append((mod, attr, real, st.default_rng))
        if mode == "none":
            # the legacy global state is a legitimate source of normals for random_seed=None, but one the stream model
            # does not cover: downgraded to "not claimed"
            for attr in ("normal", "standard_normal", "randn", "random", "rand", "random_sample", "uniform", "seed"):
                patches.append((numpy.random, attr, getattr(numpy.random, attr), _global_random_used))
    try:
        for mod, attr, _orig, repl in patches:
            setattr(mod, attr, repl)
        seed = st.make("gen") if mode == "gen" else (4242 if mode == "int" else None)
        try:
            scr = _construct(ips, p, seed)[0]
            out = [_observe(scr, p["nx"], private)]
            for _ in range(steps):
                scr.add_row()
                out.append(_observe(scr, p["nx"], private))
            if info is not None:
                info["dtype"] = numpy.asarray(scr.scrn).dtype
        except RuntimeError as e:
            if "SeqGenerator" in str(e):
                raise _NotClaimed(str(e))
            raise
    finally:
        for mod, attr, orig, _repl in patches:
            setattr(mod, attr, orig)
    return out, st.layout()


def _observe(scr, req, private):
    vis = numpy.array(scr.scrn, dtype=float)
    if not private:
        return vis
    try:
        full = numpy.array(scr._scrn, dtype=float)
    except AttributeError as e:
        raise _NotClaimed(str(e))
    if full.ndim != 2 or vis.ndim != 2 or not numpy.array_equal(full[:vis.shape[0], :vis.shape[1]], vis):
        raise _NotClaimed(".scrn is not the leading block of _scrn")
    return full


def _life_operators(ips, p, mode, steps, private, o, info=None):
    """-> (list over time of operators [pixels x nz], shape of an observed state, nz).  All outputs are linear in the
    concatenation z of the stream blocks (checked: z = 0 gives 0, twice)."""
    dry, layout = _run_life(ips, p, mode, steps, {}, private, info)
    dry2, layout2 = _run_life(ips, p, mode, steps, {}, private)
    o.stat("lib_calls", 2 * (1 + steps))
    if layout != layout2 or any(_maxabs(a) != 0.0 for a in dry + dry2):
        raise _NotClaimed("a source of randomness escapes the stream model (zero stream does not give a zero screen)")
    if any(a.shape != dry[0].shape for a in dry):
        raise _NotClaimed("observed state changes shape")
    nz = sum(n for _k, n in layout)
    if nz == 0:
        raise _NotClaimed("no normal values requested")
    ops = [numpy.empty((dry[0].size, nz)) for _ in range(steps + 1)]
    col = 0
    for key, n in layout:
        for i in range(n):
            v = numpy.zeros(n)
            v[i] = 1.0
            outs, lay = _run_life(ips, p, mode, steps, {key: v}, private)
            if lay != layout:
                raise _NotClaimed("the stream layout depends on the drawn values")
            for t in range(steps + 1):
                ops[t][:, col] = outs[t].ravel()
            col += 1
    o.stat("lib_calls", nz * (1 + steps))
    o.note("stream_layout", [[k, n] for k, n in layout])
    return ops, dry[0].shape, nz


def _evaluate_history(p):
    """'b is a fresh, independent unit-normal vector' and 'the statistics stay stationary as the screen is extruded', on
    the public API: row_k - E[row_k | screen before] (reference predictor from the documented geometry and the
    reference covariance) must be uncorrelated with the initial screen and with the innovations of all earlier rows and
    have the reference conditional covariance; older rows move down by exactly one row."""
    from aotools.turbulence import infinitephasescreen as ips
    from scipy import linalg
    o = Out()
    variant, req, depth, atm, mode, steps = p["variant"], p["nx"], p["depth"], p["atm"], p["history"], p["steps"]
    fried = variant == "fried"
    nx_ref, S_ref = _reference(variant, req, depth)
    H_ref = depth * nx_ref if fried else nx_ref
    # is every stencil pixel visible through .scrn (public)?  otherwise the full working array is read (guarded)
    private = not all(i < req and j < req for (i, j) in S_ref + ([geom.REFERENCE_PIXEL] if fried else []))
    key = "history_not_claimed" if mode == "gen" else ("none_seed_not_claimed" if mode == "none" else "intseed_not_claimed")
    try:
        info = {}
        ops, shape, nz = _life_operators(ips, p, mode, steps, private, o, info)
    except _NotClaimed as e:
        return _not_claimed(o, key, e)
    o.stat("nontrivial", 1)
    # rows are copied, not recomputed: exact when the screen is kept in float64; a library that keeps its screen in single
    # precision may round the (float64) initial screen once
    single = numpy.dtype(info.get("dtype", float)).itemsize < 8
    Hs, Ws = shape
    if private and (Hs, Ws) != (H_ref, nx_ref):
        return _not_claimed(o, key, "working array %s, documented %s" % (shape, (H_ref, nx_ref)))
    o.check("history_visible_shape", private or (Hs, Ws) == (req, req), detail="observed %s" % (shape,))
    if not private and (Hs, Ws) != (req, req):
        return o
    Czz, Cxz, Cxx, B0 = _covariances(S_ref, nx_ref, atm)
    try:
        A_ref = linalg.solve(Czz, Cxz.T, assume_a="sym").T
    except _lin_errors() as e:
        raise RuntimeError("reference model: %s" % e)
    Q_ref = Cxx - A_ref @ Cxz.T
    Wn = min(Ws, nx_ref)             # visible part of the new row
    sidx = numpy.array([i * Ws + j for (i, j) in S_ref])
    # older rows move down by one (exact copies)
    worst = 0.0
    for t in range(1, steps + 1):
        a = ops[t].reshape(Hs, Ws, nz)[1:]
        b = ops[t - 1].reshape(Hs, Ws, nz)[:-1]
        worst = max(worst, _maxabs(a - b))
    o.close("history_older_rows_move_down", worst / max(_maxabs(ops[0]), 1e-300), 5e-7 if single else 1e-14)

    def innovations(ref):
        E = []
        for t in range(1, steps + 1):
            prev = ops[t - 1]
            Zop = prev[sidx, :]
            if fried:
                rop = prev[ref[0] * Ws + ref[1], :][None, :]
                pred = A_ref @ (Zop - rop) + rop
            else:
                pred = A_ref @ Zop
            E.append(ops[t].reshape(Hs, Ws, nz)[0, :Wn, :] - pred[:Wn])
        return E

    def residuals(E):
        stack = numpy.concatenate(E, axis=0)                   # (steps*Wn) x nz
        G = stack @ stack.T
        cross0 = _maxabs(stack @ ops[0].T) / B0
        own = 0.0
        for t in range(steps):
            blk = G[t * Wn:(t + 1) * Wn, t * Wn:(t + 1) * Wn]
            own = max(own, _maxabs(blk - Q_ref[:Wn, :Wn]) / B0)
            G[t * Wn:(t + 1) * Wn, t * Wn:(t + 1) * Wn] = 0.0
        return cross0, _maxabs(G) / B0, own

    cands = [None]
    if fried:
        cands = [geom.REFERENCE_PIXEL] + [(i, j) for i in range(Hs) for j in range(Ws) if (i, j) != geom.REFERENCE_PIXEL]
        cands = [c for c in cands if c[0] < Hs and c[1] < Ws]
    best = None
    for ref in cands:
        r = residuals(innovations(ref))
        if best is None or max(r) < max(best[1]):
            best = (ref, r)
        if max(r) <= TOL_COV:
            break
    ref, (cross0, cross, own) = best
    if fried and ref != geom.REFERENCE_PIXEL:
        o.note("reference_pixel_observed", list(ref))
    # tolerance: the reference predictor is float64, the library's A carries the float32 separations (<= 3e-7 B(0) in the
    # identities): 1e-5 B(0), the tolerance of the identities
    o.close("history_innovation_uncorrelated_with_initial_screen", cross0, TOL_COV)
    o.close("history_innovations_mutually_uncorrelated", cross, TOL_COV)
    o.close("history_innovation_covariance", own, TOL_COV)
    o.outcome(numpy.round(ops[-1] @ ops[-1].T, 6))
    return o


def _evaluate_intseed(p):
    """'b is a fresh, independent unit-normal vector' for a screen made with an integer seed, compared with the same
    library given a Generator: with an integer seed every numpy.random.default_rng(seed) call inside the library
    restarts the stream that belongs to THAT seed value (see _Streams); with a Generator there is one stream.  The
    initial screen and the rows added afterwards are linear in the streams; the second-order statistics of
    (initial screen, row 1, 2, 3) of both ensembles must agree."""
    from aotools.turbulence import infinitephasescreen as ips
    o = Out()
    steps = 3
    try:
        private = True
        try:
            ops_i, shape_i, nz_i = _life_operators(ips, p, "int", steps, True, o)
        except _NotClaimed:
            private = False
            ops_i, shape_i, nz_i = _life_operators(ips, p, "int", steps, False, o)
        ops_g, shape_g, nz_g = _life_operators(ips, p, "gen", steps, private, o)
    except _NotClaimed as e:
        return _not_claimed(o, "intseed_not_claimed", e)
    if shape_i != shape_g:
        return _not_claimed(o, "intseed_not_claimed", "observed shapes %s / %s" % (shape_i, shape_g))
    Hs, Ws = shape_i

    def parts(ops):
        return [ops[0]] + [ops[t].reshape(Hs, Ws, -1)[0] for t in range(1, steps + 1)]     # [T_init, T_row1, ...]
    Ti, Tg = parts(ops_i), parts(ops_g)
    scale = float(numpy.max(numpy.abs(Tg[0] @ Tg[0].T)))
    for i in range(steps + 1):
        for j in range(i + 1):
            Ci = Ti[i] @ Ti[j].T
            Cg = Tg[i] @ Tg[j].T
            o.close("integer_seeded_ensemble_has_the_same_covariance", _maxabs(Ci - Cg) / scale, 1e-9,
                    sub="%s x %s" % ("initial" if i == 0 else "row%d" % i, "initial" if j == 0 else "row%d" % j))
    return o


# ------------------------------------------------------------------------------------------------ several numba threads

_CHILD = """
import sys, json
sys.path.insert(0, %r)
import mc.repo
import checks.C04 as C
p = json.loads(sys.argv[1])
p["atm"] = tuple(p["atm"])
import numba
o = C.evaluate(p)
try:
    layer = numba.threading_layer()
except Exception:
    layer = None
print("@@C04@@" + json.dumps({"failures": o.failures, "clauses": o.clauses, "stats": o.stats, "notes": o.notes,
                              "threads": numba.get_num_threads(), "layer": layer}))
"""


def _evaluate_threads(p):
    """the same case in a fresh interpreter with NUMBA_NUM_THREADS=4 (the harness pins numba to one thread per worker,
    users run the parallel separations kernel on all cores)"""
    o = Out()
    q = dict(p)
    n = q.pop("threads")
    verif = os.path.dirname(os.path.dirname(os.path.abspath(__file__)))
    env = dict(os.environ, NUMBA_NUM_THREADS=str(n), PYTHONDONTWRITEBYTECODE="1", PYTHONWARNINGS="ignore")
    try:
        r = subprocess.run([sys.executable, "-c", _CHILD % verif, json.dumps(q)], cwd=verif, env=env,
                           capture_output=True, text=True, timeout=600)
        line = [ln for ln in r.stdout.splitlines() if ln.startswith("@@C04@@")]
        if not line:
            # the harness's own child did not deliver (cannot start threads, crashed, ...): not a verdict on the library
            tail = (r.stderr or "").strip().splitlines()[-3:]
            if any("Error" in t or "Exception" in t for t in tail) and "Traceback" in (r.stderr or ""):
                o.check("no_exception", False, sub="numba_threads=%d" % n, detail=" | ".join(tail)[:400])
                return o
            return _not_claimed(o, "threaded_run_not_claimed", "exit %s %s" % (r.returncode, " | ".join(tail)[:160]))
        res = json.loads(line[-1][len("@@C04@@"):])
    except (subprocess.TimeoutExpired, OSError, ValueError) as e:
        return _not_claimed(o, "threaded_run_not_claimed", "%s: %s" % (type(e).__name__, str(e)[:120]))
    if int(res.get("threads") or 0) < 2:
        return _not_claimed(o, "threaded_run_not_claimed", "numba runs %s thread(s)" % res.get("threads"))
    o.failures = res["failures"]
    o.clauses = res["clauses"]
    o.stats = res["stats"]
    o.notes = res["notes"]
    o.note("numba_threads", res.get("threads"))
    o.note("numba_threading_layer", res.get("layer"))
    return o


# ------------------------------------------------------------------------------------------------ dispatch

def evaluate(p):
    try:
        if p.get("threads"):
            return _evaluate_threads(p)
        if p.get("history") or p.get("intseed") or p.get("extrude"):
            try:
                if p.get("history"):
                    return _evaluate_history(p)
                return _evaluate_intseed(p) if p.get("intseed") else _evaluate_extrude(p)
            except _lin_errors() as e:
                o = Out()
                o.stat("construction_failed", 1)          # "for which construction succeeds"
                o.note("construction_failed_example", "%s %s: %s" % (p["variant"], (p["nx"], p["depth"], p["atm"]), str(e)[:80]))
                return o
        if p.get("big"):
            return _evaluate_big(p)
        return _evaluate_lattice(p)
    except _NotClaimed as e:
        # an assumption of the check's own instrumentation fails outside the places where that is expected
        return _not_claimed(Out(), "state_injection_not_claimed", e)


def finalize(tier, results):
    o = Out()
    ok = sum(1 for r in results.values() if r.stats.get("nontrivial"))
    failed = sum(r.stats.get("construction_failed", 0) for r in results.values())
    o.note("max_abs_A_over_lattice", max([r.notes["case_max_abs_A"] for r in results.values()
                                          if "case_max_abs_A" in r.notes] or [None]))
    o.note("stencil_pixels_with_exactly_zero_weight(float32 underflow, optimal weight < 1e-6)",
           sum(r.stats.get("stencil_pixels_with_underflowed_weight", 0) for r in results.values()))
    o.note("constructions_succeeded", ok)
    o.note("constructions_raising_LinAlgError", failed)
    for key in ("state_injection_not_claimed", "innovation_probe_not_claimed", "history_not_claimed", "intseed_not_claimed",
                "none_seed_not_claimed", "threaded_run_not_claimed"):
        o.note("cases_with_" + key, sum(r.stats.get(key, 0) for r in results.values()))
    # the exploration must not be vacuous: most of the lattice has to construct (the ILL_CONDITIONED configurations
    # are expected to be refused and do not count)
    regular = [cid for cid in results if ":ill:" not in cid]
    ok_regular = sum(1 for cid in regular if results[cid].stats.get("nontrivial"))
    # configurations on which the instrument did not apply (stats *_not_claimed and nothing decided) say nothing
    # about constructibility: they are neither counted for nor against it
    unclaimed = sum(1 for cid in regular if not results[cid].stats.get("nontrivial")
                    and not results[cid].stats.get("construction_failed")
                    and any(k.endswith("_not_claimed") for k in results[cid].stats))
    o.note("regular_configurations_not_claimed", unclaimed)
    if len(regular) > unclaimed:
        o.check("lattice_mostly_constructible", ok_regular >= 0.5 * (len(regular) - unclaimed),
                detail="%d of %d configurations constructed (%d more not claimed)" % (ok_regular, len(regular) - unclaimed, unclaimed))
    return o


LEVEL_TEXT = ("Every configuration of the lattice (von Karman: nx 1..9 x n_columns 1..3 (also > nx) x 4 atmospheres quick / "
              "nx 1..20 x n_columns 1..4 x 7 atmospheres thorough; Fried: requested nx 1..10, 17, 18 quick / 1..18, "
              "33, 34, 65 thorough (internal 2,3,5,9,17,33,65) x stencil_length_factor 1,2,4 (and 3 thorough) x the "
              "same atmospheres; quick: spot configurations for factor 3, n_columns 4, nx up to 20 / 33 and the three extra "
              "atmospheres) is constructed and the complete affine map of "
              "add_row() is extracted from every pixel of the working array and every innovation unit vector, "
              "so the conditional-law identities hold for all stencil contents and innovations of those "
              "configurations, not for sampled rows. Spot configurations: von Karman 350 (520, 300 thorough), Fried "
              "requested 100 and 200 (and 129 thorough; internal 129, 257) with the stencil columns and all innovations; "
              "11 whole-life histories (construction + 7..70 rows; Generator, integer and None seeds) as linear maps of the "
              "consumed normal stream; 13 calling conventions of the scalar parameters; two cases with 4 numba threads.")
LEVEL_NOTE = ("Trusted: numpy/scipy (kv, gamma), the reference covariance (self-tested against its power "
              "spectrum) and the documented geometry in mc/refmodels/fried_stencil.py (the Fried reference pixel is "
              "found behaviourally). The working array is set through the private `_scrn` after calibrating that "
              "protocol on the library under test; clauses whose instrumentation assumptions do not hold are skipped "
              "and counted (cases_with_*_not_claimed in the notes), `A_mat`/`B_mat` are compared as observations only. "
              "Not covered: atmospheres/sizes outside the lattice, configurations whose construction raises LinAlgError "
              "(counted), higher-than-second-order statistics (Gaussianity is inherited from the draws).")
