"""C04 Infinite phase screen rows follow the exact conditional von Karman law.

E1 x E2: every configuration of the bounded lattice (variant, size, stencil depth, atmosphere)
is constructed with an injected generator; then EVERY pixel of the working array is set to a
unit image (zero innovation) and add_row() is called -> one column of the screen response L,
and every unit innovation vector is fed on a zero screen -> one column of B.  The new row is
read back through the documented state (`_scrn` row 0, `.scrn`).  The identities

    A Czz = Cxz,      A Czz A^T + B B^T = Cxx

are verified on the extracted operators against an independent float64 von Karman covariance
at positions recomputed from the documented geometry, which decides the conditional law for
every stencil content and every innovation vector of that configuration (affinity is itself
tested on the basis).
"""
import numpy

from mc import Out, Case
from mc.env import SeqGenerator
from mc.refmodels import vk_cov, fried_stencil as geom

PROPERTY = "C04"
LEVEL = "exploration"
TECHNIQUE = ("bounded exhaustive enumeration of screen configurations (variant x size x stencil depth x "
             "atmosphere) with basis exhaustion of the affine row map: every pixel of the working array "
             "and every innovation unit vector is pushed through add_row() with an injected Generator")
RULE = ("cases = {vk} x nx x n_columns(<=nx) x atmospheres  +  {fried} x requested nx x "
        "stencil_length_factor x atmospheres; each case extracts the full operators L (new row <- "
        "screen) and B (new row <- innovation); a case is non-trivial when construction succeeds "
        "(LinAlgError at construction is outside the property and counted in construction_failed)")
ASSUMPTIONS = [
    "atmosphere lattice of four (quick) or seven (thorough) (pixel_scale, r0, L0) triples and the size bound; values outside are "
    "not covered",
    "identities are decided for all stencil contents / innovations of an enumerated configuration by "
    "affinity of add_row, which is tested on the basis (zero -> zero, pair and dense superpositions)",
    "tolerance 1e-5*B(0) on the two covariance identities (the library casts separations to float32; "
    "measured residuals <= 3e-7*B(0)); 1e-10 on exact algebraic clauses",
    "the reference covariance is the closed-form von Karman covariance in float64 "
    "(mc/refmodels/vk_cov.py, self-tested against its own power spectrum in setup())",
    "stationarity of the joint statistics is a consequence of the two identities (plus C05's "
    "fixed-point clause) and is not separately sampled",
]
ENGINES = ["E1-product-enumeration", "E2-basis-exhaustion", "E5-environment-answers"]

TOL_COV = 1e-5      # relative to B(0)
TOL_ALG = 1e-10
NEGLIGIBLE_WEIGHT = 1e-6   # a stencil pixel may have an exactly-zero weight only if its optimal weight is below this

ATMOSPHERES = [(0.1, 0.2, 25.0), (0.5, 0.1, 10.0), (0.05, 0.2, 100.0), (0.25, 0.15, 5.0)]
# thorough only: pixel larger than L0/2, very fine sampling of a large outer scale, near-Kolmogorov
ATMOSPHERES_MORE = [(1.0, 0.1, 2.0), (0.02, 0.3, 50.0), (0.1, 1.0, 1000.0)]


R0_EXTREMES = [(0.1, 1000.0, 10.0), (0.25, 400.0, 25.0), (0.1, 30.0, 5.0), (0.1, 0.002, 25.0), (0.05, 1e-4, 100.0)]


def _factors(tier):
    return [1, 2, 4] if tier == "quick" else [1, 2, 3, 4]


def _atm(tier):
    return ATMOSPHERES if tier == "quick" else ATMOSPHERES + ATMOSPHERES_MORE


def _ncols(tier):
    return [1, 2, 3] if tier == "quick" else [1, 2, 3, 4]


def _vk_sizes(tier):
    return list(range(1, 10)) if tier == "quick" else list(range(1, 21))


def _fried_sizes(tier):
    # requested sizes; internal size is the next 2^M + 1 (2,3,5,9,17,33 / ...,65)
    return list(range(1, 11)) + [17, 18] if tier == "quick" else list(range(1, 19)) + [33, 34, 65]


def BOUNDS(tier):
    return {"vk_nx": _vk_sizes(tier), "vk_n_columns": _ncols(tier),
            "fried_requested_nx": _fried_sizes(tier),
            "fried_internal_nx": sorted(set(geom.allowed_size(n)[0] for n in _fried_sizes(tier))),
            "fried_stencil_length_factor": _factors(tier),
            "atmospheres(pixel_scale,r0,L0)": _atm(tier), "r0_extremes(pixel_scale,r0,L0)": R0_EXTREMES,
            "tolerances": {"covariance_identities_rel_B0": TOL_COV, "algebraic": TOL_ALG}}


def cases(tier):
    for atm in _atm(tier):
        tag = "ps=%g,r0=%g,L0=%g" % atm
        for nx in _vk_sizes(tier):
            for nc in _ncols(tier):
                if nc <= nx:
                    yield Case("vk:nx=%d:nc=%d:%s" % (nx, nc, tag),
                               {"variant": "vk", "nx": nx, "depth": nc, "atm": atm}, False)
        for nx in _fried_sizes(tier):
            for f in _factors(tier):
                yield Case("fried:nx=%d:f=%d:%s" % (nx, f, tag),
                           {"variant": "fried", "nx": nx, "depth": f, "atm": atm}, False)


    # the strength of the turbulence only scales the matrices (A does not depend on r0, B ~ r0^(-5/6)): very weak and
    # very strong turbulence relative to the outer scale, where an absolute regulariser or threshold would show
    for atm in R0_EXTREMES:
        tag = "ps=%g,r0=%g,L0=%g" % atm
        for nx, nc in ((4, 2), (7, 2), (7, 3)):
            yield Case("vk:nx=%d:nc=%d:%s" % (nx, nc, tag), {"variant": "vk", "nx": nx, "depth": nc, "atm": atm}, True)
        for nx, f in ((5, 2), (9, 4)):
            yield Case("fried:nx=%d:f=%d:%s" % (nx, f, tag), {"variant": "fried", "nx": nx, "depth": f, "atm": atm}, True)
    # the ensemble over INTEGER seeds: every default_rng(<int>) the library makes restarts the same stream
    for variant, nx, depth in (("vk", 4, 2), ("vk", 6, 1), ("fried", 3, 2), ("fried", 5, 1)):
        yield Case("intseed:%s:nx=%d:depth=%d" % (variant, nx, depth), {"variant": variant, "nx": nx, "depth": depth, "intseed": True,
                                                                          "atm": ATMOSPHERES[0]}, True)
    # long extrusions: step k of a long-lived screen against the FIRST step of a fresh screen started from the same
    # working array and given the same noise (the law of the new row depends on the current stencil values only)
    for variant, nx, depth in (("vk", 3, 2), ("vk", 5, 2), ("vk", 8, 3), ("fried", 3, 1), ("fried", 5, 2), ("fried", 6, 1)):
        yield Case("extrude:%s:nx=%d:depth=%d" % (variant, nx, depth), {"variant": variant, "nx": nx, "depth": depth, "extrude": True,
                                                                          "atm": ATMOSPHERES[0]}, True)
    for nx, nc in (((350, 2),) if tier == "quick" else ((350, 2), (520, 1), (300, 3))):
        atm = (0.1, 0.2, 25.0)
        yield Case("vk:big:nx=%d:nc=%d" % (nx, nc), {"variant": "vk", "nx": nx, "depth": nc, "atm": atm, "big": True}, True)
    # Configurations on which the unchanged library refuses to construct (Cholesky of an ill-conditioned
    # stencil covariance raises LinAlgError): outside the property ("for which construction succeeds") as long
    # as they are refused - but if a changed library constructs them anyway, the identities are judged.
    for atm in ILL_CONDITIONED:
        tag = "ps=%g,r0=%g,L0=%g" % atm
        for nx in (6, 8):
            for nc in (2, 3):
                yield Case("vk:ill:nx=%d:nc=%d:%s" % (nx, nc, tag), {"variant": "vk", "nx": nx, "depth": nc, "atm": atm}, False)
        yield Case("fried:ill:nx=9:f=2:%s" % tag, {"variant": "fried", "nx": 9, "depth": 2, "atm": atm}, False)


def _evaluate_extrude(p):
    from aotools.turbulence import infinitephasescreen as ips
    o = Out()
    variant, nx, depth = p["variant"], p["nx"], p["depth"]
    ps_, r0, L0 = p["atm"]

    def make():
        if variant == "vk":
            return ips.PhaseScreenVonKarman(nx, ps_, r0, L0, random_seed=1, n_columns=depth)
        return ips.PhaseScreenKolmogorov(nx, ps_, r0, L0, random_seed=1, stencil_length_factor=depth)

    scr = make()
    rows, cols = scr._scrn.shape
    steps = 3 * rows + 5
    worst_new = worst_old = 0.0
    scale = max(_maxabs(scr._scrn), 1e-300)
    for k in range(steps):
        Z = numpy.array(scr._scrn, dtype=float)
        b = ((numpy.arange(cols) * 7 + 3 * k) % 11 - 5.0) / 4.0
        scr._R = SeqGenerator(b)
        scr.add_row()
        twin = make()
        twin._scrn = Z.copy()
        twin._R = SeqGenerator(b)
        twin.add_row()
        o.stat("lib_calls", 3)
        got, want = numpy.asarray(scr._scrn, dtype=float), numpy.asarray(twin._scrn, dtype=float)
        if got.shape != want.shape or got.shape != (rows, cols):
            o.check("long_lived_screen_steps_like_a_fresh_one", False, sub="step=%d" % (k + 1), detail="working array %s" % (got.shape,))
            return o
        worst_new = max(worst_new, _maxabs(got[0] - want[0]) / scale)
        worst_old = max(worst_old, _maxabs(got[1:] - Z[:-1]) / scale)
        if not (_maxabs(got[0] - want[0]) / scale <= 1e-10 and _maxabs(got[1:] - Z[:-1]) == 0.0):
            o.check("long_lived_screen_steps_like_a_fresh_one", False, sub="step=%d" % (k + 1),
                    measure=max(_maxabs(got[0] - want[0]) / scale, _maxabs(got[1:] - Z[:-1]) / scale), tol=1e-10,
                    detail="step %d of one object differs from the first step of a fresh object started from the same working array" % (k + 1))
            return o
    o.check("long_lived_screen_steps_like_a_fresh_one", True, measure=max(worst_new, worst_old), tol=1e-10, n=steps)
    return o


def _evaluate_intseed(p):
    """'b is a fresh, independent unit-normal vector' for a screen made with an integer seed.  With an integer seed
    every numpy.random.default_rng(seed) call inside the library restarts the same stream z of independent unit
    normals; that is modelled exactly (default_rng returns, for a non-Generator argument, a generator replaying z).
    The initial screen and the rows added afterwards are then linear in z; their complete operators are extracted
    from the unit vectors of z.  The innovation of every new row (new row minus the part predicted from the screen
    before the step, A Z, with A extracted behaviourally) must be uncorrelated with the initial screen and with the
    earlier innovations, and have the covariance B B^T of the injected-generator case."""
    from aotools.turbulence import infinitephasescreen as ips
    o = Out()
    variant, nx, depth = p["variant"], p["nx"], p["depth"]
    ps_, r0, L0 = p["atm"]
    steps = 3

    def make(seed):
        if variant == "vk":
            return ips.PhaseScreenVonKarman(nx, ps_, r0, L0, random_seed=seed, n_columns=depth)
        return ips.PhaseScreenKolmogorov(nx, ps_, r0, L0, random_seed=seed, stencil_length_factor=depth)

    def run(z, int_seed):
        real = numpy.random.default_rng

        def fake(seed=None):
            if isinstance(seed, numpy.random.Generator):
                return seed
            return SeqGenerator(z)
        if int_seed:
            numpy.random.default_rng = fake
        try:
            scr = make(4242 if int_seed else SeqGenerator(z))
            out = [numpy.array(scr._scrn, dtype=float).ravel()]
            for _ in range(steps):
                scr.add_row()
                out.append(numpy.array(scr._scrn[0], dtype=float).ravel())
            return out
        finally:
            numpy.random.default_rng = real

    probe = make(SeqGenerator(numpy.zeros(1 << 16)))
    nz = sum(int(numpy.prod(c)) if c else 1 for c in probe._R.calls) + steps * probe.nx_size
    o.stat("lib_calls", 1)
    eye = numpy.eye(nz)
    ops = {}
    for mode in (True, False):
        cols = [run(eye[k], mode) for k in range(nz)]
        o.stat("lib_calls", nz * (1 + steps))
        ops[mode] = [numpy.array([c[i] for c in cols]).T for i in range(steps + 1)]       # [T_init, T_row1, ...]
    scale = float(numpy.max(numpy.abs(ops[False][0] @ ops[False][0].T)))
    for i in range(steps + 1):
        for j in range(i + 1):
            Ci = ops[True][i] @ ops[True][j].T
            Cg = ops[False][i] @ ops[False][j].T
            o.close("integer_seeded_ensemble_has_the_same_covariance", _maxabs(Ci - Cg) / scale, 1e-9,
                    sub="%s x %s" % ("initial" if i == 0 else "row%d" % i, "initial" if j == 0 else "row%d" % j))
    return o


def _evaluate_big(p):
    """A configuration with more than 1024 stencil + new-row points (block-wise implementations change behaviour
    there): the complete affine map is too large to extract pixel by pixel, so the response is extracted for every
    documented stencil pixel, for a spread of other pixels (which must have no influence) and for every
    innovation, and the same covariance identities are judged."""
    from aotools.turbulence import infinitephasescreen as ips
    o = Out()
    ps, r0, L0 = p["atm"]
    nx, nc = p["nx"], p["depth"]
    obj = ips.PhaseScreenVonKarman(nx, ps, r0, L0, random_seed=SeqGenerator(()), n_columns=nc)
    o.stat("lib_calls", 1)
    o.stat("nontrivial", 1)
    pr = _Prober(obj, o)
    H, W = pr.H, pr.W
    S_ref = geom.vk_stencil(nx, nc)
    zero = numpy.zeros((H, W))
    A = numpy.empty((W, len(S_ref)))
    buf = zero.copy()
    for c, (i, j) in enumerate(S_ref):
        buf[i, j] = 1.0
        A[:, c], _ = pr.step(buf)
        buf[i, j] = 0.0
    worst_other = 0.0
    for k in range(0, H * W, max(1, (H * W) // 97)):
        i, j = divmod(k, W)
        if (i, j) in set(S_ref):
            continue
        buf[i, j] = 1.0
        x, _ = pr.step(buf)
        buf[i, j] = 0.0
        worst_other = max(worst_other, _maxabs(x))
    o.close("stencil_support", worst_other, 0.0, detail="a pixel outside the documented stencil influences the new row")
    Bop = numpy.empty((W, W))
    for k in range(W):
        d = numpy.zeros(W)
        d[k] = 1.0
        Bop[:, k], _ = pr.step(zero, d)
    Zpos = numpy.array(S_ref, dtype=float) * ps
    Xpos = numpy.array(geom.new_row_coords(W), dtype=float) * ps
    Czz = vk_cov.covariance_matrix(Zpos, Zpos, r0, L0)
    Cxz = vk_cov.covariance_matrix(Xpos, Zpos, r0, L0)
    Cxx = vk_cov.covariance_matrix(Xpos, Xpos, r0, L0)
    B0 = vk_cov.variance(r0, L0)
    o.close("A_Czz_eq_Cxz", _maxabs(A @ Czz - Cxz) / B0, TOL_COV)
    o.close("A_Czz_At_plus_BBt_eq_Cxx", _maxabs(A @ Czz @ A.T + Bop @ Bop.T - Cxx) / B0, TOL_COV)
    return o


ILL_CONDITIONED = [(0.01, 0.2, 1e4), (0.001, 0.2, 1e3), (0.0005, 0.1, 1e3), (0.002, 0.2, 300.0)]


def setup(tier):
    vk_cov.selftest()        # reference model vs. its own power spectrum (scipy only, no numba)


def _maxabs(a):
    a = numpy.asarray(a)
    return float(numpy.max(numpy.abs(a))) if a.size else 0.0


class _Prober(object):
    """drives add_row() on a live object through its documented state (_scrn, _R)"""

    def __init__(self, obj, out):
        self.obj = obj
        self.o = out
        self.H, self.W = obj._scrn.shape
        self.bad_draw_calls = None

    def step(self, screen, draws=()):
        obj = self.obj
        g = SeqGenerator(draws)
        obj._scrn = screen
        obj._R = g
        ret = obj.add_row()
        self.o.stat("lib_calls", 1)
        if sum(int(numpy.prod(c)) if c else 1 for c in g.calls) != self.W and self.bad_draw_calls is None:
            self.bad_draw_calls = list(g.calls)
        return numpy.array(obj._scrn[0], dtype=float), ret


def evaluate(p):
    if p.get("intseed"):
        return _evaluate_intseed(p)
    if p.get("extrude"):
        return _evaluate_extrude(p)
    if p.get("big"):
        return _evaluate_big(p)
    from scipy import linalg
    from aotools.turbulence import infinitephasescreen as ips
    o = Out()
    ps, r0, L0 = p["atm"]
    req = p["nx"]
    fried = p["variant"] == "fried"
    gen0 = SeqGenerator(())
    # History prefix: screens that differ from the one under test in exactly ONE parameter are constructed first
    # (and discarded).  The matrices of a screen must depend on ITS parameters only; anything remembered from an
    # earlier screen under a key that forgets a parameter (added after a seeded A/B-matrix cache without r0 was
    # missed) now shows up in the identities below, deterministically, in every case.
    for sib in ((ps, r0 * 2.0, L0), (ps, r0, L0 * 2.0), (ps * 2.0, r0, L0)):
        try:
            if fried:
                ips.PhaseScreenKolmogorov(req, sib[0], sib[1], sib[2], random_seed=SeqGenerator(()),
                                          stencil_length_factor=p["depth"])
            else:
                ips.PhaseScreenVonKarman(req, sib[0], sib[1], sib[2], random_seed=SeqGenerator(()),
                                         n_columns=p["depth"])
            o.stat("lib_calls", 1)
        except (linalg.LinAlgError, numpy.linalg.LinAlgError):
            pass
    try:
        if fried:
            obj = ips.PhaseScreenKolmogorov(req, ps, r0, L0, random_seed=gen0,
                                            stencil_length_factor=p["depth"])
        else:
            obj = ips.PhaseScreenVonKarman(req, ps, r0, L0, random_seed=gen0, n_columns=p["depth"])
    except (linalg.LinAlgError, numpy.linalg.LinAlgError) as e:
        o.stat("construction_failed", 1)
        o.note("construction_failed_example", "%s %s: %s" % (p["variant"], (req, p["depth"], p["atm"]),
                                                            str(e)[:80]))
        return o
    o.stat("lib_calls", 1)
    o.stat("nontrivial", 1)

    # documented geometry -------------------------------------------------------------------
    if fried:
        nx_ref, _sl, S_ref = geom.fried_stencil(req, p["depth"])
        ref_pix = geom.REFERENCE_PIXEL
    else:
        nx_ref, S_ref = req, geom.vk_stencil(req, p["depth"])
        ref_pix = None

    pr = _Prober(obj, o)
    H, W = pr.H, pr.W
    npix = H * W
    o.check("new_row_width", W == nx_ref, detail="working array %s, documented width %d" % ((H, W), nx_ref))

    # E2: full operators ---------------------------------------------------------------------
    zero = numpy.zeros((H, W))
    x0, ret0 = pr.step(zero.copy())
    o.check("zero_maps_to_zero", bool(numpy.all(x0 == 0.0)), measure=_maxabs(x0), tol=0.0)
    Lop = numpy.empty((W, npix))
    buf = zero.copy()
    flat = buf.reshape(-1)
    for k in range(npix):
        flat[k] = 1.0
        Lop[:, k], _ = pr.step(buf)
        flat[k] = 0.0
    Bop = numpy.empty((W, W))
    for k in range(W):
        d = numpy.zeros(W)
        d[k] = 1.0
        Bop[:, k], _ = pr.step(zero, d)
    o.check("innovation_draws", pr.bad_draw_calls is None,
            detail="normal() requests per add_row: %s, expected %d values (one per new pixel)" % (pr.bad_draw_calls, W))
    scale = max(_maxabs(Lop), _maxabs(Bop), 1e-300)

    # affinity on the basis: pair classes + dense combination + non-zero innovation ----------
    worst = 0.0
    for a in range(npix):
        b = (a * 7 + 3) % npix
        k = a % W
        s = numpy.zeros(npix)
        s[a] += 1.0
        s[b] += 2.0
        d = numpy.zeros(W)
        d[k] = -0.5
        x, _ = pr.step(s.reshape(H, W), d)
        worst = max(worst, _maxabs(x - (Lop @ s + Bop @ d)))
    s = (numpy.arange(1, npix + 1) % 5 - 2).astype(float)
    d = ((numpy.arange(W) * 3) % 7 - 3).astype(float)
    x, ret = pr.step(s.reshape(H, W), d)
    worst = max(worst, _maxabs(x - (Lop @ s + Bop @ d)) / 4.0)
    o.close("affine_superposition", worst / scale, TOL_ALG)
    x_dense, ret_dense = x, ret
    # "for all innovation vectors": large entries too (b is unbounded; an entry of 10 or 1000 standard deviations
    # is an input like any other for an affine map)
    worst = 0.0
    for k in range(0, W, max(1, W // 3)):
        for c in (10.0, -50.0, 1.0e3):
            d = numpy.zeros(W)
            d[k] = c
            xl, _ = pr.step(zero, d)
            worst = max(worst, _maxabs(xl - c * Bop[:, k]) / (abs(c) * scale))
    o.close("affine_in_large_innovations", worst, TOL_ALG)
    x, ret = pr.step(s.reshape(H, W), ((numpy.arange(W) * 3) % 7 - 3).astype(float))     # the dense step again (last state)

    # observation point named in the anchors: .scrn / return value of add_row -----------------
    view_ok = (numpy.shape(ret) == (req, req)
               and numpy.array_equal(numpy.asarray(ret), obj._scrn[:req, :req])
               and numpy.array_equal(numpy.asarray(obj.scrn)[0], x[:req]))
    o.check("row_visible_through_scrn", bool(view_ok), detail="shape %s" % (numpy.shape(ret),))

    # support of L ---------------------------------------------------------------------------
    nz = numpy.flatnonzero(numpy.any(Lop != 0.0, axis=0))
    D = set((int(k // W), int(k % W)) for k in nz)
    want = set(S_ref) | ({ref_pix} if fried else set())
    extra, missing = D - want, want - D
    # A documented stencil pixel whose weight is exactly zero is not a defect when the optimal weight
    # is negligible anyway (the library evaluates the covariance in float32, which underflows to 0
    # for separations of many outer scales); it is one when the pixel should carry weight.
    negligible = set()
    if missing:
        P = numpy.array(S_ref, dtype=float) * ps
        Xp = numpy.array(geom.new_row_coords(W), dtype=float) * ps
        Cz = vk_cov.covariance_matrix(P, P, r0, L0)
        Cx = vk_cov.covariance_matrix(Xp, P, r0, L0)
        A_ref = numpy.linalg.lstsq(Cz, Cx.T, rcond=None)[0].T
        for m in missing:
            if m in S_ref and m != ref_pix and _maxabs(A_ref[:, S_ref.index(m)]) <= NEGLIGIBLE_WEIGHT:
                negligible.add(m)
        o.stat("stencil_pixels_with_underflowed_weight", len(negligible))
    significant = missing - negligible
    o.check("stencil_support", not extra and not significant,
            detail={"outside_documented_stencil": sorted(extra)[:8], "missing": sorted(significant)[:8],
                    "n_observed": len(D), "n_expected": len(want)})
    S_used = sorted(((set(S_ref) - significant) | extra))
    S_used = [(i, j) for (i, j) in S_used if 0 <= i < H and 0 <= j < W]
    if not S_used:
        o.check("A_Czz_eq_Cxz", False, detail="new row does not depend on the screen at all")
        return o
    idx = numpy.array([i * W + j for (i, j) in S_used])
    A = Lop[:, idx].copy()

    # attributes named as cross-check ----------------------------------------------------------
    A_attr = numpy.asarray(getattr(obj, "A_mat"))
    B_attr = numpy.asarray(getattr(obj, "B_mat"))
    ref_in_stencil = fried and ref_pix in S_used
    if A_attr.shape != A.shape:
        o.check("A_mat_attribute", False, detail="A_mat shape %s, behavioural %s" % (A_attr.shape, A.shape))
    else:
        if ref_in_stencil:
            # the stencil value at the reference pixel is measured relative to itself (= 0), so its
            # column of A is not observable through add_row; take it from the attribute
            jr = S_used.index(ref_pix)
            keep = [j for j in range(len(S_used)) if j != jr]
            o.close("A_mat_attribute", _maxabs(A_attr[:, keep] - A[:, keep]) / max(_maxabs(A_attr), 1e-300),
                    TOL_ALG)
        else:
            o.close("A_mat_attribute", _maxabs(A_attr - A) / max(_maxabs(A_attr), 1e-300), TOL_ALG)
    if B_attr.shape != Bop.shape:
        o.check("B_mat_attribute", False, detail="B_mat shape %s, behavioural %s" % (B_attr.shape, Bop.shape))
    else:
        o.close("B_mat_attribute", _maxabs(B_attr - Bop) / max(_maxabs(B_attr), 1e-300), TOL_ALG)

    if fried:
        # L = A S + (1 - A 1) e_ref^T : constants pass through exactly
        ones = numpy.ones(npix)
        o.close("constant_passes_through", _maxabs(Lop @ ones - 1.0), TOL_ALG, sub="operator")
        worst = 0.0
        for c in (1.0, -3.5, 1e3):
            x, _ = pr.step(numpy.full((H, W), c))
            worst = max(worst, _maxabs(x - c) / abs(c))
            e = numpy.full((H, W), c)
            a = (int(abs(c)) * 5 + 1) % npix
            e.reshape(-1)[a] += 1.0
            x, _ = pr.step(e)
            worst = max(worst, _maxabs(x - c - Lop[:, a]) / max(abs(c), 1.0))
        o.close("constant_passes_through", worst, TOL_ALG, sub="direct")
        kr = ref_pix[0] * W + ref_pix[1]
        if ref_in_stencil:
            jr = S_used.index(ref_pix)
            others = [j for j in range(len(S_used)) if j != jr]
            o.close("reference_pixel_column", _maxabs(Lop[:, kr] - (1.0 - A[:, others].sum(axis=1))), TOL_ALG)
            if A_attr.shape == A.shape:
                A[:, jr] = A_attr[:, jr]
                o.note("ref_pixel_in_stencil", "column of A at the reference pixel taken from A_mat")
            else:
                return o
        else:
            o.close("reference_pixel_column", _maxabs(Lop[:, kr] - (1.0 - A.sum(axis=1))), TOL_ALG)

    # oracle: independent covariance at the documented positions ------------------------------
    Zpos = numpy.array(S_used, dtype=float) * ps
    Xpos = numpy.array(geom.new_row_coords(W), dtype=float) * ps
    Czz = vk_cov.covariance_matrix(Zpos, Zpos, r0, L0)
    Cxz = vk_cov.covariance_matrix(Xpos, Zpos, r0, L0)
    Cxx = vk_cov.covariance_matrix(Xpos, Xpos, r0, L0)
    B0 = vk_cov.variance(r0, L0)
    o.close("A_Czz_eq_Cxz", _maxabs(A @ Czz - Cxz) / B0, TOL_COV)
    o.close("A_Czz_At_plus_BBt_eq_Cxx", _maxabs(A @ Czz @ A.T + Bop @ Bop.T - Cxx) / B0, TOL_COV)
    # the same statement in the form the innovation is usually derived: B B^T = Cxx - A Czx
    o.close("BBt_eq_Cxx_minus_A_Czx", _maxabs(Bop @ Bop.T - (Cxx - A @ Cxz.T)) / B0, TOL_COV)
    o.note("case_max_abs_A", _maxabs(A))
    o.outcome(numpy.round(A, 6))
    return o


def finalize(tier, results):
    o = Out()
    ok = sum(1 for r in results.values() if r.stats.get("nontrivial"))
    failed = sum(r.stats.get("construction_failed", 0) for r in results.values())
    o.note("max_abs_A_over_lattice", max([r.notes["case_max_abs_A"] for r in results.values()
                                          if "case_max_abs_A" in r.notes] or [None]))
    o.note("stencil_pixels_with_exactly_zero_weight(float32 underflow, optimal weight < 1e-6)",
           sum(r.stats.get("stencil_pixels_with_underflowed_weight", 0) for r in results.values()))
    o.note("constructions_succeeded", ok)
    o.note("constructions_raising_LinAlgError", failed)
    # the exploration must not be vacuous: most of the lattice has to construct
    o.check("lattice_mostly_constructible", ok >= 0.5 * max(1, len(results)),
            detail="%d of %d configurations constructed" % (ok, len(results)))
    return o


LEVEL_TEXT = ("Every configuration of the lattice (von Karman: nx 1..9 x n_columns 1..3 (<= nx) x 4 atmospheres quick / "
              "nx 1..20 x n_columns 1..4 x 7 atmospheres thorough; Fried: requested nx 1..10, 17, 18 quick / 1..18, "
              "33, 34, 65 thorough (internal 2,3,5,9,17,33,65) x stencil_length_factor 1,2,4 (and 3 thorough) x the "
              "same atmospheres) is constructed and the complete affine map of "
              "add_row() is extracted from every pixel of the working array and every innovation unit vector, "
              "so the conditional-law identities hold for all stencil contents and innovations of those "
              "configurations, not for sampled rows.")
LEVEL_NOTE = ("Trusted: numpy/scipy (kv, gamma), the reference covariance (self-tested against its power "
              "spectrum) and the documented geometry in mc/refmodels/fried_stencil.py. Not covered: "
              "atmospheres/sizes outside the lattice, configurations whose construction raises LinAlgError "
              "(counted), higher-than-second-order statistics (Gaussianity is inherited from the draws).")
