"""C05 Infinite screen evolves by exactly one row per step, for any history.

E3 (+E2): explicit-state BFS over histories of {add_row, read, print, read_copy, read_twice}
on the live screen object.  The state is what the statement protects: the bytes of the exposed
screen, the state of every random generator the object holds, NumPy's global RNG and the
process-wide settings.  Invariants are evaluated on every transition; a read operation must be a
self-loop AND the rows added after it must be the rows added without it.  Long linear chains
(thousands of add_row calls on ONE live object, with a same-seed twin that is never read, and
arrays handed out earlier re-examined later), histories interleaving two screens, and the
stability clause - decided on the exact second-order model (F, G) extracted behaviourally from
add_row by basis exhaustion - complete the check.

Everything that relies on how the library is written inside (the attributes _scrn / _R / A_mat /
B_mat / stencil_coords / reference_coord, one vector of nx normals drawn per add_row) is GUARDED:
the assumption is tested on the library under test first and, where it does not hold, the clause
is skipped and counted under a `*_not_claimed` statistic - never a violation.
"""
import copy

import numpy

from mc import Out, Case
from mc import statespace as ss
from mc.core import digest
from mc.env import SeqGenerator

PROPERTY = "C05"
LEVEL = "model_checking"
ISOLATE_CASES = True     # every case starts from a pristine process
ENGINES = ["E3-explicit-state-history-search", "E2-basis-exhaustion"]
TECHNIQUE = ("explicit-state breadth-first search over operation histories on the live screen object "
             "(canonical hash of the exposed screen + the object's generators + global RNG + process settings), "
             "invariants on every transition, reads judged as self-loops and by the rows added after them; "
             "linear chains of thousands of add_row calls on one live object with a never-read same-seed twin and "
             "held results; two-screen interleavings against solo runs; stability decided on the linear-Gaussian "
             "recursion extracted by basis exhaustion")
RULE = ("case = (variant, requested size, atmosphere, seed, stencil depth); BFS over all histories of the "
        "operation alphabet to the depth bound with de-duplication on the canonical state hash; "
        "non-trivial = requested size differs from internal size, or size >= 3")
ASSUMPTIONS = [
    "state = bytes of the exposed screen + state of every numpy Generator/RandomState reachable from the object's "
    "attributes + numpy global RandomState + process-wide settings; anything else an operation could depend on is "
    "covered behaviourally (rows added after a read equal the rows added without it; same-seed twin in the chains)",
    "depth bound per tier; because read/print operations are verified to be self-loops in every reached "
    "state, every history of that length over the alphabet is covered, not only the de-duplicated ones",
    "stability clause: von Karman variant only, on the configuration lattice; covariance compared with an "
    "independent float64 von Karman covariance (mc/refmodels/vk_cov.py); decided by rho(F) < 1 and the fixed-point "
    "residual, the distance |P - Sigma| being judged with the amplification 1/(1-rho^2) of that residual",
    "clauses that use the library's private layout (row formula from A_mat/B_mat/stencil_coords and a clone of _R, "
    "shift of the hidden part of the working array, state/noise injection for the extraction) are evaluated only "
    "after the layout has been confirmed on the library under test; otherwise they are counted as *_not_claimed",
]
LEVEL_TEXT = ("All histories of add_row/read/print operations up to depth 5 (quick) / 10 (thorough) are explored "
              "on the real objects for both variants, sizes 2..7,10,11,18 (quick) / 2..12,17,18,20,22,34,40 (thorough) "
              "plus 1, 33, 64, 65 and corner atmospheres, including sizes whose internal working size "
              "is larger, with shift/shape/finite/new-row-at-index-0 invariants checked on every "
              "transition; linear chains of 5000 (quick) / 20000 (thorough) add_row calls on one live object; "
              "the stability and unique-stationary-covariance clause is decided exactly on the "
              "extracted (F,G) recursion (spectral radius, Lyapunov fixed point, convergence from three "
              "starting covariances).")
LEVEL_NOTE = ("Trusted: copy.deepcopy as snapshot, numpy/scipy linear algebra, the reference covariance. "
              "Not covered: sizes above 65 (18 / 40 for the exhaustive enumeration), histories longer than the chain "
              "bound, state kept outside the object that neither changes the rows added next nor the twin comparison.")

ATMOS = [(0.1, 0.2, 25.0), (0.5, 0.1, 10.0), (0.05, 0.2, 100.0), (0.25, 0.15, 5.0)]
OPS = ["add_row", "read", "print", "read_copy", "read_twice"]
READ_OPS = OPS[1:]
STARTS = ["piston1e4", "piston1e8", "tilt", "spike"]
# further pixel_scale / L0 ratios for the stability lattice (ATMOS[1] and ATMOS[3] share the ratio 0.05)
RATIO_ATMOS = [(0.25, 0.15, 25.0), (0.5, 0.15, 2.5), (1.0, 0.2, 1.0), (0.02, 0.1, 10.0)]


def BOUNDS(tier):
    q = tier == "quick"
    return {"sizes": list(range(2, 8)) + [10, 11, 18] if q else list(range(2, 13)) + [17, 18, 20, 22, 34, 40],
            "atmospheres(pixel_scale,r0,L0)": ATMOS[:2 if q else 4],
            "seeds": [1, 2] if q else [1, 2, 3], "ops": OPS, "depth": 5 if q else 10,
            "vk_n_columns": [2] if q else [1, 2, 3],
            "fried_stencil_length_factor": [4] if q else [1, 2, 4],
            "stability_sizes": list(range(2, 7 if q else 13)),
            "stability_big_sizes": [33, 64, 65],
            "stability_extra_ratio_atmospheres": RATIO_ATMOS,
            "big_sizes(depth 3 histories)": [33, 64, 65],
            "chain_steps": 5000 if q else 20000, "chain_steps_secondary": 300 if q else 2000,
            "start_screens(depth 3 histories)": STARTS,
            "conventions(depth 3 histories)": ["N=1", "random_seed=None", "Generator seed", "SeedSequence seed",
                                               "numpy integer N", "stencil_length_factor 3, 5, 8"],
            "pair_history_length": 18,
            "fried_transition_sizes": [3, 5] if q else [3, 5, 9],
            "newest_row_depends_on_draws(variant,n,depth)": [["fried", 6, 4], ["fried", 5, 2], ["fried", 10, 1], ["vk", 5, 2]],
            "largest_size": 65}


def cases(tier):
    b = BOUNDS(tier)
    for variant in ("vk", "fried"):
        for n in b["sizes"]:
            for ai, atm in enumerate(b["atmospheres(pixel_scale,r0,L0)"]):
                for seed in b["seeds"]:
                    depths = b["vk_n_columns"] if variant == "vk" else b["fried_stencil_length_factor"]
                    for sd in depths:
                        if variant == "vk" and sd > n:
                            continue
                        yield Case("hist:%s:n=%d:atm=%d:seed=%d:sd=%d" % (variant, n, ai, seed, sd),
                                   {"kind": "hist", "variant": variant, "n": n, "atm": list(atm), "seed": seed,
                                    "sd": sd, "depth": b["depth"]}, n >= 3)
    # corners of the parameter space: very fine sampling of a large outer scale (the row covariance is barely
    # positive definite there) and very strong turbulence (phase values of hundreds of radians)
    for variant, n, atm, sd in (("vk", 8, (0.008, 0.2, 100.0), 3), ("vk", 6, (0.006, 0.2, 100.0), 2),
                                ("fried", 16, (0.006, 0.2, 100.0), 4), ("fried", 9, (0.008, 0.2, 100.0), 2),
                                ("fried", 6, (0.5, 0.05, 100.0), 4), ("fried", 9, (0.5, 0.05, 100.0), 2),
                                ("vk", 7, (0.5, 0.05, 100.0), 2), ("fried", 5, (1.0, 0.02, 50.0), 4)):
        for seed in (1, 2, 3):
            yield Case("hist:%s:n=%d:ps=%g,r0=%g,L0=%g:seed=%d:sd=%d" % ((variant, n) + atm + (seed, sd)),
                       {"kind": "hist", "variant": variant, "n": n, "atm": list(atm), "seed": seed, "sd": sd,
                        "depth": b["depth"] + 3}, True)
    # size classes above the exhaustive sizes (LAPACK / BLAS block sizes; Fried's stencil has a row every 2^k)
    for variant, n, sd in (("vk", 33, 2), ("vk", 64, 2), ("vk", 65, 3), ("fried", 33, 4), ("fried", 64, 2), ("fried", 65, 4)):
        yield Case("hist:%s:n=%d:big:sd=%d" % (variant, n, sd),
                   {"kind": "hist", "variant": variant, "n": n, "atm": list(ATMOS[0]), "seed": 1, "sd": sd,
                    "depth": 3}, True)
    for n in b["stability_sizes"]:
        for ai, atm in enumerate(ATMOS):
            for nc in ([2] if tier == "quick" else [1, 2, 3]):
                if nc > n:
                    continue
                yield Case("stability:vk:n=%d:atm=%d:ncol=%d" % (n, ai, nc),
                           {"kind": "stab", "n": n, "atm": list(atm), "ncol": nc})
                if n in (3, 5):
                    yield Case("stability:vk:n=%d:atm=%d:ncol=%d:after_siblings" % (n, ai, nc),
                               {"kind": "stab", "n": n, "atm": list(atm), "ncol": nc, "siblings": True})
    # screens larger than the outer scale (separations beyond L0 inside the stencil) and pixels of 1e-4 outer scales
    # (the recursion is then within 1e-4 of a unit root)
    for n, atm, nc in ((5, (1.0, 0.1, 2.0), 2), (6, (0.5, 0.15, 1.0), 2), (8, (0.5, 0.15, 2.5), 1), (6, (0.02, 0.15, 100.0), 2),
                       (8, (0.008, 0.2, 100.0), 2), (12, (0.02, 0.15, 100.0), 1)):
        yield Case("stability:vk:n=%d:ps=%g,r0=%g,L0=%g:ncol=%d" % ((n,) + atm + (nc,)),
                   {"kind": "stab", "n": n, "atm": list(atm), "ncol": nc})
    # configurations the unchanged library refuses to construct (LinAlgError from the Cholesky factorisation of a
    # barely positive definite stencil covariance): outside the property as long as they are refused; judged - shape,
    # finiteness, shift and stability - if a changed library constructs them
    for n, atm, nc in ((16, (0.001, 0.1, 100.0), 2), (8, (0.0005, 0.1, 1000.0), 2), (6, (0.002, 0.2, 300.0), 3),
                       (12, (0.0002, 0.2, 50.0), 1)):
        yield Case("stability:vk:n=%d:ps=%g,r0=%g,L0=%g:ncol=%d:refused" % ((n,) + atm + (nc,)),
                   {"kind": "stab", "n": n, "atm": list(atm), "ncol": nc})
        yield Case("hist:vk:n=%d:ps=%g,r0=%g,L0=%g:sd=%d:refused" % ((n,) + atm + (nc,)),
                   {"kind": "hist", "variant": "vk", "n": n, "atm": list(atm), "seed": 1, "sd": nc, "depth": 3}, False)
    for variant, n, sd in (("vk", 5, 2), ("fried", 5, 4), ("fried", 10, 2)):
        for ai, atm in enumerate(ATMOS[:2]):
            yield Case("hist:%s:n=%d:atm=%d:seed=1:sd=%d:after_siblings" % (variant, n, ai, sd),
                       {"kind": "hist", "variant": variant, "n": n, "atm": list(atm), "seed": 1, "sd": sd, "depth": 3,
                        "siblings": True}, True)

    # ---------------------------------------------------------------- added after the review of this check
    # stability lattice: more pixel_scale/L0 ratios, other stencil depths in the quick tier, the big size classes
    for n, nc in ((4, 1), (4, 3), (6, 1), (6, 3)) if tier == "quick" else ():
        yield Case("stability:vk:n=%d:atm=0:ncol=%d" % (n, nc), {"kind": "stab", "n": n, "atm": list(ATMOS[0]), "ncol": nc})
    for n, nc in ((4, 2), (7, 2), (9, 3)) if tier == "quick" else ((4, 1), (4, 2), (7, 2), (9, 3), (12, 2)):
        for atm in RATIO_ATMOS:
            yield Case("stability:vk:n=%d:ps=%g,r0=%g,L0=%g:ncol=%d:ratio" % ((n,) + atm + (nc,)),
                       {"kind": "stab", "n": n, "atm": list(atm), "ncol": nc})
    for n, nc in ((33, 2), (64, 2), (65, 3)):
        yield Case("stability:vk:n=%d:big:ncol=%d" % (n, nc), {"kind": "stab", "n": n, "atm": list(ATMOS[0]), "ncol": nc})
    # long linear chains on ONE live object (no snapshots): per-step clauses, a same-seed twin that is never read,
    # arrays handed out earlier re-examined after later steps
    long_, short_ = b["chain_steps"], b["chain_steps_secondary"]
    for variant, n, ai, sd, steps in (("vk", 8, 0, 2, long_), ("fried", 6, 0, 4, long_), ("vk", 5, 1, 2, short_),
                                      ("vk", 3, 0, 3, short_), ("vk", 16, 0, 1, short_), ("fried", 5, 1, 2, short_),
                                      ("fried", 9, 0, 1, short_), ("fried", 12, 0, 4, short_), ("fried", 2, 1, 4, short_)):
        yield Case("chain:%s:n=%d:atm=%d:seed=1:sd=%d" % (variant, n, ai, sd),
                   {"kind": "chain", "variant": variant, "n": n, "atm": list(ATMOS[ai]), "seed": 1, "sd": sd,
                    "steps": steps}, True)
    yield Case("chain:fried:n=6:ps=0.5,r0=0.05,L0=100:seed=2:sd=4",
               {"kind": "chain", "variant": "fried", "n": 6, "atm": [0.5, 0.05, 100.0], "seed": 2, "sd": 4, "steps": short_}, True)
    # start screens the FFT initial screen never produces (the recursion is claimed for ANY starting screen)
    for variant, n, sd in (("vk", 5, 2), ("fried", 6, 4)):
        for start in STARTS:
            yield Case("hist:%s:n=%d:atm=0:seed=1:sd=%d:start=%s" % (variant, n, sd, start),
                       {"kind": "hist", "variant": variant, "n": n, "atm": list(ATMOS[0]), "seed": 1, "sd": sd, "depth": 3,
                        "start": start}, True)
    # parameter conventions
    for variant, n, sd, conv in (("vk", 1, 1, "int"), ("fried", 1, 4, "int"), ("vk", 4, 2, "none"), ("fried", 4, 4, "none"),
                                 ("vk", 4, 2, "generator"), ("fried", 6, 4, "generator"), ("vk", 3, 2, "seedseq"),
                                 ("fried", 3, 2, "seedseq"), ("vk", 6, 2, "npint"), ("fried", 6, 4, "npint"),
                                 ("fried", 4, 3, "int"), ("fried", 7, 5, "int"), ("fried", 3, 8, "int")):
        yield Case("hist:%s:n=%d:atm=0:sd=%d:conv=%s" % (variant, n, sd, conv),
                   {"kind": "hist", "variant": variant, "n": n, "atm": list(ATMOS[0]), "seed": 1, "sd": sd, "depth": 3,
                    "conv": conv}, True)
    # two live screens in one process, operations interleaved
    for va, vb, n, sd_a, sd_b in (("vk", "vk", 5, 2, 2), ("fried", "fried", 6, 4, 4), ("vk", "fried", 5, 2, 2)):
        yield Case("pair:%s+%s:n=%d:atm=0" % (va, vb, n),
                   {"kind": "pair", "va": va, "vb": vb, "n": n, "atm": list(ATMOS[0]), "sd_a": sd_a, "sd_b": sd_b}, True)
    # "the newly generated row at index 0": the newest exposed row must depend on the draws of the step that made it
    for variant, n, sd in (("fried", 6, 4), ("fried", 5, 2), ("fried", 10, 1), ("vk", 5, 2)):
        yield Case("newrow:%s:n=%d:atm=0:sd=%d" % (variant, n, sd),
                   {"kind": "newrow", "variant": variant, "n": n, "atm": list(ATMOS[0]), "sd": sd}, True)
    # Fried variant: the transition of the whole working array must not be explosive ("finite after any number of steps")
    for n in b["fried_transition_sizes"]:
        for slf in ((1, 4) if tier == "quick" else (1, 2, 4)):
            yield Case("fried_transition:n=%d:slf=%d" % (n, slf), {"kind": "fried_T", "n": n, "atm": list(ATMOS[0]), "slf": slf})


# --------------------------------------------------------------------------------------------- construction

def _construct(variant, n, atm, seed, sd):
    from aotools.turbulence import infinitephasescreen as ips
    ps, r0, L0 = atm
    if variant == "vk":
        return ips.PhaseScreenVonKarman(n, ps, r0, L0, random_seed=seed, n_columns=sd)
    return ips.PhaseScreenKolmogorov(n, ps, r0, L0, random_seed=seed, stencil_length_factor=sd)


def _construct_conv(p):
    conv = p.get("conv", "int")
    n, seed = p["n"], p["seed"]
    if conv == "none":
        seed = None
    elif conv == "generator":
        seed = numpy.random.default_rng(5)
    elif conv == "seedseq":
        seed = numpy.random.SeedSequence(7)
    elif conv == "npint":
        n, seed = numpy.int64(n), numpy.int32(seed)
    return _construct(p["variant"], n, p["atm"], seed, p["sd"])


def _siblings_first(variant, n, atm, seed, sd):
    """screens that differ from the one under test in ONE parameter are built (and stepped once) first, in the same
    process: whatever the library remembers from them must not reach the screen under test.  (Added after a seeded
    change shared the A/B matrices between screens of equal geometry but different r0.)"""
    from scipy import linalg
    ps, r0, L0 = atm
    for sib in ((ps, r0 * 0.5, L0), (ps, r0 * 3.0, L0), (ps, r0, L0 * 2.0), (ps * 2.0, r0, L0)):
        try:
            s_ = _construct(variant, n, sib, seed + 1, sd)
            s_.add_row()
        except linalg.LinAlgError:
            pass


def evaluate(p):
    if p.get("siblings"):
        _siblings_first(p.get("variant", "vk"), p["n"], p["atm"], p.get("seed", 1), p.get("sd", p.get("ncol", 2)))
    kind = p["kind"]
    if kind == "hist":
        return _hist(p)
    if kind == "chain":
        return _chain(p)
    if kind == "pair":
        return _pair(p)
    if kind == "fried_T":
        return _fried_transition(p)
    if kind == "newrow":
        return _newrow(p)
    return _stability(p)


# --------------------------------------------------------------------------------------------- observable state

def _generators(obj, depth=0, path="", seen=None, out=None):
    """state of every random generator reachable from the attributes of `obj` (whatever they are called)"""
    if out is None:
        out, seen = [], set()
    if depth > 3 or id(obj) in seen:
        return out
    seen.add(id(obj))
    if isinstance(obj, numpy.random.Generator):
        out.append((path, repr(obj.bit_generator.state), getattr(obj, "_pos", None)))
    elif isinstance(obj, numpy.random.RandomState):
        out.append((path, digest(list(obj.get_state()))))
    elif isinstance(obj, numpy.random.BitGenerator):
        out.append((path, repr(obj.state)))
    elif isinstance(obj, dict):
        for k in sorted(obj, key=str):
            _generators(obj[k], depth + 1, path + "/" + str(k), seen, out)
    elif isinstance(obj, (list, tuple)) and len(obj) <= 16:
        for i, x in enumerate(obj):
            _generators(x, depth + 1, path + "/%d" % i, seen, out)
    elif hasattr(obj, "__dict__") and not isinstance(obj, (type, numpy.ndarray)) and not callable(obj):
        _generators(vars(obj), depth, path, seen, out)
    return out


def _observable(scr):
    """what the statement protects of one screen: the exposed values (not their memory layout) and the random stream"""
    a = numpy.asarray(scr.scrn)
    return digest([a, repr(sorted(_generators(scr)))])


class _ObsWorld(ss.World):
    def components(self):
        c = {"obj:" + k: _observable(v) for k, v in self.objects.items()}
        st = numpy.random.get_state()
        c["numpy.global_rng"] = digest([st[0], st[1], st[2], st[3], st[4]])
        c["process_settings"] = ss.process_settings()
        return c


def _hidden_digest(scr, modules):
    """module globals and class attributes: not part of the protected state (a cache or a counter there is the
    library's own business); a change is recorded as an observation only"""
    parts = [ss.module_globals_digest(modules)]
    for klass in type(scr).__mro__[:-1]:
        for k, v in sorted(vars(klass).items()):
            if k[:2] == "__" or callable(v) or isinstance(v, (property, staticmethod, classmethod)):
                continue
            parts.append(klass.__name__ + "." + k + "=" + ss.obj_digest(v))
    return digest(parts)


def _apply(s, op):
    if op == "add_row":
        return s.add_row()
    if op == "read":
        return s.scrn
    if op == "print":
        return (repr(s), str(s))
    if op == "read_copy":
        return numpy.array(s.scrn)
    if op == "read_twice":
        a = s.scrn
        b = s.scrn
        return (a, b)
    raise ValueError(op)


def _bytes(a):
    return numpy.ascontiguousarray(numpy.asarray(a)).tobytes()


def _next_rows(s, k):
    return [_bytes(s.add_row()) for _ in range(k)]


# --------------------------------------------------------------------------------------------- guarded row formula

def _working(s, n):
    """the library's working array, if it has the layout the guarded clauses assume: a 2-d float array `_scrn`, at
    least n x n, whose top-left n x n corner is the exposed screen.  None otherwise."""
    try:
        w = getattr(s, "_scrn", None)
        if not isinstance(w, numpy.ndarray) or w.ndim != 2 or w.shape[0] < n or w.shape[1] < n or w.dtype.kind != "f":
            return None
        e = numpy.asarray(s.scrn)
        if e.shape != (n, n) or _bytes(w[:n, :n]) != _bytes(e):
            return None
        return w
    except Exception:
        return None


def _formula_row(s, n, fried):
    """Reference for the next row of `s` (evaluated BEFORE the step): A.stencil + B.noise with the library's own
    A_mat / B_mat / stencil_coords (/ reference_coord) and the next draws of a CLONE of its generator.
    -> (row, clone, scale) or None when the private layout is not the assumed one (never raises)."""
    try:
        w = _working(s, n)
        g = copy.deepcopy(getattr(s, "_R", None))
        A, B, sc = getattr(s, "A_mat", None), getattr(s, "B_mat", None), getattr(s, "stencil_coords", None)
        if w is None or type(g) is not numpy.random.Generator:
            return None
        if not all(isinstance(x, numpy.ndarray) and x.ndim == 2 for x in (A, B, sc)):
            return None
        if sc.shape[1] != 2 or A.shape != (B.shape[0], sc.shape[0]) or B.shape[0] != w.shape[1]:
            return None
        b = g.normal(0, 1, size=B.shape[1])
        z = w[(sc[:, 0], sc[:, 1])].astype(float)
        if fried:
            ref = float(w[s.reference_coord])
            row = A.dot(z - ref) + B.dot(b) + ref
        else:
            row = A.dot(z) + B.dot(b)
        return row, g, max(1.0, float(numpy.max(numpy.abs(w))))
    except Exception:
        return None


def _check_new_row(o, pre, s, new_exposed, n, sub):
    """pre = _formula_row() of the state before the step; s = the object after it"""
    if pre is None:
        o.stat("row_formula_not_claimed", 1)
        return
    row, g, scale = pre
    try:
        same_draws = (type(getattr(s, "_R", None)) is numpy.random.Generator and
                      repr(g.bit_generator.state) == repr(s._R.bit_generator.state))
    except Exception:
        same_draws = False
    if not same_draws:
        # the statement does not say how many normals a step draws, or in which order: the reference is only valid
        # when the library's generator is where the clone is after ONE vector of nx normals
        o.stat("draw_layout_not_claimed", 1)
        return
    o.stat("draw_layout_confirmed", 1)
    w = _working(s, n)
    # tolerance 1e-10 relative to the largest |phase|: three other evaluation orders of the same expression differ by
    # <= 2.4e-15 (sum |A| per row <= 50), so the margin is > 1e4
    if w is not None and w.shape[1] == row.shape[0]:
        err = float(numpy.max(numpy.abs(w[0] - row))) / scale
    elif new_exposed.shape == (n, n):
        err = min(float(numpy.max(numpy.abs(new_exposed[0] - row[j:j + n]))) for j in range(row.shape[0] - n + 1)) / scale
    else:
        return
    o.close("new_row_is_A_stencil_plus_B_noise", err, 1e-10, sub=sub)
    if new_exposed.shape == (n, n) and row.shape[0] >= n:
        # "with the newly generated row at index 0" of the EXPOSED screen (any contiguous crop of the internal row)
        err = min(float(numpy.max(numpy.abs(new_exposed[0] - row[j:j + n]))) for j in range(row.shape[0] - n + 1)) / scale
        o.close("newest_row_is_exposed_at_index_0", err, 1e-10, sub=sub)


def _check_step(o, old_exposed, old_working, s, result, n, sub):
    """clauses of one add_row on exposed values; old_* are copies taken before the step. -> new exposed screen"""
    new_exposed = numpy.asarray(s.scrn)
    o.check("exposed_shape", new_exposed.shape == (n, n), sub=sub, detail=new_exposed.shape)
    o.check("finite", bool(numpy.all(numpy.isfinite(new_exposed))), sub=sub)
    o.check("shift_down_by_one_row_bit_exact",
            new_exposed.shape == old_exposed.shape and _bytes(new_exposed[1:]) == _bytes(old_exposed[:-1]), sub=sub)
    o.check("return_value_is_exposed_screen", numpy.array_equal(numpy.asarray(result), new_exposed), sub=sub)
    w = _working(s, n)
    if old_working is not None and w is not None and w.shape == old_working.shape:
        # hidden rows of the working array (Fried variant): they feed the stencil of later steps
        o.check("working_array_shifted", _bytes(w[1:]) == _bytes(old_working[:-1]), sub=sub)
    else:
        o.stat("working_array_not_claimed", 1)
    return new_exposed


def _start_image(w, start):
    img = numpy.array(w, dtype=float)
    if start == "piston1e4":
        img += 1e4
    elif start == "piston1e8":
        img += 1e8
    elif start == "tilt":
        img += 1e3 * numpy.arange(img.shape[0])[:, None] - 7e2 * numpy.arange(img.shape[1])[None, :]
    elif start == "spike":
        img[min(1, img.shape[0] - 1), img.shape[1] // 2] = 3e6
    return img


# --------------------------------------------------------------------------------------------- histories (BFS)

def _hist(p):
    from scipy import linalg
    from aotools.turbulence import infinitephasescreen as ips, phasescreen, turb
    o = Out()
    try:
        scr = _construct_conv(p)
    except linalg.LinAlgError:
        # "for which construction succeeds": outside the property
        o.check("construction_outside_domain", True)
        o.stat("constructions_failed_linalg", 1)
        o.stat("states", 1)
        o.stat("transitions", 1)
        return o
    o.stat("lib_calls", 1)
    n = int(p["n"])
    fried = p["variant"] == "fried"
    # a same-seed twin that is stepped without ever being read (the search reads the screen under test before its
    # first add_row already): the all-add_row history must give the same rows
    twin_rows = []
    if p.get("conv", "int") in ("int", "npint") and not p.get("start"):
        twin_rows = _next_rows(_construct_conv(p), min(3, p["depth"]))
        o.stat("lib_calls", 1 + len(twin_rows))
    modules = (ips, phasescreen, turb)
    if p.get("start"):
        # any starting screen: put one in through the working array (guarded: it must read back through .scrn)
        w = _working(scr, n)
        ok = False
        if w is not None:
            keep = w
            try:
                img = _start_image(w, p["start"])
                scr._scrn = img
                ok = _bytes(scr.scrn) == _bytes(img[:n, :n])
            except Exception:
                ok = False
            if not ok:
                scr._scrn = keep
        o.stat("start_screen_injected" if ok else "start_injection_not_claimed", 1)
    world = _ObsWorld({"scr": scr})
    o.check("initial_shape", numpy.asarray(scr.scrn).shape == (n, n), detail=numpy.asarray(scr.scrn).shape)
    o.check("initial_finite", bool(numpy.all(numpy.isfinite(scr.scrn))))

    def alphabet(w):
        return OPS

    pre_state = {}
    future = {}

    def apply_with_pre(w, op):
        s = w.objects["scr"]
        pre_state["hidden"] = _hidden_digest(s, modules)
        if op == "add_row":
            pre_state["exposed"] = numpy.array(s.scrn)
            ww = _working(s, n)
            pre_state["working"] = None if ww is None else numpy.array(ww)
            pre_state["formula"] = _formula_row(s, n, fried)
        else:
            # the rows the next two add_row calls give WITHOUT the read (on a copy of this state)
            k = _observable(s)
            if k not in future:
                future.clear()
                future[k] = _next_rows(copy.deepcopy(s), 2)
            pre_state["future"] = future[k]
        return _apply(s, op)

    def on_transition(hist, op, pre, w, result, loop):
        s = w.objects["scr"]
        sub = "h=%s:op=%s" % ("".join(x[0] if x != "add_row" else "A" for x in hist) or "-", op)
        if _hidden_digest(s, modules) != pre_state["hidden"]:
            o.stat("module_or_class_state_changed(observation)", 1)
        if op != "add_row":
            o.check("read_is_self_loop", loop, sub=sub, detail={"changed": ss.changed(pre, w.components())})
            if op == "read_twice":
                o.check("reads_agree", numpy.array_equal(result[0], result[1]), sub=sub)
            # ... and whatever the library keeps elsewhere: the rows added next are the rows added without the read
            o.check("rows_after_read_equal_rows_without_read", _next_rows(copy.deepcopy(s), 2) == pre_state["future"], sub=sub)
            o.stat("lib_calls", 2)
            return
        _check_step(o, pre_state["exposed"], pre_state["working"], s, result, n, sub)
        if len(hist) < len(twin_rows) and all(x == "add_row" for x in hist):
            o.check("reads_do_not_change_later_rows", _bytes(result) == twin_rows[len(hist)], sub=sub)
        _check_new_row(o, pre_state["formula"], s, numpy.asarray(s.scrn), n, sub)
        # nothing else changes: the process-wide random stream and settings
        ch = [c for c in ss.changed(pre, w.components()) if c != "obj:scr"]
        o.check("nothing_else_changes", not ch, sub=sub, detail=ch)

    st = ss.bfs(world, alphabet, apply_with_pre, on_transition, p["depth"])
    o.stat("states", st["states"])
    o.stat("transitions", st["transitions"])
    o.stat("self_loops", st["self_loops"])
    o.stat("traces_validated_against_impl", st["transitions"])   # the search runs on the implementation itself
    o.check("one_new_state_per_added_row", st["states"] == p["depth"] + 1, detail=st)
    if st["capped"]:
        o.stat("caps_hit", 1)
    try:
        o.note("internal_size", [int(scr.nx_size), int(scr.stencil_length)])
    except Exception:
        pass
    if p.get("conv") == "none":
        o.outcome([p["variant"], n, "unseeded"])
    else:
        o.outcome([p["variant"], n, p.get("start"), p.get("conv"), digest(numpy.asarray(scr.scrn))])
    return o


# --------------------------------------------------------------------------------------------- linear chains

def _chain(p):
    """thousands of add_row calls on ONE live object, no snapshots: per-step clauses on the exposed screen, the guarded
    row formula, reads at selected steps (self-loop on the observable state), a same-seed twin that is never read
    (bit-identical rows), arrays handed out earlier re-examined after later steps"""
    o = Out()
    n, fried, steps = p["n"], p["variant"] == "fried", p["steps"]
    scr = _construct(p["variant"], n, p["atm"], p["seed"], p["sd"])
    twin = _construct(p["variant"], n, p["atm"], p["seed"], p["sd"])
    o.stat("lib_calls", 2)
    # the twin is NEVER read (not even before its first add_row); the screen under test is read before its first step
    read_at = set([0, 1, 2, 3, 5, 8, 13, 21, 34, 55, 89, 144, 233, 377]) | set(range(500, steps, 500))
    try:
        sl = int(numpy.asarray(getattr(scr, "_scrn")).shape[0])
    except Exception:
        sl = 4 * n
    hold_at = set([0, 1, 2, 3, sl - 1, sl, sl + 1, 2 * sl, steps // 2])
    holds = []       # [label, array handed out, its bytes at hand-out, steps survived]
    nfail0 = 0
    for i in range(1, steps + 1):
        if (i - 1) in read_at:
            k0 = _observable(scr)
            for op in READ_OPS:
                r = _apply(scr, op)
                o.check("read_is_self_loop", _observable(scr) == k0, sub="step=%d:op=%s" % (i - 1, op))
                if op == "read" and (i - 1) in hold_at:
                    holds.append(["read@%d" % (i - 1), r, _bytes(r)])
        old_exposed = numpy.array(scr.scrn)
        ww = _working(scr, n)
        old_working = None if ww is None else numpy.array(ww)
        pre = _formula_row(scr, n, fried)
        res = scr.add_row()
        sub = "step=%d" % i
        new_exposed = _check_step(o, old_exposed, old_working, scr, res, n, sub)
        _check_new_row(o, pre, scr, new_exposed, n, sub)
        o.check("reads_do_not_change_later_rows", _bytes(twin.add_row()) == _bytes(new_exposed), sub=sub)
        if i in hold_at:
            holds.append(["add_row@%d" % i, res, _bytes(res)])
        if holds and (i <= 3 * sl + 8 or i % 64 == 0 or i == steps):
            for h in list(holds):
                same = _bytes(h[1]) == h[2]
                o.check("handed_out_screen_keeps_its_values", same, sub="held=%s:seen_after_step=%d" % (h[0], i))
                if not same:
                    holds.remove(h)
        if len(o.failures) > nfail0 + 40:
            o.note("chain_stopped_at_step", i)     # enough evidence; the ids of the first failures are stable
            break
    o.stat("lib_calls", 2 * steps)
    o.stat("states", steps + 1)
    o.stat("transitions", steps + 5 * len([x for x in read_at if x < steps]))
    o.stat("traces_validated_against_impl", steps)
    o.outcome([p["variant"], n, steps, digest(numpy.asarray(scr.scrn))])
    return o


# --------------------------------------------------------------------------------------------- two screens

def _pair(p):
    """screens a and b live in one process; operations on them interleaved.  An operation on one must leave the
    observable state of the other alone, and every screen must produce exactly the rows a same-seed screen produces
    when it is used on its own."""
    o = Out()
    n, atm = p["n"], p["atm"]
    mk = {"a": lambda: _construct(p["va"], n, atm, 1, p["sd_a"]), "b": lambda: _construct(p["vb"], n, atm, 2, p["sd_b"])}
    script = [("a", "add_row"), ("b", "add_row"), ("b", "add_row"), ("a", "read"), ("a", "add_row"), ("b", "print"),
              ("a", "add_row"), ("a", "add_row"), ("b", "add_row"), ("a", "print"), ("b", "read_twice"), ("b", "add_row"),
              ("a", "add_row"), ("b", "add_row"), ("a", "read_copy"), ("a", "add_row"), ("b", "add_row"), ("a", "add_row")]
    live = {"a": mk["a"](), "b": mk["b"]()}
    rows = {"a": [_bytes(live["a"].scrn)], "b": [_bytes(live["b"].scrn)]}
    for i, (who, op) in enumerate(script):
        other = "b" if who == "a" else "a"
        k_other = _observable(live[other])
        r = _apply(live[who], op)
        o.check("operation_on_one_screen_leaves_the_other_unchanged", _observable(live[other]) == k_other,
                sub="i=%d:op=%s.%s" % (i, who, op))
        if op == "add_row":
            rows[who].append(_bytes(r))
    for who in ("a", "b"):
        solo = mk[who]()
        got = [_bytes(solo.scrn)] + [_bytes(solo.add_row()) for _ in range(len(rows[who]) - 1)]
        for k, (x, y) in enumerate(zip(rows[who], got)):
            o.check("interleaved_history_equals_solo_history", x == y, sub="screen=%s:add_row=%d" % (who, k))
    o.stat("lib_calls", 2 * len(script) + 4)
    o.stat("transitions", len(script))
    o.stat("traces_validated_against_impl", len(script))
    o.outcome([p["va"], p["vb"], n, digest(rows["a"][-1])])
    return o


# --------------------------------------------------------------------------------------------- extraction (E2)

class _NotClaimed(Exception):
    """an assumption of the check's own instrumentation does not hold on the library under test"""


class _Script(SeqGenerator):
    """scripted normal draws that can be re-loaded"""

    def load(self, values):
        self._values = numpy.asarray(values, dtype=float).reshape(-1)
        self._pos = 0
        self.calls = []


def _scripted_screen(variant, n, atm, sd):
    """a screen whose Gaussian draws come from a script.  First through the public parameter (random_seed accepts what
    numpy.random.default_rng accepts, and default_rng hands a Generator through unaltered), then by replacing the
    attribute _R.  LinAlgError from the construction is passed on; anything else means 'not claimed'."""
    from scipy import linalg
    gen = _Script()
    try:
        scr = _construct(variant, n, atm, gen, sd)
        if not gen.calls:
            scr.add_row()
        if gen.calls:
            return scr, gen, "constructor"
    except linalg.LinAlgError:
        raise
    except Exception:
        pass
    scr = _construct(variant, n, atm, 1, sd)
    try:
        if isinstance(getattr(scr, "_R", None), numpy.random.Generator):
            gen.load(())
            scr._R = gen
            scr.add_row()
            if gen.calls:
                return scr, gen, "attribute"
    except Exception:
        pass
    raise _NotClaimed("no way found to script the Gaussian draws of the screen")


def _set_state(scr, img, n):
    """make `img` the working array of the screen; confirmed by reading it back through .scrn"""
    try:
        w = getattr(scr, "_scrn", None)
        if isinstance(w, numpy.ndarray) and w.shape == img.shape:
            scr._scrn = img.copy()
            if _bytes(scr.scrn) == _bytes(img[:n, :n]):
                return "attribute"
    except Exception:
        pass
    try:
        if img.shape == (n, n):
            v = scr.scrn
            v[...] = img            # the exposed screen is documented as a window onto the object's data
            if _bytes(scr.scrn) == _bytes(img):
                return "view"
    except Exception:
        pass
    raise _NotClaimed("no way found to set the state of the screen")


def _step(scr, gen, img, noise, n, exact_layout=False):
    """one add_row from state `img` with scripted draws -> newest exposed row (+ the hidden working array if any)"""
    _set_state(scr, img, n)
    gen.load(noise)
    try:
        scr.add_row()
        e = numpy.array(scr.scrn, dtype=float)
    except Exception as ex:
        raise _NotClaimed("add_row on an injected state raised %r" % (ex,))
    if e.shape != (n, n) or _bytes(e[1:]) != _bytes(numpy.asarray(img[:n - 1, :n], dtype=float)):
        raise _NotClaimed("injected state not carried by add_row")
    # (zero-innovation steps need no draw in this very step: the script has only ever answered 0 until then, and that
    # the library draws from it was confirmed when the screen was made)
    if exact_layout and [tuple(c) for c in gen.calls] != [(len(noise),)]:
        # unit draw vectors only mean 'column k of B' when a step asks for exactly one vector of that many normals
        raise _NotClaimed("a step does not draw exactly one vector of %d normals: %r" % (len(noise), gen.calls[:3]))
    return e


def _extract_L(scr, gen, n):
    """response of the new row to every pixel of the n x n state (zero innovation: every scripted draw is 0)"""
    L = numpy.zeros((n, n * n))
    zero = numpy.zeros(n)
    for k in range(n * n):
        img = numpy.zeros((n, n))
        img.reshape(-1)[k] = 1.0
        L[:, k] = _step(scr, gen, img, zero, n)[0]
    return L


def _extract_B(scr, gen, n):
    """response of the new row to every unit draw vector (zero state); needs the one-vector-per-step draw layout"""
    B = numpy.zeros((n, n))
    for k in range(n):
        v = numpy.zeros(n)
        v[k] = 1.0
        B[:, k] = _step(scr, gen, numpy.zeros((n, n)), v, n, exact_layout=True)[0]
    return B


def _stability(p):
    """vK variant: extract s' = F s + G b behaviourally; rho(F) < 1; Lyapunov fixed point = Sigma_vK;
    the covariance recursion converges to it from three different starting covariances."""
    from scipy import linalg
    from mc.refmodels import vk_cov
    o = Out()
    n, (ps, r0, L0), nc = p["n"], p["atm"], p["ncol"]
    try:
        scr, gen, how = _scripted_screen("vk", n, p["atm"], nc)
    except linalg.LinAlgError:
        o.check("construction_outside_domain", True)
        o.stat("constructions_failed_linalg", 1)
        return o
    except _NotClaimed as ex:
        o.stat("extraction_not_claimed", 1)
        o.note("extraction_not_claimed", str(ex))
        return o
    o.stat("draws_scripted_through_" + how, 1)
    cols = n
    # the model is only as good as the linearity it assumes: superposition and homogeneity on a state of 1e6 times
    # one pattern plus another (and a non-trivial draw vector).  Rounding of ~n*n_columns products of size 1e6:
    # measured <= 2.4e-16 relative to the state, other summation orders <= 5e-15; tolerance 1e-11
    i_, j_ = numpy.indices((n, n))
    state = 1e6 * numpy.cos(1.0 + 0.7 * i_ + 1.3 * j_) + ((3 * i_ + 5 * j_) % 7 - 3.0) / 4.0
    bvec = ((numpy.arange(n) * 5) % 9 - 4.0) / 8.0
    try:
        L = _extract_L(scr, gen, n)
        got = _step(scr, gen, state, numpy.zeros(n), n)[0]
        o.close("recursion_is_linear_in_state", float(numpy.max(numpy.abs(got - L.dot(state.reshape(-1))))) / 1e6, 1e-11)
    except _NotClaimed as ex:
        o.stat("extraction_not_claimed", 1)
        o.note("extraction_not_claimed", str(ex))
        return o
    o.stat("lib_calls", n * n + 1)
    try:
        B = _extract_B(scr, gen, n)
        got = _step(scr, gen, state, bvec, n, exact_layout=True)[0]
        want = L.dot(state.reshape(-1)) + B.dot(bvec)
        o.close("recursion_is_linear_in_state_and_noise", float(numpy.max(numpy.abs(got - want))) / 1e6, 1e-11)
        o.stat("lib_calls", n + 1)
    except _NotClaimed as ex:
        # (e.g. normals drawn in blocks): the noise gain cannot be read off; stability of F is still decided
        B = None
        o.stat("noise_injection_not_claimed", 1)
        o.note("noise_injection_not_claimed", str(ex))
    # number of newest rows the new row depends on (n_columns in the unchanged library)
    infl = [r for r in range(n) if numpy.any(L[:, r * cols:(r + 1) * cols] != 0.0)]
    nr = max(infl) + 1 if infl else 1
    o.note("rows_with_influence(n_columns=%d)" % nc, nr)
    if nr * cols > 700:
        o.stat("stability_model_too_large_not_claimed", 1)
        return o
    ns = nr * cols
    A = L[:, :ns]
    F = numpy.zeros((ns, ns))
    F[:cols, :] = A
    if nr > 1:
        F[cols:, :ns - cols] = numpy.eye(ns - cols)
    G = numpy.zeros((ns, cols))
    if B is not None:
        G[:cols, :] = B
    rho = float(numpy.max(numpy.abs(numpy.linalg.eigvals(F))))
    o.check("spectral_radius_below_one", rho < 1.0, measure=rho, tol=1.0)
    o.note("rho_%s" % p["atm"], rho)
    # reference covariance of the state (rows 0..nr-1, pixel (i,j) at (i*ps, j*ps))
    pos = numpy.array([(i * ps, j * ps) for i in range(nr) for j in range(cols)])
    Sig = vk_cov.covariance_matrix(pos, pos, r0, L0)
    b0 = float(Sig[0, 0])
    if rho < 1.0 and B is None:
        M, powers = F.copy(), 0
        while numpy.max(numpy.abs(M)) > 1e-14 and powers < 80:
            M = M.dot(M)
            powers += 1
        o.check("recursion_forgets_any_start", powers < 80 and bool(numpy.all(numpy.isfinite(M))), measure=powers,
                detail="F^(2^%d) -> 0" % powers)
    elif rho < 1.0:
        # von Karman covariance is a fixed point of the recursion: the well-conditioned statement of "the stationary
        # covariance is the model" (worst 2.6e-7 on the unchanged library, the float32 accuracy of its covariance;
        # the same under five other ways of inverting the stencil covariance)
        res = F.dot(Sig).dot(F.T) + G.dot(G.T) - Sig
        o.close("von_karman_covariance_is_fixed_point", float(numpy.max(numpy.abs(res))) / b0, 1e-5)
        # P - Sigma solves the same Lyapunov equation with the residual as its source, i.e. it is the residual
        # amplified by sum_k |F^k|^2 ~ 1/(1-rho^2): near a unit root (rho = 0.99997 -> 1.4e4, finer sampling -> 1e7) the
        # distance is rounding noise of A (4.6e-5 as is, 1.6e-7..8.4e-5 under algebraically identical inversions or
        # one-ulp changes of the covariance), so the tolerance carries that amplification
        P = linalg.solve_discrete_lyapunov(F, G.dot(G.T))
        o.close("stationary_covariance_is_von_karman", float(numpy.max(numpy.abs(P - Sig))) / b0,
                1e-5 / (1.0 - rho * rho), detail={"rho": rho})
        # convergence from any start: F^(2^m) -> 0 (repeated squaring), so P_n -> P from every P0
        M = F.copy()
        powers = 0
        while numpy.max(numpy.abs(M)) > 1e-14 and powers < 80:
            M = M.dot(M)
            powers += 1
        o.check("recursion_forgets_any_start", powers < 80 and bool(numpy.all(numpy.isfinite(M))), measure=powers,
                detail="F^(2^%d) -> 0" % powers)
        # doubling iteration of the covariance recursion from three starts
        worst = 0.0
        for start in (numpy.zeros((ns, ns)), 1e4 * numpy.eye(ns), Sig):
            Pk, Ak, Qk = start.copy(), F.copy(), G.dot(G.T)
            for _ in range(powers + 2):
                # (P, A, Q) -> 2^k steps at once
                Pk_next = Ak.dot(Pk).dot(Ak.T) + Qk
                Qk = Ak.dot(Qk).dot(Ak.T) + Qk
                Ak = Ak.dot(Ak)
                Pk = Pk_next
            worst = max(worst, float(numpy.max(numpy.abs(Pk - P))) / b0)
        o.close("three_starts_meet_at_fixed_point", worst, 1e-6)
    o.outcome([n, nc, round(rho, 9)])
    return o


def _fried_transition(p):
    """Fried variant: transition matrix T of the whole working array (zero innovation) by basis exhaustion;
    an eigenvalue of modulus > 1 would make the values overflow after enough steps ("finite after any number")."""
    from scipy import linalg
    o = Out()
    n, slf = p["n"], p["slf"]
    try:
        scr, gen, how = _scripted_screen("fried", n, p["atm"], slf)
        w = getattr(scr, "_scrn", None)
        if not isinstance(w, numpy.ndarray) or w.ndim != 2:
            raise _NotClaimed("no working array to exhaust")
        rows, cols = w.shape
        T = numpy.zeros((rows * cols, rows * cols))
        for k in range(rows * cols):
            img = numpy.zeros((rows, cols))
            img.reshape(-1)[k] = 1.0
            _step(scr, gen, img, numpy.zeros(cols), n)
            w2 = _working(scr, n)
            if w2 is None or w2.shape != (rows, cols):
                raise _NotClaimed("working array not observable after the step")
            T[:, k] = w2.reshape(-1)
    except linalg.LinAlgError:
        o.check("construction_outside_domain", True)
        o.stat("constructions_failed_linalg", 1)
        return o
    except _NotClaimed as ex:
        o.stat("extraction_not_claimed", 1)
        o.note("extraction_not_claimed", str(ex))
        return o
    o.stat("lib_calls", rows * cols)
    ev = numpy.linalg.eigvals(T)
    rho = float(numpy.max(numpy.abs(ev)))
    # piston is carried unchanged (eigenvalue 1, measured 1 +- 2e-15); everything else 0.84-0.95
    o.close("fried_transition_not_explosive", rho, 1.0 + 1e-9)
    o.note("fried_second_largest_modulus", float(numpy.sort(numpy.abs(ev))[-2]) if ev.size > 1 else 0.0)
    o.outcome([n, slf, round(rho, 9)])
    return o


def _newrow(p):
    """Two screens made from the same scripted draws (same starting screen) are stepped with DIFFERENT scripted draws:
    the row that appears at index 0 of the exposed screen is 'newly generated', so within a few steps it must differ
    between the two.  (An exposed window that shows rows generated long ago satisfies every shift clause.)
    Uses only the public random_seed parameter; claimed only when both screens consulted their script in every step."""
    from scipy import linalg
    o = Out()
    n = p["n"]
    vals = 1.3 * numpy.sin(0.1 + 1.2345 * numpy.arange(60000))
    try:
        ga, gb = _Script(vals), _Script(vals)
        a = _construct(p["variant"], n, p["atm"], ga, p["sd"])
        b = _construct(p["variant"], n, p["atm"], gb, p["sd"])
        same_start = _bytes(a.scrn) == _bytes(b.scrn) and bool(numpy.all(numpy.isfinite(a.scrn)))
    except linalg.LinAlgError:
        o.check("construction_outside_domain", True)
        o.stat("constructions_failed_linalg", 1)
        return o
    except Exception as ex:
        o.stat("scripted_construction_not_claimed", 1)
        o.note("scripted_construction_not_claimed", repr(ex)[:200])
        return o
    if not same_start:
        o.stat("scripted_construction_not_claimed", 1)
        return o
    consulted, differ, old_rows_equal = True, False, None
    try:
        for k in range(1, 5):
            ga.load(numpy.cos(0.3 * k + 0.77 * numpy.arange(4096)))
            gb.load(numpy.sin(1.9 * k + 0.41 * numpy.arange(4096)) - 0.25)
            ra, rb = numpy.array(a.add_row()), numpy.array(b.add_row())
            consulted = consulted and bool(ga.calls) and bool(gb.calls)
            if k == 1:
                old_rows_equal = ra.shape == rb.shape and _bytes(ra[1:]) == _bytes(rb[1:])
            differ = differ or ra.shape != rb.shape or _bytes(ra[0]) != _bytes(rb[0])
    except Exception as ex:
        o.stat("scripted_steps_not_claimed", 1)
        o.note("scripted_steps_not_claimed", repr(ex)[:200])
        return o
    o.stat("lib_calls", 10)
    if not consulted:
        o.stat("draws_per_step_not_claimed", 1)
        return o
    o.check("newest_exposed_row_depends_on_the_steps_draws", differ)
    o.check("older_exposed_rows_do_not_depend_on_the_steps_draws", bool(old_rows_equal))
    o.outcome([p["variant"], n, digest(numpy.asarray(a.scrn))])
    return o
