"""C05 Infinite screen evolves by exactly one row per step, for any history.

E3 (+E2): explicit-state BFS over histories of {add_row, read, print, read_copy, read_twice}
on the live screen object; the state is the complete object (every attribute), NumPy's
global RNG and the globals of the three modules involved.  Invariants are evaluated on
every transition.  The stability clause is decided on the exact second-order model
(F, G) extracted behaviourally from add_row by basis exhaustion.
"""
import numpy

from mc import Out, Case
from mc import statespace as ss
from mc.core import digest
from mc.env import SeqGenerator

PROPERTY = "C05"
LEVEL = "model_checking"
ISOLATE_CASES = True     # every case starts from a pristine process
ENGINES = ["E3-explicit-state-history-search", "E2-basis-exhaustion"]
TECHNIQUE = ("explicit-state breadth-first search over operation histories on the live screen object "
             "(canonical hash of the whole object + global RNG + module globals), invariants on every "
             "transition; stability decided on the linear-Gaussian recursion extracted by basis exhaustion")
RULE = ("case = (variant, requested size, atmosphere, seed, stencil depth); BFS over all histories of the "
        "operation alphabet to the depth bound with de-duplication on the canonical state hash; "
        "non-trivial = requested size differs from internal size, or size >= 3")
ASSUMPTIONS = [
    "state = all attributes of the object + numpy global RandomState + non-callable globals of "
    "infinitephasescreen/phasescreen/turb; an operation cannot depend on anything else",
    "depth bound per tier; because read/print operations are verified to be self-loops in every reached "
    "state, every history of that length over the alphabet is covered, not only the de-duplicated ones",
    "stability clause: von Karman variant only, on the configuration lattice; covariance compared with an "
    "independent float64 von Karman covariance (mc/refmodels/vk_cov.py)",
]
LEVEL_TEXT = ("All histories of add_row/read/print operations up to depth 5 (quick) / 8 (thorough) are explored "
              "on the real objects for both variants, sizes 2..7 (quick) / 2..12,17,18 (thorough), including sizes whose internal working size "
              "is larger, with shift/shape/finite/one-row/stream-advance invariants checked on every "
              "transition; the stability and unique-stationary-covariance clause is decided exactly on the "
              "extracted (F,G) recursion (spectral radius, Lyapunov fixed point, convergence from three "
              "starting covariances).")
LEVEL_NOTE = ("Trusted: copy.deepcopy as snapshot, numpy/scipy linear algebra, the reference covariance. "
              "Not covered: sizes above 7 (state-space part), histories longer than the bound if an operation "
              "had an effect outside the hashed state.")

ATMOS = [(0.1, 0.2, 25.0), (0.5, 0.1, 10.0), (0.05, 0.2, 100.0), (0.25, 0.15, 5.0)]
OPS = ["add_row", "read", "print", "read_copy", "read_twice"]


def BOUNDS(tier):
    return {"sizes": list(range(2, 8)) + [10, 11, 18] if tier == "quick" else list(range(2, 13)) + [17, 18, 20, 22, 34, 40],
            "atmospheres(pixel_scale,r0,L0)": ATMOS[:2 if tier == "quick" else 4],
            "seeds": [1, 2] if tier == "quick" else [1, 2, 3], "ops": OPS, "depth": 5 if tier == "quick" else 10,
            "vk_n_columns": [2] if tier == "quick" else [1, 2, 3],
            "fried_stencil_length_factor": [4] if tier == "quick" else [1, 2, 4],
            "stability_sizes": list(range(2, 7 if tier == "quick" else 13)),
            "big_sizes(depth 3 histories)": [33, 64, 65]}


def cases(tier):
    b = BOUNDS(tier)
    for variant in ("vk", "fried"):
        for n in b["sizes"]:
            for ai, atm in enumerate(b["atmospheres(pixel_scale,r0,L0)"]):
                for seed in b["seeds"]:
                    depths = b["vk_n_columns"] if variant == "vk" else b["fried_stencil_length_factor"]
                    for sd in depths:
                        if variant == "vk" and sd > n:
                            continue
                        yield Case("hist:%s:n=%d:atm=%d:seed=%d:sd=%d" % (variant, n, ai, seed, sd),
                                   {"kind": "hist", "variant": variant, "n": n, "atm": list(atm), "seed": seed,
                                    "sd": sd, "depth": b["depth"]}, n >= 3)
    # corners of the parameter space: very fine sampling of a large outer scale (the row covariance is barely
    # positive definite there) and very strong turbulence (phase values of hundreds of radians)
    for variant, n, atm, sd in (("vk", 8, (0.008, 0.2, 100.0), 3), ("vk", 6, (0.006, 0.2, 100.0), 2),
                                ("fried", 16, (0.006, 0.2, 100.0), 4), ("fried", 9, (0.008, 0.2, 100.0), 2),
                                ("fried", 6, (0.5, 0.05, 100.0), 4), ("fried", 9, (0.5, 0.05, 100.0), 2),
                                ("vk", 7, (0.5, 0.05, 100.0), 2), ("fried", 5, (1.0, 0.02, 50.0), 4)):
        for seed in (1, 2, 3):
            yield Case("hist:%s:n=%d:ps=%g,r0=%g,L0=%g:seed=%d:sd=%d" % ((variant, n) + atm + (seed, sd)),
                       {"kind": "hist", "variant": variant, "n": n, "atm": list(atm), "seed": seed, "sd": sd,
                        "depth": b["depth"] + 3}, True)
    # size classes above the exhaustive sizes (LAPACK / BLAS block sizes; Fried's stencil has a row every 2^k)
    for variant, n, sd in (("vk", 33, 2), ("vk", 64, 2), ("vk", 65, 3), ("fried", 33, 4), ("fried", 64, 2), ("fried", 65, 4)):
        yield Case("hist:%s:n=%d:big:sd=%d" % (variant, n, sd),
                   {"kind": "hist", "variant": variant, "n": n, "atm": list(ATMOS[0]), "seed": 1, "sd": sd,
                    "depth": 3}, True)
    for n in b["stability_sizes"]:
        for ai, atm in enumerate(ATMOS):
            for nc in ([2] if tier == "quick" else [1, 2, 3]):
                if nc > n:
                    continue
                yield Case("stability:vk:n=%d:atm=%d:ncol=%d" % (n, ai, nc),
                           {"kind": "stab", "n": n, "atm": list(atm), "ncol": nc})
                if n in (3, 5):
                    yield Case("stability:vk:n=%d:atm=%d:ncol=%d:after_siblings" % (n, ai, nc),
                               {"kind": "stab", "n": n, "atm": list(atm), "ncol": nc, "siblings": True})
    # screens larger than the outer scale (separations beyond L0 inside the stencil) and pixels of 1e-4 outer scales
    # (the recursion is then within 1e-4 of a unit root)
    for n, atm, nc in ((5, (1.0, 0.1, 2.0), 2), (6, (0.5, 0.15, 1.0), 2), (8, (0.5, 0.15, 2.5), 1), (6, (0.02, 0.15, 100.0), 2),
                       (8, (0.008, 0.2, 100.0), 2), (12, (0.02, 0.15, 100.0), 1)):
        yield Case("stability:vk:n=%d:ps=%g,r0=%g,L0=%g:ncol=%d" % ((n,) + atm + (nc,)),
                   {"kind": "stab", "n": n, "atm": list(atm), "ncol": nc})
    # configurations the unchanged library refuses to construct (LinAlgError from the Cholesky factorisation of a
    # barely positive definite stencil covariance): outside the property as long as they are refused; judged - shape,
    # finiteness, shift and stability - if a changed library constructs them
    for n, atm, nc in ((16, (0.001, 0.1, 100.0), 2), (8, (0.0005, 0.1, 1000.0), 2), (6, (0.002, 0.2, 300.0), 3),
                       (12, (0.0002, 0.2, 50.0), 1)):
        yield Case("stability:vk:n=%d:ps=%g,r0=%g,L0=%g:ncol=%d:refused" % ((n,) + atm + (nc,)),
                   {"kind": "stab", "n": n, "atm": list(atm), "ncol": nc})
        yield Case("hist:vk:n=%d:ps=%g,r0=%g,L0=%g:sd=%d:refused" % ((n,) + atm + (nc,)),
                   {"kind": "hist", "variant": "vk", "n": n, "atm": list(atm), "seed": 1, "sd": nc, "depth": 3}, False)
    for variant, n, sd in (("vk", 5, 2), ("fried", 5, 4), ("fried", 10, 2)):
        for ai, atm in enumerate(ATMOS[:2]):
            yield Case("hist:%s:n=%d:atm=%d:seed=1:sd=%d:after_siblings" % (variant, n, ai, sd),
                       {"kind": "hist", "variant": variant, "n": n, "atm": list(atm), "seed": 1, "sd": sd, "depth": 3,
                        "siblings": True}, True)


def _construct(variant, n, atm, seed, sd):
    from aotools.turbulence import infinitephasescreen as ips
    ps, r0, L0 = atm
    if variant == "vk":
        return ips.PhaseScreenVonKarman(n, ps, r0, L0, random_seed=seed, n_columns=sd)
    return ips.PhaseScreenKolmogorov(n, ps, r0, L0, random_seed=seed, stencil_length_factor=sd)


def _siblings_first(variant, n, atm, seed, sd):
    """screens that differ from the one under test in ONE parameter are built (and stepped once) first, in the same
    process: whatever the library remembers from them must not reach the screen under test.  (Added after a seeded
    change shared the A/B matrices between screens of equal geometry but different r0.)"""
    from scipy import linalg
    ps, r0, L0 = atm
    for sib in ((ps, r0 * 0.5, L0), (ps, r0 * 3.0, L0), (ps, r0, L0 * 2.0), (ps * 2.0, r0, L0)):
        try:
            s_ = _construct(variant, n, sib, seed + 1, sd)
            s_.add_row()
        except linalg.LinAlgError:
            pass


def evaluate(p):
    if p.get("siblings"):
        _siblings_first(p.get("variant", "vk"), p["n"], p["atm"], p.get("seed", 1), p.get("sd", p.get("ncol", 2)))
    if p["kind"] == "hist":
        return _hist(p)
    return _stability(p)


def _hist(p):
    from scipy import linalg
    from aotools.turbulence import infinitephasescreen as ips, phasescreen, turb
    o = Out()
    try:
        scr = _construct(p["variant"], p["n"], p["atm"], p["seed"], p["sd"])
    except linalg.LinAlgError:
        # "for which construction succeeds": outside the property
        o.check("construction_outside_domain", True)
        o.stat("constructions_failed_linalg", 1)
        o.stat("states", 1)
        o.stat("transitions", 1)
        return o
    o.stat("lib_calls", 1)
    n = p["n"]
    fried = p["variant"] == "fried"
    world = ss.World({"scr": scr}, modules=(ips, phasescreen, turb))
    o.check("initial_shape", scr.scrn.shape == (n, n), detail=scr.scrn.shape)
    o.check("initial_finite", bool(numpy.all(numpy.isfinite(scr.scrn))))

    def alphabet(w):
        return OPS

    def apply_op(w, op):
        s = w.objects["scr"]
        if op == "add_row":
            return s.add_row()
        if op == "read":
            return s.scrn
        if op == "print":
            return (repr(s), str(s))
        if op == "read_copy":
            return numpy.array(s.scrn)
        if op == "read_twice":
            a = s.scrn
            b = s.scrn
            return (a, b)

    def on_transition(hist, op, pre, w, result, loop):
        s = w.objects["scr"]
        sub = "h=%s:op=%s" % ("".join(x[0] if x != "add_row" else "A" for x in hist) or "-", op)
        if op != "add_row":
            o.check("read_is_self_loop", loop, sub=sub, detail={"changed": ss.changed(pre, w.components())})
            if op == "read_twice":
                o.check("reads_agree", numpy.array_equal(result[0], result[1]), sub=sub)
            return
        # ---- add_row: compare with the pre-state (kept by the closure below)
        old = pre_state["scr"]
        new_exposed = s.scrn
        old_exposed = old.scrn
        o.check("exposed_shape", new_exposed.shape == (n, n), sub=sub, detail=new_exposed.shape)
        o.check("finite", bool(numpy.all(numpy.isfinite(s._scrn))), sub=sub)
        o.check("shift_down_by_one_row_bit_exact",
                new_exposed.shape == old_exposed.shape and
                numpy.ascontiguousarray(new_exposed[1:]).tobytes() == numpy.ascontiguousarray(old_exposed[:-1]).tobytes(),
                sub=sub)
        o.check("working_array_shape_unchanged", s._scrn.shape == old._scrn.shape, sub=sub,
                detail=[old._scrn.shape, s._scrn.shape])
        if s._scrn.shape == old._scrn.shape:
            o.check("working_array_shifted",
                    numpy.ascontiguousarray(s._scrn[1:]).tobytes() == numpy.ascontiguousarray(old._scrn[:-1]).tobytes(),
                    sub=sub)
        o.check("return_value_is_exposed_screen", numpy.array_equal(numpy.asarray(result), new_exposed), sub=sub)
        # reference recursion from the previous state with the next draws of a cloned generator
        import copy
        g = copy.deepcopy(old._R)
        b = g.normal(0, 1, size=old.nx_size)
        z = old._scrn[(old.stencil_coords[:, 0], old.stencil_coords[:, 1])].astype(float)
        if fried:
            ref = old._scrn[old.reference_coord]
            row = old.A_mat.dot(z - ref) + old.B_mat.dot(b) + ref
        else:
            row = old.A_mat.dot(z) + old.B_mat.dot(b)
        scale = max(1.0, float(numpy.max(numpy.abs(old._scrn))))
        err = float(numpy.max(numpy.abs(s._scrn[0] - row))) / scale if s._scrn.shape[1] == row.shape[0] else float("inf")
        o.close("new_row_is_A_stencil_plus_B_noise", err, 1e-10, sub=sub)
        o.check("generator_advanced_by_exactly_one_row_of_normals",
                repr(g.bit_generator.state) == repr(s._R.bit_generator.state), sub=sub)
        # nothing else changes
        ch = [c for c in ss.changed(pre, w.components()) if c != "obj:scr"]
        o.check("nothing_else_changes", not ch, sub=sub, detail=ch)
        a = {k: ss.obj_digest(v) for k, v in vars(old).items() if k not in ("_scrn", "_R")}
        bb = {k: ss.obj_digest(v) for k, v in vars(s).items() if k not in ("_scrn", "_R")}
        o.check("other_attributes_unchanged", a == bb, sub=sub, detail=ss.changed(a, bb))

    # keep the pre-state object for add_row comparisons: wrap apply_op
    pre_state = {}
    real_apply = apply_op

    def apply_with_pre(w, op):
        if op == "add_row":
            import copy
            pre_state["scr"] = copy.deepcopy(w.objects["scr"])
        return real_apply(w, op)

    st = ss.bfs(world, alphabet, apply_with_pre, on_transition, p["depth"])
    o.stat("states", st["states"])
    o.stat("transitions", st["transitions"])
    o.stat("self_loops", st["self_loops"])
    o.stat("traces_validated_against_impl", st["transitions"])   # the search runs on the implementation itself
    o.check("one_new_state_per_added_row", st["states"] == p["depth"] + 1, detail=st)
    if st["capped"]:
        o.stat("caps_hit", 1)
    o.note("internal_size", [int(scr.nx_size), int(scr.stencil_length)])
    o.outcome([p["variant"], p["n"], digest(scr.scrn)])
    return o


def _stability(p):
    """vK variant: extract s' = F s + G b behaviourally; rho(F) < 1; Lyapunov fixed point = Sigma_vK;
    the covariance recursion converges to it from three different starting covariances."""
    from scipy import linalg
    from mc.refmodels import vk_cov
    o = Out()
    n, (ps, r0, L0), nc = p["n"], p["atm"], p["ncol"]
    try:
        scr = _construct("vk", n, p["atm"], 1, nc)
    except linalg.LinAlgError:
        o.check("construction_outside_domain", True)
        o.stat("constructions_failed_linalg", 1)
        return o
    rows, cols = scr._scrn.shape
    # response of the new row to every pixel of the working array (zero innovation)
    L = numpy.zeros((cols, rows * cols))
    for k in range(rows * cols):
        img = numpy.zeros((rows, cols))
        img.reshape(-1)[k] = 1.0
        scr._scrn = img
        scr._R = SeqGenerator(numpy.zeros(cols))
        scr.add_row()
        L[:, k] = scr._scrn[0]
    B = numpy.zeros((cols, cols))
    for k in range(cols):
        v = numpy.zeros(cols)
        v[k] = 1.0
        scr._scrn = numpy.zeros((rows, cols))
        scr._R = SeqGenerator(v)
        scr.add_row()
        B[:, k] = scr._scrn[0]
    o.stat("lib_calls", rows * cols + cols)
    ns = nc * cols
    o.close("rows_beyond_stencil_have_no_influence", float(numpy.max(numpy.abs(L[:, ns:]))) if L[:, ns:].size else 0.0, 0.0)
    A = L[:, :ns]
    F = numpy.zeros((ns, ns))
    F[:cols, :] = A
    if nc > 1:
        F[cols:, :ns - cols] = numpy.eye(ns - cols)
    G = numpy.zeros((ns, cols))
    G[:cols, :] = B
    rho = float(numpy.max(numpy.abs(numpy.linalg.eigvals(F))))
    o.check("spectral_radius_below_one", rho < 1.0, measure=rho, tol=1.0)
    o.note("rho_%s" % p["atm"], rho)
    # reference covariance of the state (rows 0..nc-1, pixel (i,j) at (i*ps, j*ps))
    pos = numpy.array([(i * ps, j * ps) for i in range(nc) for j in range(cols)])
    Sig = vk_cov.covariance_matrix(pos, pos, r0, L0)
    b0 = float(Sig[0, 0])
    if rho < 1.0:
        P = linalg.solve_discrete_lyapunov(F, G.dot(G.T))
        o.close("stationary_covariance_is_von_karman", float(numpy.max(numpy.abs(P - Sig))) / b0, 1e-4,
                detail={"rho": rho})
        # von Karman covariance is a fixed point of the recursion
        res = F.dot(Sig).dot(F.T) + G.dot(G.T) - Sig
        o.close("von_karman_covariance_is_fixed_point", float(numpy.max(numpy.abs(res))) / b0, 1e-5)
        # convergence from any start: F^(2^m) -> 0 (repeated squaring), so P_n -> P from every P0
        M = F.copy()
        powers = 0
        while numpy.max(numpy.abs(M)) > 1e-14 and powers < 80:
            M = M.dot(M)
            powers += 1
        o.check("recursion_forgets_any_start", powers < 80 and bool(numpy.all(numpy.isfinite(M))), measure=powers,
                detail="F^(2^%d) -> 0" % powers)
        # doubling iteration of the covariance recursion from three starts
        worst = 0.0
        for start in (numpy.zeros((ns, ns)), 1e4 * numpy.eye(ns), Sig):
            Pk, Ak, Qk = start.copy(), F.copy(), G.dot(G.T)
            for _ in range(powers + 2):
                # (P, A, Q) -> 2^k steps at once
                Pk_next = Ak.dot(Pk).dot(Ak.T) + Qk
                Qk = Ak.dot(Qk).dot(Ak.T) + Qk
                Ak = Ak.dot(Ak)
                Pk = Pk_next
            worst = max(worst, float(numpy.max(numpy.abs(Pk - P))) / b0)
        o.close("three_starts_meet_at_fixed_point", worst, 1e-6)
    o.outcome([n, nc, round(rho, 9)])
    return o
