"""C01 Slope covariance matrix equals the true covariance of the WFS slopes.

E1: every wavefront-sensor configuration of a bounded lattice (number of sensors x 0/1 masks
x guide-star kinds x sub-aperture sizes, crossed inside each case with every non-empty
subset of three layers and every wavelength assignment) is built with the REAL
aotools CovarianceMatrix (serial path, and the multi-process path through an in-line pool)
and compared entry by entry with an independent reference (mc/refmodels/slopes.py) that goes
from the stated geometry through the von Karman covariance B(r), sample point by sample
point, and knows nothing about blocks, separations, flips or mirroring.

Sensor pairs on different grids (3x3 with 2x2) are part of the lattice: their projected sample
points can coincide exactly (zero separation inside the structure function).

Failure ids: `entrywise|<case>|blk=<i><a>-<j><b>` names the block (rows: sensor i axis a,
columns: sensor j axis b, i >= j) of the returned matrix that disagrees, so the different
assembly shortcuts of the builder show up under different ids.
"""
import itertools

import numpy

from mc import Out, Case
from mc.refmodels import slopes

PROPERTY = "C01"
LEVEL = "exploration"
TECHNIQUE = ("bounded exhaustive enumeration of sensor configurations (sensor count x masks x "
             "guide-star kinds x sub-aperture sizes x layer subsets x wavelength assignments) on the "
             "real builder, entrywise comparison with an independent sample-point reference model, "
             "plus exact additivity / scaling relations between lattice points")
RULE = ("case = ordered tuple of sensors (mask bits, guide-star kind, sub-aperture size option); inside "
        "a case every non-empty subset of the 3 layers and every wavelength assignment in {500,700 nm}^n "
        "is built. Enumerated tuples: see BOUNDS (full products where stated, otherwise the listed "
        "sub-products, whose union is enumerated completely). A case is non-trivial when some mask is "
        "not point-symmetric about the grid centre, or two sensors differ in guide star or size")
ASSUMPTIONS = [
    "geometry as stated for the builder: pixel (i0,i1) -> i*d - D/2 - d/2 in the pupil, cone factor "
    "1 - h/h_gs about the pupil origin, translation theta*h; slope = lambda/(2 pi) x finite difference "
    "of the layer phase across the projected sub-aperture / projected diameter; axis 'x' = first array axis",
    "configurations outside the lattice (other D, offsets, altitudes, r0, L0, grids > 3x3, > 3 sensors) "
    "are not covered; r0 and wavelength directions are extended by the exact scaling clauses",
    "entrywise tolerance 2e-3 relative to |ref| + 0.005 max|ref| (the builder's published constant 0.17253 "
    "vs 2 B(0) = 0.172629 alone gives 5.7e-4; float32 storage adds ~1e-7)",
    "the multi-process path is run through an in-line stand-in for multiprocessing.Pool (map = serial map); "
    "real scheduling is the subject of C03",
    "trusted: scipy.special.kv / gamma, numpy.linalg.eigvalsh and the reference model",
]
ENGINES = ["E1-product-enumeration"]
LEVEL_TEXT = ("Every sensor tuple of the stated lattice is enumerated (quick: all 15 2x2 masks and 6 named "
              "3x3 masks for one sensor, all 225 ordered 2x2 mask pairs x 4 guide-star pairs and all 36 "
              "guide-star pairs x 4 size pairs x 5 equal-grid and 3 mixed-grid mask pairs for two sensors, all 216 guide-star triples x 3 "
              "mask classes for three; thorough: the full product masks^2 x kinds^2 x sizes^2 for two sensors, "
              "all 255 3x3 masks with <= 4 cells, all guide-star triples x size triples). Each is crossed with "
              "all 7 layer subsets and all wavelength assignments and compared entrywise with the reference.")
LEVEL_NOTE = ("Trusted: the reference model mc/refmodels/slopes.py + vonkarman.py (self-checked against a "
              "brute-force Hankel quadrature), scipy kv. Not covered: geometries and atmospheres off the "
              "lattice (r0/wavelength covered by exact scaling), grids larger than 3x3, more than 3 sensors.")

D_TEL = 2.0
LAYERS = [(0.0, 0.2, 25.0), (5000.0, 0.3, 10.0), (12000.0, 0.5, 100.0)]
LAYER_SETS = [s for k in (1, 2, 3) for s in itertools.combinations(range(3), k)]
FULL = (0, 1, 2)
WL = {"5": 500e-9, "7": 700e-9}
KINDS = {                       # guide-star altitude [m] (0 = NGS), direction [arcsec]
    "N0": (0.0, (0.0, 0.0)),
    "Nx": (0.0, (30.0, 0.0)),
    "Nxy": (0.0, (-20.0, 25.0)),
    "L90": (90000.0, (0.0, 0.0)),
    "L90o": (90000.0, (15.0, -35.0)),
    "L20": (20000.0, (0.0, 0.0)),
}
KIND_NAMES = list(KINDS)
DOPTS = ("d1", "d2")            # d1: D/n, d2: D/(2n)   (n = mask grid size)

TOL_ENTRY = 2e-3
ENTRY_FLOOR = 5e-3
TOL_PSD = 1e-5
TOL_ADD = 1e-6
TOL_SCALE = 1e-6
TOL_MP = 1e-6

MASKS2 = ["2:" + "".join(b) for b in itertools.product("01", repeat=4) if "1" in b]
NAMED3 = {"full": "3:111111111", "L": "3:100100111", "diag": "3:100010001",
          "corner": "3:100000000", "ring": "3:111101111", "asym4": "3:110001010"}
MASKS3_NAMED = list(NAMED3.values())
MASKS3_LE4 = ["3:" + "".join("1" if i in c else "0" for i in range(9))
              for k in (1, 2, 3, 4) for c in itertools.combinations(range(9), k)]


def _circ(n, drop=()):
    c = (n - 1) / 2.0
    return "%d:" % n + "".join("1" if ((i - c) ** 2 + (j - c) ** 2 <= (n / 2.0) ** 2 and (i, j) not in drop) else "0"
                                for i in range(n) for j in range(n))


# grids beyond 3x3 (many sub-apertures: separations and index arithmetic the small grids never produce)
BIG = {"circ7": _circ(7), "asym5": _circ(5, drop=((0, 1), (2, 2), (4, 3))), "circ8": _circ(8, drop=((3, 3), (3, 4), (4, 3), (4, 4)))}
BIG_TUPLES = [
    (("circ7", "N0", "d1"),), (("circ7", "L90o", "d1"),), (("asym5", "Nxy", "d2"),), (("circ8", "L20", "d1"),),
    (("circ7", "N0", "d1"), ("asym5", "L90o", "d1")), (("asym5", "Nx", "d1"), ("asym5", "L20", "d2")),
    (("asym5", "N0", "d1"), ("circ7", "Nxy", "d1"), ("asym5", "L90", "d1")),
]


BIG["circ16"] = _circ(16)
BIG["circ23"] = _circ(23)
# special cases: explicit layer lists (h, r0, L0) far from the lattice's atmosphere, and matrices above 1024 / 2048
# rows (three 16x16 pupils = 1248 rows; three 23x23 pupils = 2490 rows in the thorough tier)
EXTREME_LAYERS = {
    "r0=15m": [(0.0, 15.0, 25.0)], "r0=0.2m+12m": [(0.0, 0.2, 25.0), (5000.0, 12.0, 30.0)],
    "r0=2mm": [(3000.0, 0.002, 10.0)], "L0=1km": [(0.0, 0.2, 1000.0)], "L0=5km@8km": [(8000.0, 0.3, 5000.0)],
    "L0=0.5m": [(0.0, 0.2, 0.5)], "L0=100km": [(0.0, 0.2, 1.0e5)], "r0=1km": [(2000.0, 1000.0, 10.0)],
    "L0=5cm": [(0.0, 0.2, 0.05)],
    "12layers": [(1000.0 * k, 0.2 + 0.05 * k, 10.0 + 7.0 * (k % 4)) for k in range(12)],
}
SPECIALS = []
for _name in EXTREME_LAYERS:
    SPECIALS.append(("atm:%s:A" % _name, [("asym5", "N0", "d1"), ("3:110001010", "L90o", "d2")], _name, "57", "both"))
    SPECIALS.append(("atm:%s:B" % _name, [("3:100100111", "Nxy", "d1"), ("2:1011", "L20", "d1"), ("2:1111", "Nx", "d2")], _name, "575", "both"))
SPECIALS.append(("huge:3xcirc16", [("circ16", "N0", "d1"), ("circ16", "L90o", "d1"), ("circ16", "Nxy", "d1")], "r0=0.2m+12m", "557", "both"))
SPECIALS.append(("huge:circ23+circ16", [("circ23", "L90o", "d1"), ("circ16", "N0", "d2")], "r0=0.2m+12m", "75", "both"))
SPECIALS.append(("huge:3xcirc23", [("circ23", "N0", "d1"), ("circ23", "L20", "d1"), ("circ23", "Nxy", "d2")], "L0=1km", "557", "thorough"))


def mask_array(name):
    n, bits = name.split(":")
    n = int(n)
    return numpy.array([int(b) for b in bits], dtype=int).reshape(n, n)


def point_symmetric(name):
    m = mask_array(name)
    return bool(numpy.array_equal(m, m[::-1, ::-1]))


def BOUNDS(tier):
    return {"telescope_diameter": D_TEL, "layers(h,r0,L0)": LAYERS,
            "layer_sets": ["".join(map(str, s)) for s in LAYER_SETS],
            "wavelengths_nm": [500, 700], "kinds": {k: list(map(_plain, v)) for k, v in KINDS.items()},
            "subap_size_options": {"d1": "D/n", "d2": "D/(2n)"},
            "masks_2x2": MASKS2, "masks_3x3_named": NAMED3, "special_cases(explicit atmospheres; 1248-2490 row matrices)": {"atmospheres": EXTREME_LAYERS, "cases": [x[0] for x in SPECIALS]}, "big_grids(5x5,7x7,8x8)": {"masks": BIG, "tuples": [[list(x) for x in t] for t in BIG_TUPLES]},
            "masks_3x3_le4cells": len(MASKS3_LE4) if tier == "thorough" else 0,
            "tuples": _tuple_rule(tier), "r0_scale_factor": 2.0, "threads": [1, 2]}


def _plain(v):
    return list(v) if isinstance(v, tuple) else v


def _tuple_rule(tier):
    if tier == "quick":
        return {"n=1": "(15 2x2 + 6 named 3x3 masks) x 6 kinds x 2 sizes",
                "n=2": ["A: all 225 ordered 2x2 mask pairs x kind pairs %s x (d1,d1)" % (QA,),
                        "B: all 36 kind pairs x all 4 size pairs x mask pairs %s" % (QB,),
                        "C: 3x3 mask pairs %s x all 36 kind pairs x sizes (d1,d1),(d1,d2)" % (QC,),
                        "D: mixed 3x3/2x2 mask pairs %s x all 36 kind pairs x all 4 size pairs" % (QD,)],
                "n=3": ["T1: all 216 kind triples x mask triples %s x (d1,d1,d1)" % (T1M,),
                        "T2: kind triples %s x all 27 mask triples over %s x d1" % (T2K, T2M),
                        "T3: all 8 size triples x kind triples %s x mask triples %s" % (T3K, T3M)]}
    return {"n=1": "(15 2x2 + 255 3x3 masks with <= 4 cells + 6 named 3x3) x 6 kinds x 2 sizes",
            "n=2": ["full product 15^2 2x2 masks x 6^2 kinds x 2^2 sizes",
                    "all 36 ordered pairs of named 3x3 masks x 6^2 kinds x 2^2 sizes",
                    "all 36 ordered mixed pairs (named 3x3) x (2:1111, 2:1110, 2:1001) x 6^2 kinds x 2^2 sizes"],
            "n=3": ["all 216 kind triples x mask triples %s x all 8 size triples" % (T1M,),
                    "all 216 kind triples x all 27 mask triples over %s x d1" % (T2M,)]}


QA = [("N0", "N0"), ("N0", "Nx"), ("Nxy", "L90"), ("L90o", "L20")]
QB = [("2:1111", "2:1111"), ("2:1110", "2:1111"), ("2:1111", "2:0111"), ("2:1101", "2:1011"),
      ("2:1001", "2:0110")]
QC = [(m, m) for m in MASKS3_NAMED] + [(NAMED3["full"], NAMED3["L"]), (NAMED3["asym4"], NAMED3["ring"])]
QD = [(NAMED3["ring"], "2:1111"), ("2:1111", NAMED3["L"]), ("2:1110", NAMED3["asym4"])]
QD_T = ([(a, b) for a in MASKS3_NAMED for b in ("2:1111", "2:1110", "2:1001")]
        + [(b, a) for a in MASKS3_NAMED for b in ("2:1111", "2:1110", "2:1001")])
T1M = [("2:1111",) * 3, ("2:1110",) * 3, (NAMED3["L"],) * 3]
T2K = [("N0", "Nx", "Nxy"), ("L90", "L90o", "L20"), ("N0", "L90o", "Nx")]
T2M = ["2:1111", "2:1110", "2:0111"]
T3K = [("N0", "N0", "N0"), ("N0", "Nx", "L90o"), ("L20", "Nxy", "L90")]
T3M = [("2:1111",) * 3, ("2:1110", "2:1111", "2:1011")]


def _tuples(tier):
    """ordered, duplicate-free list of sensor tuples ((mask, kind, dopt), ...)"""
    seen, out = set(), []

    def add(masks, kinds, dopts):
        t = tuple(zip(masks, kinds, dopts))
        if t not in seen:
            seen.add(t)
            out.append(t)

    K = KIND_NAMES
    one = MASKS2 + (MASKS3_LE4 if tier == "thorough" else []) + MASKS3_NAMED
    for m in one:
        for k in K:
            for d in DOPTS:
                add((m,), (k,), (d,))
    if tier == "quick":
        for m in itertools.product(MASKS2, repeat=2):
            for k in QA:
                add(m, k, ("d1", "d1"))
        for k in itertools.product(K, repeat=2):
            for d in itertools.product(DOPTS, repeat=2):
                for m in QB:
                    add(m, k, d)
        for m in QC:
            for k in itertools.product(K, repeat=2):
                for d in (("d1", "d1"), ("d1", "d2")):
                    add(m, k, d)
        for m in QD:
            for k in itertools.product(K, repeat=2):
                for d in itertools.product(DOPTS, repeat=2):
                    add(m, k, d)
        for k in itertools.product(K, repeat=3):
            for m in T1M:
                add(m, k, ("d1",) * 3)
        for k in T2K:
            for m in itertools.product(T2M, repeat=3):
                add(m, k, ("d1",) * 3)
        for d in itertools.product(DOPTS, repeat=3):
            for k in T3K:
                for m in T3M:
                    add(m, k, d)
    else:
        for m in itertools.product(MASKS2, repeat=2):
            for k in itertools.product(K, repeat=2):
                for d in itertools.product(DOPTS, repeat=2):
                    add(m, k, d)
        for m in list(itertools.product(MASKS3_NAMED, repeat=2)) + QD_T:
            for k in itertools.product(K, repeat=2):
                for d in itertools.product(DOPTS, repeat=2):
                    add(m, k, d)
        for k in itertools.product(K, repeat=3):
            for m in T1M:
                for d in itertools.product(DOPTS, repeat=3):
                    add(m, k, d)
            for m in itertools.product(T2M, repeat=3):
                add(m, k, ("d1",) * 3)
    for t in BIG_TUPLES:
        out.append(tuple((BIG[m], k, d) for m, k, d in t))
    return out


def case_id(t):
    return "+".join("%s/%s/%s" % s for s in t)


def _nontrivial(t):
    if any(not point_symmetric(m) for m, _, _ in t):
        return True
    return len(set((k, d) for _, k, d in t)) > 1


FORM_SPECS = [
    [("2:1111", "N0", "d1")],
    [("2:1110", "N0", "d1"), ("2:1111", "L90", "d1")],
    [("2:1111", "N0", "d1"), ("2:1011", "Nx", "d2"), ("2:1111", "L20", "d1")],
]


def cases(tier):
    for k in range(len(FORM_SPECS)):
        yield Case("forms:%d" % k, {"kind": "forms", "k": k}, True)
    for t in _tuples(tier):
        yield Case(case_id(t), {"sensors": [list(s) for s in t]}, _nontrivial(t))
    for threads in (1, 2):
        yield Case("reassign:threads=%d" % threads, {"kind": "reassign", "threads": threads}, True)
    for name, spec, atm, wl, tiers in SPECIALS:
        if tiers == "both" or tiers == tier:
            yield Case("special:" + name, {"kind": "special", "spec": [list(x) for x in spec], "atm": atm, "wl": wl}, True)


# ----------------------------------------------------------------------------- the real code

class _InlinePool(object):
    def __init__(self, processes=None):
        self.processes = processes

    def map(self, fn, args):
        return [fn(a) for a in args]

    def close(self):
        pass

    def join(self):
        pass

    terminate = close


class _InlineMP(object):
    Pool = _InlinePool


def _sensor_dicts(spec, wl):
    out = []
    for (m, k, d), w in zip(spec, wl):
        mask = mask_array(m)
        n = mask.shape[0]
        h_gs, theta = KINDS[k]
        out.append({"mask": mask, "d": D_TEL / n if d == "d1" else D_TEL / (2 * n),
                    "h_gs": h_gs, "theta": theta, "lam": WL[w]})
    return out


def build(sensors, layers, threads=1):
    """the matrix returned by the real builder"""
    from aotools.turbulence import slopecovariance as sc
    cm = sc.CovarianceMatrix(
        len(sensors), [s["mask"].copy() for s in sensors], D_TEL, [s["d"] for s in sensors],
        [s["h_gs"] for s in sensors], [list(s["theta"]) for s in sensors], [s["lam"] for s in sensors],
        len(layers), [l[0] for l in layers], [l[1] for l in layers], [l[2] for l in layers], threads)
    with numpy.errstate(all="ignore"):      # a NaN entry is judged by the `finite` clause, not printed
        if threads == 1:
            return cm.make_covariance_matrix()
        saved = sc.multiprocessing
        sc.multiprocessing = _InlineMP
        try:
            return cm.make_covariance_matrix()
        finally:
            sc.multiprocessing = saved


def _blocks(sensors):
    """[(label, row slice, col slice)] of the lower block triangle (+ both cross blocks of a
    sensor with itself)"""
    sl = slopes.block_slices(sensors)
    out = []
    for i in range(len(sensors)):
        for j in range(i + 1):
            for a, b in (("x", "x"), ("y", "y"), ("x", "y"), ("y", "x")):
                out.append(("%d%s-%d%s" % (i, a, j, b), sl[(i, a)], sl[(j, b)]))
    return out


def _maxabs(a):
    a = numpy.asarray(a, dtype=float)
    if a.size == 0:
        return 0.0
    m = numpy.max(numpy.abs(a))
    return float(m) if m == m else float("inf")


class _Agg(object):
    """worst measure and the tags of the builds that exceed the tolerance, per key"""

    def __init__(self, tol):
        self.tol, self.worst, self.bad, self.n = tol, {}, {}, {}

    def add(self, key, measure, tag):
        m = float(measure)
        if m != m:
            m = float("inf")
        self.n[key] = self.n.get(key, 0) + 1
        if m > self.worst.get(key, -1.0):
            self.worst[key] = m
        if not m <= self.tol:
            self.bad.setdefault(key, []).append(tag)

    def emit(self, o, clause, subfmt=None):
        for key in self.worst:
            bad = self.bad.get(key)
            o.check(clause, not bad, sub=None if subfmt is None else subfmt % key,
                    measure=self.worst[key], tol=self.tol, n=self.n[key],
                    detail=None if not bad else "exceeded in builds %s" % ",".join(bad))


def evaluate(p):
    o = Out()
    if p.get("kind") == "forms":
        return _forms(o, p["k"])
    if p.get("kind") == "special":
        return _special(o, p)
    if p.get("kind") == "reassign":
        return _reassign(o, p)
    spec = [tuple(s) for s in p["sensors"]]
    n = len(spec)
    base = "5" * n
    blocks = None
    entry = _Agg(TOL_ENTRY)
    shape, sym, fin, psd = _Agg(0), _Agg(0), _Agg(0), _Agg(TOL_PSD)
    built = {}

    def one(wl, lset, tag):
        sensors = _sensor_dicts(spec, wl)
        layers = [LAYERS[i] for i in lset]
        M = numpy.asarray(build(sensors, layers))
        o.stat("lib_calls", 1)
        ref = slopes.slope_covariance(sensors, D_TEL, layers)
        N = ref.shape[0]
        ok_shape = M.shape == (N, N)
        shape.add(0, 0 if ok_shape else 1, tag)
        if not ok_shape:
            return None
        built[(wl, lset)] = M
        M64 = M.astype(float)
        finite = bool(numpy.all(numpy.isfinite(M64)))
        fin.add(0, 0 if finite else 1, tag)
        sym.add(0, 0 if numpy.array_equal(M, M.T, equal_nan=True) else 1, tag)
        if finite:
            w = numpy.linalg.eigvalsh(0.5 * (M64 + M64.T))
            psd.add(0, max(0.0, -float(w[0])) / max(float(w[-1]), 1e-300), tag)
        else:
            psd.add(0, float("inf"), tag)
        err = numpy.abs(M64 - ref) / (numpy.abs(ref) + ENTRY_FLOOR * _maxabs(ref))
        err = numpy.where(numpy.isfinite(err), err, numpy.inf)
        for label, rs, cs in _blocks(sensors):
            entry.add(label, numpy.max(err[rs, cs]), tag)
        return M

    # (c) every layer subset at the base wavelengths, every other wavelength assignment on all layers
    for lset in LAYER_SETS:
        one(base, lset, "L" + "".join(map(str, lset)))
    others = ["".join(w) for w in itertools.product("57", repeat=n) if "".join(w) != base]
    for wl in others:
        one(wl, FULL, "wl" + wl)
    shape.emit(o, "shape")
    fin.emit(o, "finite")
    sym.emit(o, "symmetric")
    psd.emit(o, "psd")
    entry.emit(o, "entrywise", "blk=%s")

    # (e) additivity over layers
    for lset in LAYER_SETS:
        if len(lset) < 2 or (base, lset) not in built:
            continue
        parts = [built.get((base, (i,))) for i in lset]
        if any(x is None for x in parts):
            continue
        tot = built[(base, lset)].astype(float)
        s = sum(x.astype(float) for x in parts)
        o.close("additive_over_layers", _maxabs(tot - s) / max(_maxabs(s), 1e-300), TOL_ADD,
                sub="L=" + "".join(map(str, lset)))

    Mfull = built.get((base, FULL))
    if Mfull is not None:
        M0 = Mfull.astype(float)
        # (f) r0 -> 2 r0 on every layer multiplies the matrix by 2^(-5/3)
        sensors = _sensor_dicts(spec, base)
        M2 = numpy.asarray(build(sensors, [(h, 2.0 * r0, L0) for h, r0, L0 in LAYERS])).astype(float)
        o.stat("lib_calls", 1)
        c = 2.0 ** (-5.0 / 3.0)
        o.close("r0_scaling", _maxabs(M2 - c * M0) / max(c * _maxabs(M0), 1e-300), TOL_SCALE)
        # (f) wavelength of sensor i scales its rows and columns
        idx = slopes.slope_index(sensors)
        for wl in others:
            Mw = built.get((wl, FULL))
            if Mw is None:
                continue
            f = numpy.array([WL[wl[k]] / WL[base[k]] for k, _, _ in idx])
            want = M0 * f[:, None] * f[None, :]
            o.close("wavelength_scaling", _maxabs(Mw.astype(float) - want) / max(_maxabs(want), 1e-300),
                    TOL_SCALE, sub="wl=" + wl)
        # "summed over layers": the sum does not depend on the order in which the layers are listed; a layer is
        # the triple (altitude, r0, L0).  Every permutation of the full layer set (float32 accumulation order
        # changes the last bits only).  Added after a seeded change sorted the altitudes but not the r0/L0 lists.
        import itertools as _it
        for perm in _it.permutations(FULL):
            if list(perm) == list(FULL):
                continue
            Mp_ = numpy.asarray(build(sensors, [LAYERS[i] for i in perm])).astype(float)
            o.stat("lib_calls", 1)
            o.close("layer_order_irrelevant", _maxabs(Mp_ - M0) / max(_maxabs(M0), 1e-300), TOL_ADD,
                    sub="order=%s" % "".join(map(str, perm)))
        # multi-process assembly path (in-line pool), mixed wavelengths
        wl = ("57" * n)[:n]
        ser = built.get((wl, FULL))
        if ser is not None:
            Mp = numpy.asarray(build(_sensor_dicts(spec, wl), [LAYERS[i] for i in FULL], threads=2))
            o.stat("lib_calls", 1)
            if Mp.shape != ser.shape:
                o.check("mp_path_agrees", False, detail="shape %s" % (Mp.shape,))
            else:
                both_nan = numpy.isnan(Mp) & numpy.isnan(ser)      # NaN itself is the `finite` clause's business
                diff = numpy.where(both_nan, 0.0, Mp.astype(float) - ser.astype(float))
                o.close("mp_path_agrees", _maxabs(diff) / max(_maxabs(numpy.nan_to_num(ser)), 1e-300), TOL_MP)
        o.outcome(numpy.round(M0 / max(_maxabs(M0), 1e-300), 4))
    return o


def _reassign(o, p):
    """One object used as in a fitting loop: a configuration attribute is re-assigned, the matrix is made again, and
    must be the matrix of a fresh object with the current configuration (the builder derives the whole geometry from
    its attributes on every build).  One attribute at a time, then all of them back to the start."""
    from aotools.turbulence import slopecovariance as sc
    cfg = {"pupil_masks": [mask_array("2:1110"), mask_array("2:1011")], "telescope_diameter": D_TEL,
           "subap_diameters": [1.0, 1.0], "gs_altitudes": [0.0, 90000.0], "gs_positions": [[0.0, 0.0], [15.0, -35.0]],
           "wfs_wavelengths": [500e-9, 700e-9], "layer_altitudes": [0.0, 5000.0], "layer_r0s": [0.2, 0.3],
           "layer_L0s": [25.0, 10.0]}
    steps = [("gs_positions", [[30.0, 0.0], [-20.0, 25.0]]), ("gs_altitudes", [20000.0, 0.0]),
             ("layer_altitudes", [1000.0, 12000.0]), ("subap_diameters", [0.5, 1.0]),
             ("pupil_masks", [mask_array("2:0111"), mask_array("2:1101")]), ("layer_r0s", [0.5, 0.1]),
             ("layer_L0s", [100.0, 5.0]), ("wfs_wavelengths", [700e-9, 589e-9]), ("telescope_diameter", 1.5),
             ("gs_positions", numpy.array([[0.0, 10.0], [5.0, 5.0]])), ("layer_altitudes", numpy.array([0.0, 5000.0]))]
    steps += [(k, v) for k, v in cfg.items() if k not in ("layer_altitudes",)]      # ... and back to the start

    def make(c, threads):
        cm = sc.CovarianceMatrix(2, [m.copy() for m in c["pupil_masks"]], c["telescope_diameter"], list(c["subap_diameters"]),
                                 list(c["gs_altitudes"]), [list(x) for x in numpy.asarray(c["gs_positions"])], list(c["wfs_wavelengths"]), 2,
                                 list(numpy.asarray(c["layer_altitudes"])), list(c["layer_r0s"]), list(c["layer_L0s"]), threads)
        return cm

    def build(cm):
        saved = sc.multiprocessing
        sc.multiprocessing = _InlineMP
        try:
            with numpy.errstate(all="ignore"):
                return numpy.asarray(cm.make_covariance_matrix()).astype(float)
        finally:
            sc.multiprocessing = saved

    obj = make(cfg, p["threads"])
    cur = dict(cfg)
    first = build(obj)
    o.close("reassigned_object_equals_fresh_object", _maxabs(first - build(make(cur, p["threads"]))) / max(_maxabs(first), 1e-300), 0.0, sub="step=0:initial")
    for k, (name, val) in enumerate(steps):
        cur[name] = val
        setattr(obj, name, val.copy() if isinstance(val, numpy.ndarray) else (list(val) if isinstance(val, list) else val))
        got = build(obj)
        want = build(make(cur, p["threads"]))
        o.stat("lib_calls", 2)
        if got.shape != want.shape:
            o.check("reassigned_object_equals_fresh_object", False, sub="step=%d:%s" % (k + 1, name), detail="shape %s" % (got.shape,))
            continue
        o.close("reassigned_object_equals_fresh_object", _maxabs(got - want) / max(_maxabs(want), 1e-300), 1e-6,
                sub="step=%d:%s" % (k + 1, name))
    o.outcome(numpy.round(first / max(_maxabs(first), 1e-300), 4))
    return o


def _special(o, p):
    """one configuration with an explicit layer list: every clause of the statement on that build (entrywise
    against the reference, symmetric, PSD, additive over its layers, r0 scaling, multi-process path)"""
    spec = [(BIG.get(m, m), k, d) for m, k, d in p["spec"]]
    layers = EXTREME_LAYERS[p["atm"]]
    sensors = _sensor_dicts(spec, p["wl"])
    M = numpy.asarray(build(sensors, layers))
    o.stat("lib_calls", 1)
    ref = slopes.slope_covariance(sensors, D_TEL, layers)
    N = ref.shape[0]
    o.check("shape", M.shape == (N, N), detail=M.shape)
    if M.shape != (N, N):
        return o
    M64 = M.astype(float)
    finite = bool(numpy.all(numpy.isfinite(M64)))
    o.check("finite", finite)
    o.check("symmetric", bool(numpy.array_equal(M, M.T, equal_nan=True)),
            detail=None if numpy.array_equal(M, M.T, equal_nan=True) else "max |M - M^T| / max|M| = %g" % (_maxabs(M64 - M64.T) / max(_maxabs(M64), 1e-300)))
    if not finite:
        return o
    w = numpy.linalg.eigvalsh(0.5 * (M64 + M64.T))
    o.close("psd", max(0.0, -float(w[0])) / max(float(w[-1]), 1e-300), TOL_PSD)
    err = numpy.abs(M64 - ref) / (numpy.abs(ref) + ENTRY_FLOOR * _maxabs(ref))
    err = numpy.where(numpy.isfinite(err), err, numpy.inf)
    for label, rs, cs in _blocks(sensors):
        o.close("entrywise", float(numpy.max(err[rs, cs])), TOL_ENTRY, sub="blk=%s" % label)
    if len(layers) > 1 and N <= 600:
        s_ = sum(numpy.asarray(build(sensors, [l])).astype(float) for l in layers)
        o.stat("lib_calls", len(layers))
        o.close("additive_over_layers", _maxabs(M64 - s_) / max(_maxabs(s_), 1e-300), TOL_ADD)
    M2 = numpy.asarray(build(sensors, [(h, 2.0 * r0, L0) for h, r0, L0 in layers])).astype(float)
    c = 2.0 ** (-5.0 / 3.0)
    o.close("r0_scaling", _maxabs(M2 - c * M64) / max(c * _maxabs(M64), 1e-300), TOL_SCALE)
    Mp = numpy.asarray(build(sensors, layers, threads=2))
    o.stat("lib_calls", 2)
    if Mp.shape != M.shape:
        o.check("mp_path_agrees", False, detail="shape %s" % (Mp.shape,))
    else:
        o.close("mp_path_agrees", _maxabs(Mp.astype(float) - M64) / max(_maxabs(M64), 1e-300), TOL_MP)
    o.outcome((p["atm"], N))
    return o


def _forms(o, k):
    """The same configuration written in every common argument form - lists, tuples, numpy arrays, masks stored
    as float (what aotools.circle returns), bool or small ints, whole-number parameters given as Python ints -
    must give the bit-identical matrix: the matrix is a function of the configuration, not of its spelling."""
    from aotools.turbulence import slopecovariance as sc
    spec = [tuple(x) for x in FORM_SPECS[k]]
    spec = [s for s in spec if s[1] in KINDS]
    sensors = _sensor_dicts(spec, "5" * len(spec))
    layers = [LAYERS[0], LAYERS[1]]

    def call(masks, D, ds, alts, pos, wls, lh, lr, lL):
        cm = sc.CovarianceMatrix(len(sensors), masks, D, ds, alts, pos, wls, len(layers), lh, lr, lL, 1)
        with numpy.errstate(all="ignore"):
            return numpy.array(cm.make_covariance_matrix())
    base_args = dict(
        masks=[s["mask"].copy() for s in sensors], D=D_TEL, ds=[s["d"] for s in sensors],
        alts=[s["h_gs"] for s in sensors], pos=[list(s["theta"]) for s in sensors], wls=[s["lam"] for s in sensors],
        lh=[l[0] for l in layers], lr=[l[1] for l in layers], lL=[l[2] for l in layers])
    base = call(**base_args)
    o.stat("lib_calls", 1)

    def whole(v):
        return int(v) if float(v) == int(v) else v
    forms = {
        "numpy_arrays": dict(ds=numpy.array(base_args["ds"]), alts=numpy.array(base_args["alts"], dtype=float),
                             pos=numpy.array(base_args["pos"], dtype=float), wls=numpy.array(base_args["wls"]),
                             lh=numpy.array(base_args["lh"]), lr=numpy.array(base_args["lr"]), lL=numpy.array(base_args["lL"])),
        "tuples": dict(ds=tuple(base_args["ds"]), alts=tuple(base_args["alts"]), pos=tuple(tuple(x) for x in base_args["pos"]),
                       wls=tuple(base_args["wls"]), lh=tuple(base_args["lh"]), lr=tuple(base_args["lr"]), lL=tuple(base_args["lL"])),
        "masks_float": dict(masks=[m.astype(float) for m in base_args["masks"]]),
        "masks_bool": dict(masks=[m.astype(bool) for m in base_args["masks"]]),
        "masks_int8": dict(masks=[m.astype(numpy.int8) for m in base_args["masks"]]),
        "masks_fortran": dict(masks=[numpy.asfortranarray(m) for m in base_args["masks"]]),
        "whole_numbers_as_int": dict(D=whole(D_TEL), ds=[whole(d) for d in base_args["ds"]],
                                     alts=[whole(a) for a in base_args["alts"]],
                                     pos=[[whole(c) for c in q] for q in base_args["pos"]],
                                     lh=[whole(h) for h in base_args["lh"]], lL=[whole(L) for L in base_args["lL"]]),
        "numpy_scalars": dict(D=numpy.float64(D_TEL), ds=[numpy.float64(d) for d in base_args["ds"]],
                              lr=[numpy.float64(r) for r in base_args["lr"]]),
    }
    for name, over in forms.items():
        a = dict(base_args)
        a.update(over)
        try:
            got = call(**a)
            o.stat("lib_calls", 1)
            ok = got.shape == base.shape and got.dtype == base.dtype and got.tobytes() == base.tobytes()
            o.check("same_matrix_for_every_argument_form", ok, sub=name,
                    measure=None if got.shape != base.shape else _maxabs(got - base))
        except Exception as e:
            o.check("same_matrix_for_every_argument_form", False, sub=name,
                    detail="%s: %s" % (type(e).__name__, str(e)[:200]))
    return o
