"""C01 Slope covariance matrix equals the true covariance of the WFS slopes.

E1: every wavefront-sensor configuration of a bounded lattice (number of sensors x 0/1 masks
x guide-star kinds x sub-aperture sizes, crossed inside each case with every non-empty
subset of three layers and every wavelength assignment) is built with the REAL
aotools CovarianceMatrix (serial path, and the multi-process path through the controlled in-line pool of
mc.sched.patched_pools)
and compared entry by entry with an independent reference (mc/refmodels/slopes.py) that goes
from the stated geometry through the von Karman covariance B(r), sample point by sample
point, and knows nothing about blocks, separations, flips or mirroring.

Sensor pairs on different grids (3x3 with 2x2) are part of the lattice: their projected sample
points can coincide exactly (zero separation inside the structure function).

Failure ids: `entrywise|<case>|blk=<i><a>-<j><b>` names the block (rows: sensor i axis a,
columns: sensor j axis b, i >= j) of the returned matrix that disagrees, so the different
assembly shortcuts of the builder show up under different ids.
"""
import itertools

import numpy

from mc import Out, Case
from mc.refmodels import slopes

PROPERTY = "C01"
LEVEL = "exploration"
TECHNIQUE = ("bounded exhaustive enumeration of sensor configurations (sensor count x masks x "
             "guide-star kinds x sub-aperture sizes x layer subsets x wavelength assignments) on the "
             "real builder, entrywise comparison with an independent sample-point reference model, "
             "plus additivity / scaling / layer-order relations (up to float32 rounding) between lattice points, "
             "call histories on one object (repeat, re-assigned attributes, held results) and argument spellings")
RULE = ("case = ordered tuple of sensors (mask bits, guide-star kind, sub-aperture size option); inside "
        "a case every non-empty subset of the 3 layers and every wavelength assignment in {500,700 nm}^n "
        "is built. Enumerated tuples: see BOUNDS (full products where stated, otherwise the listed "
        "sub-products, whose union is enumerated completely). A case is non-trivial when some mask is "
        "not point-symmetric about the grid centre, or two sensors differ in guide star or size")
ASSUMPTIONS = [
    "geometry as stated for the builder: pixel (i0,i1) -> i*d - D/2 - d/2 in the pupil, cone factor "
    "1 - h/h_gs about the pupil origin, translation theta*h; slope = lambda/(2 pi) x finite difference "
    "of the layer phase across the projected sub-aperture / projected diameter; axis 'x' = first array axis",
    "PUPIL ORIGIN CONVENTION (assumed, not derived from the statement): 'the geometrically projected sub-aperture "
    "positions' are read with the builder's documented reference point  i*d - D/2 - d/2  of mask pixel i (both "
    "axes), i.e. the point about which the cone factor shrinks the footprint is the one this convention calls the "
    "pupil origin; it is one sub-aperture away from the geometric centre (i+1/2)*d - D/2 of the pixel.  The "
    "difference is invisible for NGS-only systems with equal sub-aperture sizes and shifts LGS footprints by "
    "d*h/h_gs otherwise.  A change of the library to geometric centres would be reported by `entrywise` and has to "
    "be triaged as a change of convention, not as a defect",
    "calling convention: sequence arguments are handed over as Python lists (per-sensor masks as int ndarrays), as "
    "the repository's own test does; that lists are accepted is an assumed contract (the docstring says ndarray). "
    "Other spellings (ndarrays, tuples, float/bool masks, Python ints, one shared mask object, ndarray mixed with "
    "lists) are compared with the list form up to rounding in the `forms:*` cases",
    "configurations outside the lattice and the listed special / geometry cases (other offsets, altitudes, r0, L0) "
    "are not covered; r0 and wavelength directions are extended by the scaling clauses; guide stars BELOW a layer "
    "(cone factor <= 0) are not covered: the statement does not say what such a layer contributes",
    "entrywise tolerance 2e-3 relative to |ref| + 0.005 max|ref| (the builder's published constant 0.17253 "
    "vs 2 B(0) = 0.172629 alone gives 5.7e-4; float32 storage adds ~1e-7)",
    "'up to single-precision rounding': symmetry is |M_ij - M_ji| <= max(4, n_layers + 2) eps32 sqrt(M_ii M_jj); "
    "additivity, r0 / wavelength scaling, layer order and agreement of the two assembly paths are "
    "max(1e-6, (n_layers + 2) eps32) relative to max|M| (float32 accumulation over layers)",
    "the multi-process path is run through the controlled in-line pool of mc.sched.patched_pools (FIFO completion, "
    "full Pool API, every import style); if the library fails under that pool but succeeds with the real "
    "multiprocessing pool the stand-in is at fault: counted as mp_inline_pool_not_claimed and the real pool's result "
    "is judged.  Real scheduling is the subject of C03",
    "one object built repeatedly: the statement does not say whether attributes re-assigned after construction are "
    "honoured; the check only demands UNIFORM semantics - every build equals a fresh object with the current "
    "attributes, or every build equals the first build (configuration frozen at construction); a mixture is a "
    "violation.  An attribute that cannot be re-assigned (setattr raises) is skipped",
    "degenerate inputs: a sensor whose mask has no active sub-aperture, and more guide-star directions than "
    "sensors, are judged only if the builder accepts them (its values must then be right); a builder that raises "
    "on them is not judged (empty_mask_not_claimed / form_extra_gs_position_rows_not_claimed)",
    "trusted: scipy.special.kv / gamma, numpy.linalg.eigvalsh and the reference model",
]
ENGINES = ["E1-product-enumeration"]
LEVEL_TEXT = ("Every sensor tuple of the stated lattice is enumerated (quick: all 15 2x2 masks and 6 named "
              "3x3 masks for one sensor, all 225 ordered 2x2 mask pairs x 4 guide-star pairs and all 36 "
              "guide-star pairs x 4 size pairs x 5 equal-grid and 3 mixed-grid mask pairs for two sensors, all 216 guide-star triples x 3 "
              "mask classes for three; thorough: the full product masks^2 x kinds^2 x sizes^2 for two sensors, "
              "all 255 3x3 masks with <= 4 cells, all guide-star triples x size triples). Each is crossed with "
              "all 7 layer subsets and all wavelength assignments and compared entrywise with the reference. "
              "Spot cases beyond the lattice: explicit atmospheres, 1248-2490 row matrices, non-square masks, "
              "4/5/6 sensors, an all-zero mask among several, telescope diameters 1.5 / 4.2 / 7.0 m.")
LEVEL_NOTE = ("Trusted: the reference model mc/refmodels/slopes.py + vonkarman.py (self-checked against a "
              "brute-force Hankel quadrature), scipy kv. Not covered: geometries and atmospheres off the "
              "lattice (r0/wavelength covered by the scaling clauses); grids larger than 3x3, non-square masks, more "
              "than 3 sensors and other telescope diameters only through the listed spot cases; layers above a "
              "laser guide star; the pupil origin is the builder's documented convention (see ASSUMPTIONS).")

D_TEL = 2.0
LAYERS = [(0.0, 0.2, 25.0), (5000.0, 0.3, 10.0), (12000.0, 0.5, 100.0)]
LAYER_SETS = [s for k in (1, 2, 3) for s in itertools.combinations(range(3), k)]
FULL = (0, 1, 2)
WL = {"5": 500e-9, "7": 700e-9}
KINDS = {                       # guide-star altitude [m] (0 = NGS), direction [arcsec]
    "N0": (0.0, (0.0, 0.0)),
    "Nx": (0.0, (30.0, 0.0)),
    "Nxy": (0.0, (-20.0, 25.0)),
    "L90": (90000.0, (0.0, 0.0)),
    "L90o": (90000.0, (15.0, -35.0)),
    "L20": (20000.0, (0.0, 0.0)),
}
KIND_NAMES = list(KINDS)
DOPTS = ("d1", "d2")            # d1: D/n, d2: D/(2n)   (n = mask grid size)

TOL_ENTRY = 2e-3
ENTRY_FLOOR = 5e-3
TOL_PSD = 1e-5
TOL_ADD = 1e-6
TOL_SCALE = 1e-6
TOL_MP = 1e-6
EPS32 = float(numpy.finfo(numpy.float32).eps)


def _tol_sum(n_layers):
    """tolerance (relative to max|M|) of the relations between float32 matrices that are each a float32 running sum
    over layers: every `+=` rounds once, so the error grows with the number of layers.  The unchanged library measures
    1.1e-7 (3 layers) and 2.3e-7 (12 layers); 1e-6 resp. 1.7e-6 leave a factor >= 4."""
    return max(1e-6, (n_layers + 2) * EPS32)


def _tol_sym(n_layers):
    """|M_ij - M_ji| / sqrt(M_ii M_jj): two triangles that are computed (not copied) may differ by one float32 rounding
    per accumulated layer.  The unchanged library mirrors bit by bit and measures 0."""
    return max(4, n_layers + 2) * EPS32

MASKS2 = ["2:" + "".join(b) for b in itertools.product("01", repeat=4) if "1" in b]
NAMED3 = {"full": "3:111111111", "L": "3:100100111", "diag": "3:100010001",
          "corner": "3:100000000", "ring": "3:111101111", "asym4": "3:110001010"}
MASKS3_NAMED = list(NAMED3.values())
MASKS3_LE4 = ["3:" + "".join("1" if i in c else "0" for i in range(9))
              for k in (1, 2, 3, 4) for c in itertools.combinations(range(9), k)]


def _circ(n, drop=()):
    c = (n - 1) / 2.0
    return "%d:" % n + "".join("1" if ((i - c) ** 2 + (j - c) ** 2 <= (n / 2.0) ** 2 and (i, j) not in drop) else "0"
                                for i in range(n) for j in range(n))


# grids beyond 3x3 (many sub-apertures: separations and index arithmetic the small grids never produce)
BIG = {"circ7": _circ(7), "asym5": _circ(5, drop=((0, 1), (2, 2), (4, 3))), "circ8": _circ(8, drop=((3, 3), (3, 4), (4, 3), (4, 4)))}
BIG_TUPLES = [
    (("circ7", "N0", "d1"),), (("circ7", "L90o", "d1"),), (("asym5", "Nxy", "d2"),), (("circ8", "L20", "d1"),),
    (("circ7", "N0", "d1"), ("asym5", "L90o", "d1")), (("asym5", "Nx", "d1"), ("asym5", "L20", "d2")),
    (("asym5", "N0", "d1"), ("circ7", "Nxy", "d1"), ("asym5", "L90", "d1")),
]


BIG["circ16"] = _circ(16)
BIG["circ23"] = _circ(23)
# special cases: explicit layer lists (h, r0, L0) far from the lattice's atmosphere, and matrices above 1024 / 2048
# rows (three 16x16 pupils = 1248 rows; three 23x23 pupils = 2490 rows in the thorough tier)
EXTREME_LAYERS = {
    "r0=15m": [(0.0, 15.0, 25.0)], "r0=0.2m+12m": [(0.0, 0.2, 25.0), (5000.0, 12.0, 30.0)],
    "r0=2mm": [(3000.0, 0.002, 10.0)], "L0=1km": [(0.0, 0.2, 1000.0)], "L0=5km@8km": [(8000.0, 0.3, 5000.0)],
    "L0=0.5m": [(0.0, 0.2, 0.5)], "L0=100km": [(0.0, 0.2, 1.0e5)], "r0=1km": [(2000.0, 1000.0, 10.0)],
    "L0=5cm": [(0.0, 0.2, 0.05)],
    "12layers": [(1000.0 * k, 0.2 + 0.05 * k, 10.0 + 7.0 * (k % 4)) for k in range(12)],
}
SPECIALS = []
for _name in EXTREME_LAYERS:
    SPECIALS.append(("atm:%s:A" % _name, [("asym5", "N0", "d1"), ("3:110001010", "L90o", "d2")], _name, "57", "both"))
    SPECIALS.append(("atm:%s:B" % _name, [("3:100100111", "Nxy", "d1"), ("2:1011", "L20", "d1"), ("2:1111", "Nx", "d2")], _name, "575", "both"))
SPECIALS.append(("huge:3xcirc16", [("circ16", "N0", "d1"), ("circ16", "L90o", "d1"), ("circ16", "Nxy", "d1")], "r0=0.2m+12m", "557", "both"))
SPECIALS.append(("huge:circ23+circ16", [("circ23", "L90o", "d1"), ("circ16", "N0", "d2")], "r0=0.2m+12m", "75", "both"))
SPECIALS.append(("huge:3xcirc23", [("circ23", "N0", "d1"), ("circ23", "L20", "d1"), ("circ23", "Nxy", "d2")], "L0=1km", "557", "thorough"))

# geometry spot cases beyond the lattice: explicit telescope diameter D, sensors (mask, d [m], h_gs [m], direction
# [arcsec], wavelength [nm]) and layers.  Non-square masks (R x C), 4 / 5 / 6 sensors (block offsets and the pair
# index of the multi-process path beyond 6 pairs), an all-zero mask among several sensors, D with D/2 not a whole
# number and d unrelated to D/n.  All guide stars are above every layer.
GEO = {
    "2x3+3x2": (2.0, [("2x3:110111", 0.7, 0.0, (-20.0, 25.0), 500), ("3x2:101101", 0.5, 90000.0, (15.0, -35.0), 700)], LAYERS),
    "1x4:L20": (2.0, [("1x4:1101", 0.5, 20000.0, (0.0, 0.0), 500)], LAYERS),
    "4x2+2x2+1x3": (2.0, [("4x2:10110111", 0.5, 0.0, (30.0, 0.0), 500), ("2:1011", 1.0, 20000.0, (0.0, 0.0), 700),
                          ("1x3:111", 0.6, 90000.0, (-10.0, 5.0), 500)], LAYERS),
    "4sensors": (2.0, [("2:1110", 1.0, 0.0, (0.0, 0.0), 500), ("3:110001010", 2.0 / 3.0, 90000.0, (15.0, -35.0), 700),
                       ("2:1111", 0.5, 20000.0, (0.0, 0.0), 500), ("3:100100111", 2.0 / 3.0, 0.0, (-20.0, 25.0), 700)], LAYERS),
    "5sensors": (2.0, [("2:1011", 1.0, 0.0, (30.0, 0.0), 500), ("3:100010001", 2.0 / 3.0, 90000.0, (0.0, 0.0), 700),
                       ("2:0110", 0.5, 20000.0, (0.0, 0.0), 500), ("3:110001010", 1.0 / 3.0, 0.0, (-20.0, 25.0), 500),
                       ("2:1111", 1.0, 90000.0, (15.0, -35.0), 700)], LAYERS),
    "6sensors": (2.0, [("2:1110", 1.0, 90000.0, (10.0, 0.0), 500), ("2:1111", 1.0, 90000.0, (5.0, 8.66), 700),
                       ("3:100100111", 2.0 / 3.0, 90000.0, (-5.0, 8.66), 500), ("2:0111", 0.5, 0.0, (-10.0, 0.0), 500),
                       ("1x2:11", 1.0, 20000.0, (-5.0, -8.66), 700), ("2:1001", 1.0, 0.0, (5.0, -8.66), 500)], LAYERS[:2]),
    "emptymask:middle": (2.0, [("2:1110", 1.0, 0.0, (0.0, 0.0), 500), ("2:0000", 1.0, 90000.0, (15.0, -35.0), 700),
                               ("2:0110", 1.0, 20000.0, (0.0, 0.0), 500)], LAYERS),
    "emptymask:first": (2.0, [("2:0000", 1.0, 0.0, (30.0, 0.0), 500), ("2:1011", 0.5, 20000.0, (0.0, 0.0), 700)], LAYERS),
    "D=1.5": (1.5, [("2:1110", 0.9, 0.0, (0.0, 0.0), 500), ("3:110001010", 0.4, 20000.0, (0.0, 0.0), 700)], LAYERS),
    "D=4.2": (4.2, [("3:100100111", 1.3, 0.0, (-20.0, 25.0), 500), ("2:1011", 0.9, 20000.0, (0.0, 0.0), 500)], LAYERS),
    "D=7.0": (7.0, [("3:110001010", 1.3, 90000.0, (15.0, -35.0), 700), ("3:111101111", 0.9, 0.0, (30.0, 0.0), 500),
                    ("2:1101", 3.1, 20000.0, (0.0, 0.0), 500)], LAYERS),
}


def mask_array(name):
    """'n:bits' (n x n) or 'RxC:bits' (R rows, C columns), row-major"""
    n, bits = name.split(":")
    if "x" in n:
        r, c = (int(v) for v in n.split("x"))
    else:
        r = c = int(n)
    return numpy.array([int(b) for b in bits], dtype=int).reshape(r, c)


def point_symmetric(name):
    m = mask_array(name)
    return bool(numpy.array_equal(m, m[::-1, ::-1]))


def BOUNDS(tier):
    return {"telescope_diameter": D_TEL, "layers(h,r0,L0)": LAYERS,
            "layer_sets": ["".join(map(str, s)) for s in LAYER_SETS],
            "wavelengths_nm": [500, 700], "kinds": {k: list(map(_plain, v)) for k, v in KINDS.items()},
            "subap_size_options": {"d1": "D/n", "d2": "D/(2n)"},
            "masks_2x2": MASKS2, "masks_3x3_named": NAMED3, "special_cases(explicit atmospheres; 1248-2490 row matrices)": {"atmospheres": EXTREME_LAYERS, "cases": [x[0] for x in SPECIALS]}, "big_grids(5x5,7x7,8x8)": {"masks": BIG, "tuples": [[list(x) for x in t] for t in BIG_TUPLES]},
            "geometry_cases(D, [(mask, d, h_gs, direction_arcsec, wavelength_nm)], layers)": {k: [v[0], [list(map(_plain, x)) for x in v[1]], list(map(list, v[2]))] for k, v in GEO.items()},
            "form_cases": [[list(x) for x in f] for f in FORM_SPECS],
            "reassign_history": "one object, 11 single-attribute re-assignments then 8 back to the start, threads 1 and 2",
            "masks_3x3_le4cells": len(MASKS3_LE4) if tier == "thorough" else 0,
            "tuples": _tuple_rule(tier), "r0_scale_factor": 2.0, "threads": [1, 2], "threads_geometry_cases": [1, 2, 3]}


def _plain(v):
    return list(v) if isinstance(v, tuple) else v


def _tuple_rule(tier):
    if tier == "quick":
        return {"n=1": "(15 2x2 + 6 named 3x3 masks) x 6 kinds x 2 sizes",
                "n=2": ["A: all 225 ordered 2x2 mask pairs x kind pairs %s x (d1,d1)" % (QA,),
                        "B: all 36 kind pairs x all 4 size pairs x mask pairs %s" % (QB,),
                        "C: 3x3 mask pairs %s x all 36 kind pairs x sizes (d1,d1),(d1,d2)" % (QC,),
                        "D: mixed 3x3/2x2 mask pairs %s x all 36 kind pairs x all 4 size pairs" % (QD,)],
                "n=3": ["T1: all 216 kind triples x mask triples %s x (d1,d1,d1)" % (T1M,),
                        "T2: kind triples %s x all 27 mask triples over %s x d1" % (T2K, T2M),
                        "T3: all 8 size triples x kind triples %s x mask triples %s" % (T3K, T3M)]}
    return {"n=1": "(15 2x2 + 255 3x3 masks with <= 4 cells + 6 named 3x3) x 6 kinds x 2 sizes",
            "n=2": ["full product 15^2 2x2 masks x 6^2 kinds x 2^2 sizes",
                    "all 36 ordered pairs of named 3x3 masks x 6^2 kinds x 2^2 sizes",
                    "all 36 ordered mixed pairs (named 3x3) x (2:1111, 2:1110, 2:1001) x 6^2 kinds x 2^2 sizes"],
            "n=3": ["all 216 kind triples x mask triples %s x all 8 size triples" % (T1M,),
                    "all 216 kind triples x all 27 mask triples over %s x d1" % (T2M,)]}


QA = [("N0", "N0"), ("N0", "Nx"), ("Nxy", "L90"), ("L90o", "L20")]
QB = [("2:1111", "2:1111"), ("2:1110", "2:1111"), ("2:1111", "2:0111"), ("2:1101", "2:1011"),
      ("2:1001", "2:0110")]
QC = [(m, m) for m in MASKS3_NAMED] + [(NAMED3["full"], NAMED3["L"]), (NAMED3["asym4"], NAMED3["ring"])]
QD = [(NAMED3["ring"], "2:1111"), ("2:1111", NAMED3["L"]), ("2:1110", NAMED3["asym4"])]
QD_T = ([(a, b) for a in MASKS3_NAMED for b in ("2:1111", "2:1110", "2:1001")]
        + [(b, a) for a in MASKS3_NAMED for b in ("2:1111", "2:1110", "2:1001")])
T1M = [("2:1111",) * 3, ("2:1110",) * 3, (NAMED3["L"],) * 3]
T2K = [("N0", "Nx", "Nxy"), ("L90", "L90o", "L20"), ("N0", "L90o", "Nx")]
T2M = ["2:1111", "2:1110", "2:0111"]
T3K = [("N0", "N0", "N0"), ("N0", "Nx", "L90o"), ("L20", "Nxy", "L90")]
T3M = [("2:1111",) * 3, ("2:1110", "2:1111", "2:1011")]


def _tuples(tier):
    """ordered, duplicate-free list of sensor tuples ((mask, kind, dopt), ...)"""
    seen, out = set(), []

    def add(masks, kinds, dopts):
        t = tuple(zip(masks, kinds, dopts))
        if t not in seen:
            seen.add(t)
            out.append(t)

    K = KIND_NAMES
    one = MASKS2 + (MASKS3_LE4 if tier == "thorough" else []) + MASKS3_NAMED
    for m in one:
        for k in K:
            for d in DOPTS:
                add((m,), (k,), (d,))
    if tier == "quick":
        for m in itertools.product(MASKS2, repeat=2):
            for k in QA:
                add(m, k, ("d1", "d1"))
        for k in itertools.product(K, repeat=2):
            for d in itertools.product(DOPTS, repeat=2):
                for m in QB:
                    add(m, k, d)
        for m in QC:
            for k in itertools.product(K, repeat=2):
                for d in (("d1", "d1"), ("d1", "d2")):
                    add(m, k, d)
        for m in QD:
            for k in itertools.product(K, repeat=2):
                for d in itertools.product(DOPTS, repeat=2):
                    add(m, k, d)
        for k in itertools.product(K, repeat=3):
            for m in T1M:
                add(m, k, ("d1",) * 3)
        for k in T2K:
            for m in itertools.product(T2M, repeat=3):
                add(m, k, ("d1",) * 3)
        for d in itertools.product(DOPTS, repeat=3):
            for k in T3K:
                for m in T3M:
                    add(m, k, d)
    else:
        for m in itertools.product(MASKS2, repeat=2):
            for k in itertools.product(K, repeat=2):
                for d in itertools.product(DOPTS, repeat=2):
                    add(m, k, d)
        for m in list(itertools.product(MASKS3_NAMED, repeat=2)) + QD_T:
            for k in itertools.product(K, repeat=2):
                for d in itertools.product(DOPTS, repeat=2):
                    add(m, k, d)
        for k in itertools.product(K, repeat=3):
            for m in T1M:
                for d in itertools.product(DOPTS, repeat=3):
                    add(m, k, d)
            for m in itertools.product(T2M, repeat=3):
                add(m, k, ("d1",) * 3)
    for t in BIG_TUPLES:
        out.append(tuple((BIG[m], k, d) for m, k, d in t))
    return out


def case_id(t):
    return "+".join("%s/%s/%s" % s for s in t)


def _nontrivial(t):
    if any(not point_symmetric(m) for m, _, _ in t):
        return True
    return len(set((k, d) for _, k, d in t)) > 1


FORM_SPECS = [
    [("2:1111", "N0", "d1")],
    [("2:1110", "N0", "d1"), ("2:1111", "L90", "d1")],
    [("2:1111", "N0", "d1"), ("2:1011", "Nx", "d2"), ("2:1111", "L20", "d1")],
    [("2:1110", "N0", "d1"), ("2:1110", "L90o", "d1"), ("2:1110", "Nx", "d2")],      # equal masks: one shared mask object
]


def cases(tier):
    for k in range(len(FORM_SPECS)):
        yield Case("forms:%d" % k, {"kind": "forms", "k": k}, True)
    for t in _tuples(tier):
        yield Case(case_id(t), {"sensors": [list(s) for s in t]}, _nontrivial(t))
    for threads in (1, 2):
        yield Case("reassign:threads=%d" % threads, {"kind": "reassign", "threads": threads}, True)
    for name, spec, atm, wl, tiers in SPECIALS:
        if tiers == "both" or tiers == tier:
            yield Case("special:" + name, {"kind": "special", "spec": [list(x) for x in spec], "atm": atm, "wl": wl}, True)
    for name in GEO:
        yield Case("geo:" + name, {"kind": "geo", "name": name}, True)


# ----------------------------------------------------------------------------- the real code

class _InlinePool(object):
    """minimal serial pool (kept for modules that import the name; C01 itself runs the multi-process path under
    mc.sched.patched_pools, which provides the whole Pool API for every import style)"""

    def __init__(self, processes=None, *a, **kw):
        self.processes = processes

    def map(self, fn, args, chunksize=None):
        return [fn(a) for a in args]

    def starmap(self, fn, args, chunksize=None):
        return [fn(*a) for a in args]

    def imap(self, fn, args, chunksize=1):
        return iter([fn(a) for a in args])

    imap_unordered = imap

    def close(self):
        pass

    def join(self):
        pass

    terminate = close

    def __enter__(self):
        return self

    def __exit__(self, *exc):
        return False


class _InlineMP(object):
    Pool = _InlinePool


def _sensor_dicts(spec, wl):
    out = []
    for (m, k, d), w in zip(spec, wl):
        mask = mask_array(m)
        n = mask.shape[0]
        h_gs, theta = KINDS[k]
        out.append({"mask": mask, "d": D_TEL / n if d == "d1" else D_TEL / (2 * n),
                    "h_gs": h_gs, "theta": theta, "lam": WL[w]})
    return out


_MP_REAL_POOL = [0]         # builds of this case whose in-line pool failed while the real pool worked


def make_matrix(cm):
    """cm.make_covariance_matrix() with every process pool the library can reach replaced by the controlled in-line
    pool (FIFO).  The stand-in is instrumentation of the check: if it cannot be installed, or the library raises
    under it, the build is repeated with the real multiprocessing pool; only an exception that the real pool shows
    as well is the library's (it escapes and is reported as `no_exception`)."""
    ctx = None
    try:
        from mc import sched
        ctx = sched.patched_pools(None)
        ctx.__enter__()
    except Exception:
        if ctx is not None:
            try:
                ctx.__exit__(None, None, None)
            except Exception:
                pass
        ctx = None
    if ctx is not None:
        try:
            try:
                return cm.make_covariance_matrix()
            finally:
                try:
                    ctx.__exit__(None, None, None)
                except Exception:
                    pass
        except Exception:
            if getattr(cm, "threads", 2) == 1:
                raise           # no pool involved: the library's own exception
    M = cm.make_covariance_matrix()
    _MP_REAL_POOL[0] += 1
    return M


def build(sensors, layers, threads=1, D=None):
    """the matrix returned by the real builder"""
    from aotools.turbulence import slopecovariance as sc
    D = D_TEL if D is None else D
    cm = sc.CovarianceMatrix(
        len(sensors), [s["mask"].copy() for s in sensors], D, [s["d"] for s in sensors],
        [s["h_gs"] for s in sensors], [list(s["theta"]) for s in sensors], [s["lam"] for s in sensors],
        len(layers), [l[0] for l in layers], [l[1] for l in layers], [l[2] for l in layers], threads)
    with numpy.errstate(all="ignore"):      # a NaN entry is judged by the `finite` clause, not printed
        if threads == 1:
            return cm.make_covariance_matrix()
        return make_matrix(cm)


def _blocks(sensors):
    """[(label, row slice, col slice)] of the lower block triangle (+ both cross blocks of a
    sensor with itself)"""
    sl = slopes.block_slices(sensors)
    out = []
    for i in range(len(sensors)):
        for j in range(i + 1):
            for a, b in (("x", "x"), ("y", "y"), ("x", "y"), ("y", "x")):
                out.append(("%d%s-%d%s" % (i, a, j, b), sl[(i, a)], sl[(j, b)]))
    return out


def _maxabs(a):
    a = numpy.asarray(a, dtype=float)
    if a.size == 0:
        return 0.0
    m = numpy.max(numpy.abs(a))
    return float(m) if m == m else float("inf")


def _asym(M64):
    """max |M_ij - M_ji| / sqrt(M_ii M_jj)  (0 for a bit-symmetric matrix; an entry that is NaN on both sides is
    the `finite` clause's business; a difference where the diagonal gives no scale counts as infinite)"""
    if M64.size == 0:
        return 0.0
    with numpy.errstate(all="ignore"):
        d = numpy.abs(M64 - M64.T)
        d = numpy.where(numpy.isnan(M64) & numpy.isnan(M64.T), 0.0, d)
        g = numpy.sqrt(numpy.clip(numpy.nan_to_num(numpy.diag(M64)), 0.0, None))
        r = numpy.where(d == 0, 0.0, d / (g[:, None] * g[None, :]))
    r = numpy.where(numpy.isnan(r), numpy.inf, r)
    return float(numpy.max(r))


def _rel(a, b):
    """max|a - b| / max|b| of two matrices (inf when the shapes differ; NaN on both sides is not a difference)"""
    a, b = numpy.asarray(a, dtype=float), numpy.asarray(b, dtype=float)
    if a.shape != b.shape:
        return float("inf")
    if a.size == 0:
        return 0.0
    diff = numpy.where(numpy.isnan(a) & numpy.isnan(b), 0.0, a - b)
    return _maxabs(diff) / max(_maxabs(numpy.nan_to_num(b)), 1e-300)


def _blockmax(err, rs, cs):
    e = err[rs, cs]
    return float(numpy.max(e)) if e.size else 0.0


def _emit_pool_stat(o):
    if _MP_REAL_POOL[0]:
        o.stat("mp_inline_pool_not_claimed", _MP_REAL_POOL[0])
        _MP_REAL_POOL[0] = 0


class _Agg(object):
    """worst measure and the tags of the builds that exceed the tolerance, per key"""

    def __init__(self, tol):
        self.tol, self.worst, self.bad, self.n = tol, {}, {}, {}

    def add(self, key, measure, tag):
        m = float(measure)
        if m != m:
            m = float("inf")
        self.n[key] = self.n.get(key, 0) + 1
        if m > self.worst.get(key, -1.0):
            self.worst[key] = m
        if not m <= self.tol:
            self.bad.setdefault(key, []).append(tag)

    def emit(self, o, clause, subfmt=None):
        for key in self.worst:
            bad = self.bad.get(key)
            o.check(clause, not bad, sub=None if subfmt is None else subfmt % key,
                    measure=self.worst[key], tol=self.tol, n=self.n[key],
                    detail=None if not bad else "exceeded in builds %s" % ",".join(bad))


def evaluate(p):
    _MP_REAL_POOL[0] = 0
    o = _evaluate(p)
    _emit_pool_stat(o)
    return o


def _evaluate(p):
    o = Out()
    if p.get("kind") == "forms":
        return _forms(o, p["k"])
    if p.get("kind") == "special":
        return _special(o, p)
    if p.get("kind") == "geo":
        return _geo(o, p)
    if p.get("kind") == "reassign":
        return _reassign(o, p)
    spec = [tuple(s) for s in p["sensors"]]
    n = len(spec)
    base = "5" * n
    blocks = None
    entry = _Agg(TOL_ENTRY)
    shape, sym, fin, psd = _Agg(0), _Agg(_tol_sym(len(FULL))), _Agg(0), _Agg(TOL_PSD)
    built = {}

    def one(wl, lset, tag):
        sensors = _sensor_dicts(spec, wl)
        layers = [LAYERS[i] for i in lset]
        M = numpy.asarray(build(sensors, layers))
        o.stat("lib_calls", 1)
        ref = slopes.slope_covariance(sensors, D_TEL, layers)
        N = ref.shape[0]
        ok_shape = M.shape == (N, N)
        shape.add(0, 0 if ok_shape else 1, tag)
        if not ok_shape:
            return None
        built[(wl, lset)] = M
        M64 = M.astype(float)
        finite = bool(numpy.all(numpy.isfinite(M64)))
        fin.add(0, 0 if finite else 1, tag)
        sym.add(0, _asym(M64), tag)
        if finite:
            w = numpy.linalg.eigvalsh(0.5 * (M64 + M64.T))
            psd.add(0, max(0.0, -float(w[0])) / max(float(w[-1]), 1e-300), tag)
        else:
            psd.add(0, float("inf"), tag)
        err = numpy.abs(M64 - ref) / (numpy.abs(ref) + ENTRY_FLOOR * _maxabs(ref))
        err = numpy.where(numpy.isfinite(err), err, numpy.inf)
        for label, rs, cs in _blocks(sensors):
            entry.add(label, _blockmax(err, rs, cs), tag)
        return M

    # (c) every layer subset at the base wavelengths, every other wavelength assignment on all layers
    for lset in LAYER_SETS:
        one(base, lset, "L" + "".join(map(str, lset)))
    others = ["".join(w) for w in itertools.product("57", repeat=n) if "".join(w) != base]
    for wl in others:
        one(wl, FULL, "wl" + wl)
    shape.emit(o, "shape")
    fin.emit(o, "finite")
    sym.emit(o, "symmetric")
    psd.emit(o, "psd")
    entry.emit(o, "entrywise", "blk=%s")

    # (e) additivity over layers
    for lset in LAYER_SETS:
        if len(lset) < 2 or (base, lset) not in built:
            continue
        parts = [built.get((base, (i,))) for i in lset]
        if any(x is None for x in parts):
            continue
        tot = built[(base, lset)].astype(float)
        s = sum(x.astype(float) for x in parts)
        o.close("additive_over_layers", _maxabs(tot - s) / max(_maxabs(s), 1e-300), _tol_sum(len(lset)),
                sub="L=" + "".join(map(str, lset)))

    Mfull = built.get((base, FULL))
    if Mfull is not None:
        M0 = Mfull.astype(float)
        # (f) r0 -> 2 r0 on every layer multiplies the matrix by 2^(-5/3)
        sensors = _sensor_dicts(spec, base)
        M2 = numpy.asarray(build(sensors, [(h, 2.0 * r0, L0) for h, r0, L0 in LAYERS])).astype(float)
        o.stat("lib_calls", 1)
        c = 2.0 ** (-5.0 / 3.0)
        o.close("r0_scaling", _maxabs(M2 - c * M0) / max(c * _maxabs(M0), 1e-300), _tol_sum(len(FULL)))
        # (f) wavelength of sensor i scales its rows and columns
        idx = slopes.slope_index(sensors)
        for wl in others:
            Mw = built.get((wl, FULL))
            if Mw is None:
                continue
            f = numpy.array([WL[wl[k]] / WL[base[k]] for k, _, _ in idx])
            want = M0 * f[:, None] * f[None, :]
            o.close("wavelength_scaling", _maxabs(Mw.astype(float) - want) / max(_maxabs(want), 1e-300),
                    _tol_sum(len(FULL)), sub="wl=" + wl)
        # "summed over layers": the sum does not depend on the order in which the layers are listed; a layer is
        # the triple (altitude, r0, L0).  Every permutation of the full layer set (float32 accumulation order
        # changes the last bits only).  Added after a seeded change sorted the altitudes but not the r0/L0 lists.
        import itertools as _it
        for perm in _it.permutations(FULL):
            if list(perm) == list(FULL):
                continue
            Mp_ = numpy.asarray(build(sensors, [LAYERS[i] for i in perm])).astype(float)
            o.stat("lib_calls", 1)
            o.close("layer_order_irrelevant", _maxabs(Mp_ - M0) / max(_maxabs(M0), 1e-300), _tol_sum(len(FULL)),
                    sub="order=%s" % "".join(map(str, perm)))
        # multi-process assembly path (in-line pool), mixed wavelengths
        wl = ("57" * n)[:n]
        ser = built.get((wl, FULL))
        if ser is not None:
            Mp = numpy.asarray(build(_sensor_dicts(spec, wl), [LAYERS[i] for i in FULL], threads=2))
            o.stat("lib_calls", 1)
            if Mp.shape != ser.shape:
                o.check("mp_path_agrees", False, detail="shape %s" % (Mp.shape,))
            else:
                both_nan = numpy.isnan(Mp) & numpy.isnan(ser)      # NaN itself is the `finite` clause's business
                diff = numpy.where(both_nan, 0.0, Mp.astype(float) - ser.astype(float))
                o.close("mp_path_agrees", _maxabs(diff) / max(_maxabs(numpy.nan_to_num(ser)), 1e-300), _tol_sum(len(FULL)))
        o.outcome(numpy.round(M0 / max(_maxabs(M0), 1e-300), 4))
    return o


def _reassign(o, p):
    """One object used as in a fitting loop: make the matrix, make it again, re-assign a configuration attribute,
    make it again, ...  The statement does not say whether a re-assignment after construction is honoured, so only
    UNIFORM semantics are demanded: either every build equals the matrix of a fresh object with the current attributes
    (all re-assignments honoured) or every build equals the first build (configuration frozen at construction).  A
    mixture - some attributes honoured, others stale - is the violation (`reassigned_object_equals_fresh_object`,
    step by step against the fresh object).  An attribute that cannot be re-assigned is skipped.  Results handed out
    earlier are kept, un-copied, across all later builds and must keep their bytes."""
    from aotools.turbulence import slopecovariance as sc
    threads = p["threads"]
    tol = _tol_sum(2)
    cfg = {"pupil_masks": [mask_array("2:1110"), mask_array("2:1011")], "telescope_diameter": D_TEL,
           "subap_diameters": [1.0, 1.0], "gs_altitudes": [0.0, 90000.0], "gs_positions": [[0.0, 0.0], [15.0, -35.0]],
           "wfs_wavelengths": [500e-9, 700e-9], "layer_altitudes": [0.0, 5000.0], "layer_r0s": [0.2, 0.3],
           "layer_L0s": [25.0, 10.0]}
    steps = [("gs_positions", [[30.0, 0.0], [-20.0, 25.0]]), ("gs_altitudes", [20000.0, 0.0]),
             ("layer_altitudes", [1000.0, 12000.0]), ("subap_diameters", [0.5, 1.0]),
             ("pupil_masks", [mask_array("2:0111"), mask_array("2:1101")]), ("layer_r0s", [0.5, 0.1]),
             ("layer_L0s", [100.0, 5.0]), ("wfs_wavelengths", [700e-9, 589e-9]), ("telescope_diameter", 1.5),
             ("gs_positions", numpy.array([[0.0, 10.0], [5.0, 5.0]])), ("layer_altitudes", numpy.array([0.0, 5000.0]))]
    steps += [(k, v) for k, v in cfg.items() if k not in ("layer_altitudes",)]      # ... and back to the start

    def make(c):
        return sc.CovarianceMatrix(2, [m.copy() for m in c["pupil_masks"]], c["telescope_diameter"], list(c["subap_diameters"]),
                                   list(c["gs_altitudes"]), [list(x) for x in numpy.asarray(c["gs_positions"])], list(c["wfs_wavelengths"]), 2,
                                   list(numpy.asarray(c["layer_altitudes"])), list(c["layer_r0s"]), list(c["layer_L0s"]), threads)

    def raw(cm):
        with numpy.errstate(all="ignore"):
            return make_matrix(cm)

    def val(cm):
        return numpy.array(raw(cm), dtype=float)

    held = []                   # (tag, returned object itself, its bytes when it was returned)

    def hold(tag, M):
        try:
            held.append((tag, M, numpy.asarray(M).tobytes()))
        except Exception:
            pass
        return numpy.array(M, dtype=float)

    obj = make(cfg)
    cur = dict(cfg)
    first = hold("build0", raw(obj))
    o.close("reassigned_object_equals_fresh_object", _rel(first, val(make(cur))), tol, sub="step=0:initial")
    # history the statement covers without any reading: the same object, made again with no edit in between
    again = hold("build0-repeat", raw(obj))
    o.close("repeated_build_equals_first_build", _rel(again, first), tol)
    o.stat("lib_calls", 3)
    rows = []
    for k, (name, v) in enumerate(steps):
        try:
            setattr(obj, name, v.copy() if isinstance(v, numpy.ndarray) else (list(v) if isinstance(v, list) else v))
        except Exception:
            o.stat("reassign_%s_not_claimed" % name, 1)
            continue
        cur[name] = v
        got = hold("step%d" % (k + 1), raw(obj))
        want = val(make(cur))
        o.stat("lib_calls", 2)
        rows.append(("step=%d:%s" % (k + 1, name), got, want))
    honoured = all(_rel(got, want) <= tol for _, got, want in rows)
    frozen = all(_rel(got, first) <= tol for _, got, want in rows)
    if frozen and not honoured:
        # configuration frozen at construction, uniformly: every build is the first build
        o.stat("reassign_frozen_at_construction", 1)
        for sub, got, want in rows:
            o.close("reassigned_object_equals_fresh_object", _rel(got, first), tol, sub=sub)
    else:
        for sub, got, want in rows:
            o.close("reassigned_object_equals_fresh_object", _rel(got, want), tol, sub=sub)
    # a matrix handed out earlier still is what it was when it was returned (compared byte by byte with itself)
    bad = [tag for tag, M, b in held if numpy.asarray(M).tobytes() != b]
    o.check("held_result_not_overwritten", not bad, n=len(held),
            detail=None if not bad else "results of %s changed under later builds" % ",".join(bad))
    o.outcome(numpy.round(first / max(_maxabs(first), 1e-300), 4))
    return o


def _full_clauses(o, sensors, D, layers, threads=(2,)):
    """one configuration: every clause of the statement on that build (entrywise against the reference, symmetric,
    PSD, additive over its layers, r0 scaling, multi-process path)"""
    nl = len(layers)
    M = numpy.asarray(build(sensors, layers, D=D))
    o.stat("lib_calls", 1)
    ref = slopes.slope_covariance(sensors, D, layers)
    N = ref.shape[0]
    o.check("shape", M.shape == (N, N), detail=M.shape)
    if M.shape != (N, N):
        return None
    M64 = M.astype(float)
    finite = bool(numpy.all(numpy.isfinite(M64)))
    o.check("finite", finite)
    o.close("symmetric", _asym(M64), _tol_sym(nl))
    if not finite:
        return None
    if N:
        w = numpy.linalg.eigvalsh(0.5 * (M64 + M64.T))
        o.close("psd", max(0.0, -float(w[0])) / max(float(w[-1]), 1e-300), TOL_PSD)
    err = numpy.abs(M64 - ref) / (numpy.abs(ref) + ENTRY_FLOOR * _maxabs(ref))
    err = numpy.where(numpy.isfinite(err), err, numpy.inf)
    for label, rs, cs in _blocks(sensors):
        o.close("entrywise", _blockmax(err, rs, cs), TOL_ENTRY, sub="blk=%s" % label)
    if nl > 1 and N <= 600:
        s_ = sum(numpy.asarray(build(sensors, [l], D=D)).astype(float) for l in layers)
        o.stat("lib_calls", nl)
        o.close("additive_over_layers", _maxabs(M64 - s_) / max(_maxabs(s_), 1e-300), _tol_sum(nl))
    M2 = numpy.asarray(build(sensors, [(h, 2.0 * r0, L0) for h, r0, L0 in layers], D=D)).astype(float)
    o.stat("lib_calls", 1)
    c = 2.0 ** (-5.0 / 3.0)
    o.close("r0_scaling", _rel(M2, c * M64), _tol_sum(nl))
    for t in threads:
        Mp = numpy.asarray(build(sensors, layers, threads=t, D=D))
        o.stat("lib_calls", 1)
        sub = None if t == 2 else "threads=%d" % t
        if Mp.shape != M.shape:
            o.check("mp_path_agrees", False, sub=sub, detail="shape %s" % (Mp.shape,))
        else:
            o.close("mp_path_agrees", _rel(Mp, M64), _tol_sum(nl), sub=sub)
    return M64


def _special(o, p):
    """one configuration with an explicit layer list"""
    spec = [(BIG.get(m, m), k, d) for m, k, d in p["spec"]]
    layers = EXTREME_LAYERS[p["atm"]]
    sensors = _sensor_dicts(spec, p["wl"])
    M64 = _full_clauses(o, sensors, D_TEL, layers)
    if M64 is not None:
        o.outcome((p["atm"], M64.shape[0]))
    return o


def _geo(o, p):
    """one geometry beyond the lattice (non-square masks, 4-6 sensors, an all-zero mask, other telescope diameters)"""
    D, spec, layers = GEO[p["name"]]
    sensors = [{"mask": mask_array(m), "d": d, "h_gs": h, "theta": tuple(th), "lam": w * 1e-9} for m, d, h, th, w in spec]
    if any(int(s["mask"].sum()) == 0 for s in sensors):
        # a sensor without any active sub-aperture is a degenerate member of "all 0/1 masks": a builder that refuses
        # it is not judged; one that returns a matrix must return the right one (blocks of size 0 for that sensor)
        try:
            build(sensors, [tuple(l) for l in layers], D=D)
        except Exception:
            o.stat("empty_mask_not_claimed", 1)
            return o
    M64 = _full_clauses(o, sensors, D, [tuple(l) for l in layers], threads=(2, 3))
    if M64 is not None:
        o.outcome(numpy.round(M64 / max(_maxabs(M64), 1e-300), 4))
    return o


def _forms(o, k):
    """The same configuration written in every common argument form - lists, tuples, numpy arrays, masks stored
    as float (what aotools.circle returns), bool or small ints, whole-number parameters given as Python ints, one
    mask object shared by all sensors, ndarrays mixed with lists (the spellings of the repository's own test) - must
    give the same matrix up to single-precision rounding: the matrix is a function of the configuration, not of its
    spelling (bit identity and an equal dtype are not demanded: another spelling may be evaluated in another order)."""
    from aotools.turbulence import slopecovariance as sc
    spec = [tuple(x) for x in FORM_SPECS[k]]
    spec = [s for s in spec if s[1] in KINDS]
    sensors = _sensor_dicts(spec, "5" * len(spec))
    layers = [LAYERS[0], LAYERS[1]]

    def call(masks, D, ds, alts, pos, wls, lh, lr, lL):
        cm = sc.CovarianceMatrix(len(sensors), masks, D, ds, alts, pos, wls, len(layers), lh, lr, lL, 1)
        with numpy.errstate(all="ignore"):
            return numpy.array(cm.make_covariance_matrix())
    base_args = dict(
        masks=[s["mask"].copy() for s in sensors], D=D_TEL, ds=[s["d"] for s in sensors],
        alts=[s["h_gs"] for s in sensors], pos=[list(s["theta"]) for s in sensors], wls=[s["lam"] for s in sensors],
        lh=[l[0] for l in layers], lr=[l[1] for l in layers], lL=[l[2] for l in layers])
    base = call(**base_args)
    o.stat("lib_calls", 1)

    def whole(v):
        return int(v) if float(v) == int(v) else v
    forms = {
        "numpy_arrays": dict(ds=numpy.array(base_args["ds"]), alts=numpy.array(base_args["alts"], dtype=float),
                             pos=numpy.array(base_args["pos"], dtype=float), wls=numpy.array(base_args["wls"]),
                             lh=numpy.array(base_args["lh"]), lr=numpy.array(base_args["lr"]), lL=numpy.array(base_args["lL"])),
        "tuples": dict(ds=tuple(base_args["ds"]), alts=tuple(base_args["alts"]), pos=tuple(tuple(x) for x in base_args["pos"]),
                       wls=tuple(base_args["wls"]), lh=tuple(base_args["lh"]), lr=tuple(base_args["lr"]), lL=tuple(base_args["lL"])),
        "masks_float": dict(masks=[m.astype(float) for m in base_args["masks"]]),
        "masks_bool": dict(masks=[m.astype(bool) for m in base_args["masks"]]),
        "masks_int8": dict(masks=[m.astype(numpy.int8) for m in base_args["masks"]]),
        "masks_fortran": dict(masks=[numpy.asfortranarray(m) for m in base_args["masks"]]),
        "whole_numbers_as_int": dict(D=whole(D_TEL), ds=[whole(d) for d in base_args["ds"]],
                                     alts=[whole(a) for a in base_args["alts"]],
                                     pos=[[whole(c) for c in q] for q in base_args["pos"]],
                                     lh=[whole(h) for h in base_args["lh"]], lL=[whole(L) for L in base_args["lL"]]),
        "numpy_scalars": dict(D=numpy.float64(D_TEL), ds=[numpy.float64(d) for d in base_args["ds"]],
                              lr=[numpy.float64(r) for r in base_args["lr"]]),
        # the spellings of test/test_slopecovariance.py: altitudes as ndarray next to r0 / L0 lists, guide-star
        # altitudes as Python ints, sub-aperture sizes as ndarray
        "ndarray_mixed_with_lists": dict(lh=numpy.array(base_args["lh"]), ds=numpy.array(base_args["ds"]),
                                         alts=[whole(a) for a in base_args["alts"]]),
    }
    if all(numpy.array_equal(m, base_args["masks"][0]) for m in base_args["masks"]):
        forms["one_shared_mask_object"] = dict(masks=[base_args["masks"][0].astype(float)] * len(sensors))
    # more guide-star directions listed than sensors (the repository's test lists 6 for 3 sensors): not part of the
    # statement; if the builder accepts it the extra rows must be ignored, if it refuses nothing is claimed
    optional = {"extra_gs_position_rows": dict(pos=base_args["pos"] + [[40.0, -40.0], [7.0, 9.0]])}
    tol = _tol_sum(len(layers))
    for name, over in list(forms.items()) + list(optional.items()):
        a = dict(base_args)
        a.update(over)
        try:
            got = call(**a)
            o.stat("lib_calls", 1)
            o.close("same_matrix_for_every_argument_form", _rel(got, base), tol, sub=name)
        except Exception as e:
            if name in optional:
                o.stat("form_%s_not_claimed" % name, 1)
                continue
            o.check("same_matrix_for_every_argument_form", False, sub=name,
                    detail="%s: %s" % (type(e).__name__, str(e)[:200]))
    return o
